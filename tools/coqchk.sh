#!/bin/bash
# Re-check every compiled property module (and everything it loads) with Coq's independent checker and list the axioms.
# Takes several minutes and a few GB of memory.  Output: docs/coqchk_report.txt
cd /verif/coq
./build.sh >/dev/null 2>&1
mods=$(ls theories/Props/C*.v | sed 's#theories/Props/\(.*\)\.v#PySDC.Props.\1#' | tr '\n' ' ')
( ulimit -s unlimited; timeout 7200 coqchk -silent -o -Q theories PySDC $mods ) > /verif/docs/coqchk_report.txt 2>&1
echo "coqchk exit=$?" >> /verif/docs/coqchk_report.txt
tail -3 /verif/docs/coqchk_report.txt
