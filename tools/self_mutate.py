#!/venv/bin/python
"""Hand-written mutants for the orchestrator-built checks (C01, C02, C03, C10, C18): apply each in a scratch worktree,
run the named checks with VERIF_REPO, report which ones alarm."""
import os, subprocess, sys, json
WT = '/tmp/selfmut/wt'
MUT = [
 ('gi_gather_bound', 'pySDC/implementations/sweeper_classes/generic_implicit.py', "            for j in range(1, M + 1):\n                integral[m] -= L.dt * self.QI[m + 1, j] * L.f[j]", "            for j in range(1, M):\n                integral[m] -= L.dt * self.QI[m + 1, j] * L.f[j]", ['C02', 'C01']),
 ('gi_endpoint_tau', 'pySDC/implementations/sweeper_classes/generic_implicit.py', "            if L.tau[-1] is not None:\n                L.uend += L.tau[-1]", "            if False:\n                L.uend += L.tau[-1]", ['C02', 'C10']),
 ('imex_node_time', 'pySDC/implementations/sweeper_classes/imex_1st_order.py', "            L.f[m + 1] = P.eval_f(L.u[m + 1], L.time + L.dt * self.coll.nodes[m])", "            L.f[m + 1] = P.eval_f(L.u[m + 1], L.time + L.dt * self.coll.nodes[m - 1])", ['C02', 'C03']),
 ('expl_new_f_index', 'pySDC/implementations/sweeper_classes/explicit.py', "            for j in range(1, m + 1):\n                L.u[m + 1] += L.dt * self.QE[m + 1, j] * L.f[j]", "            for j in range(1, m + 1):\n                L.u[m + 1] += L.dt * self.QE[m + 1, j] * L.f[j - 1]", ['C02']),
 ('residual_wrong_node', 'pySDC/core/sweeper.py', "            L.residual[m] += L.u[0] - L.u[m + 1]", "            L.residual[m] += L.u[0] - L.u[m]", ['C03', 'C02']),
 ('residual_last_abs', 'pySDC/core/sweeper.py', "        elif L.params.residual_type == 'last_abs':\n            L.status.residual = res_norm[-1]", "        elif L.params.residual_type == 'last_abs':\n            L.status.residual = res_norm[0]", ['C03']),
 ('iter_conv_gt', 'pySDC/implementations/convergence_controller_classes/check_convergence.py', "iter_converged = S.status.iter >= S.params.maxiter", "iter_converged = S.status.iter > S.params.maxiter", ['C03']),
 ('residual_before_recv', 'pySDC/implementations/controller_classes/controller_nonMPI.py', "            # send updated values forward\n            self.send_full(S, level=0)\n            # receive values\n            self.recv_full(S, level=0)\n            # compute current residual\n            S.levels[0].sweep.compute_residual(stage='IT_CHECK')", "            S.levels[0].sweep.compute_residual(stage='IT_CHECK')\n            self.send_full(S, level=0)\n            self.recv_full(S, level=0)", ['C03', 'C01']),
 ('restrict_skip_tau', 'pySDC/core/base_transfer.py', "        if F.tau[0] is not None:\n            # restrict possible tau correction from fine in space", "        if False:\n            # restrict possible tau correction from fine in space", ['C10', 'C01']),
 ('prolong_full_value', 'pySDC/core/base_transfer.py', "            tmp_u.append(self.space_transfer.prolong(G.u[m] - G.uold[m]))\n\n        # interpolate values in collocation\n        for n in range(1, SF.coll.num_nodes + 1):\n            for m in range(SG.coll.num_nodes):\n                F.u[n] += self.Pcoll[n - 1, m] * tmp_u[m]\n\n        # re-evaluate", "            tmp_u.append(self.space_transfer.prolong(G.u[m] - G.uold[m] * 0.5))\n\n        # interpolate values in collocation\n        for n in range(1, SF.coll.num_nodes + 1):\n            for m in range(SG.coll.num_nodes):\n                F.u[n] += self.Pcoll[n - 1, m] * tmp_u[m]\n\n        # re-evaluate", ['C10']),
 ('tau_sign', 'pySDC/core/base_transfer.py', "            G.tau[m] = tauFG[m] - tauG[m]", "            G.tau[m] = tauFG[m] + tauG[m]", ['C10', 'C01']),
 ('fd_wrap_diag', 'pySDC/helpers/problem_helper.py', "                A_1d += coeff[i] * sp.eye(size, k=-size + steps[i])", "                A_1d += coeff[i] * sp.eye(size, k=-size + steps[i] + 1)", ['C18']),
 ('fd_upwind_steps', 'pySDC/helpers/problem_helper.py', "            steps = np.append(-np.arange(n - 1)[::-1], [1])", "            steps = np.append(-np.arange(n - 1)[::-1], [2])", ['C18']),
 # ---- second batch: controller stages on blocks of steps, predictor, coarse u0, Neumann boundary vector, 2-D assembly
 ('it_coarse_sweep_before_recv', 'pySDC/implementations/controller_classes/controller_nonMPI.py', "            # receive from previous step (if not first)\n            self.recv_full(S, level=len(S.levels) - 1)\n", "", ['C01', 'C07']),
 ('it_down_mid_no_comm', 'pySDC/implementations/controller_classes/controller_nonMPI.py', "                for S in local_MS_running:\n                    # send updated values forward\n                    self.send_full(S, level=l)\n                    # receive values\n                    self.recv_full(S, level=l)\n\n                for S in local_MS_running:\n                    for hook in self.hooks:\n                        hook.pre_sweep(step=S, level_number=l)\n                    S.levels[l].sweep.update_nodes()\n                    S.levels[l].sweep.compute_residual(stage='IT_DOWN')", "                for S in local_MS_running:\n                    for hook in self.hooks:\n                        hook.pre_sweep(step=S, level_number=l)\n                    S.levels[l].sweep.update_nodes()\n                    S.levels[l].sweep.compute_residual(stage='IT_DOWN')", ['C01', 'C10']),
 ('burnin_recv_range', 'pySDC/implementations/controller_classes/controller_nonMPI.py', "                for p in range(q + 1, len(local_MS_running)):", "                for p in range(q + 2, len(local_MS_running)):", ['C01']),
 ('restrict_skip_u0', 'pySDC/core/base_transfer.py', "        G.u[0] = self.space_transfer.restrict(F.u[0])\n", "        G.u[0] = G.u[0] if G.u[0] is not None else self.space_transfer.restrict(F.u[0])\n", ['C10', 'C01']),
 ('neumann_b_without_dx', 'pySDC/helpers/problem_helper.py', "                    b[iLine] = val * b_coeff[iCoeff] / n_coeff[iCoeff] * dx", "                    b[iLine] = val * b_coeff[iCoeff] / n_coeff[iCoeff]", ['C18']),
 ('kron2d_transposed', 'pySDC/helpers/problem_helper.py', "        A = sp.kron(A_1d, sp.eye(size)) + sp.kron(sp.eye(size), A_1d)", "        A = sp.kron(A_1d, sp.eye(size)) + sp.kron(sp.eye(size), A_1d.T)", ['C18']),
 ('send_stale_uend', 'pySDC/implementations/controller_classes/controller_nonMPI.py', "            source.sweep.compute_end_point()\n            source.tag = cp.deepcopy(tag)", "            if source.uend is None:\n                source.sweep.compute_end_point()\n            source.tag = cp.deepcopy(tag)", ['C01', 'C06']),
]
only = sys.argv[1:]
subprocess.run(['git', '-C', '/repo', 'worktree', 'remove', '--force', WT], capture_output=True)
os.makedirs('/tmp/selfmut', exist_ok=True)
subprocess.run(['git', '-C', '/repo', 'worktree', 'add', '-q', '--detach', WT, 'HEAD'], check=True)
res = {}
try:
    for name, f, old, new, checks in MUT:
        if only and name not in only:
            continue
        p = os.path.join(WT, f)
        s = open(p).read()
        if s.count(old) != 1:
            print(name, 'PATTERN NOT FOUND (%d)' % s.count(old)); res[name] = 'pattern-missing'; continue
        open(p, 'w').write(s.replace(old, new))
        out = {}
        for c in checks:
            r = subprocess.run(['./check', c], cwd='/verif', env=dict(os.environ, VERIF_REPO=WT, LOCK_WAIT='20'), capture_output=True, text=True)
            nv = sum(1 for l in r.stdout.splitlines() if l.startswith('VIOLATION'))
            out[c] = nv
        subprocess.run(['git', '-C', WT, 'checkout', '--', '.'], check=True)
        res[name] = out
        print(name, out, flush=True)
finally:
    subprocess.run(['git', '-C', '/repo', 'worktree', 'remove', '--force', WT], capture_output=True)
prev = {}
try:
    prev = json.load(open('/verif/docs/self_mutation_orchestrator.json'))
except Exception:
    pass
prev.update(res)
json.dump(prev, open('/verif/docs/self_mutation_orchestrator.json', 'w'), indent=1)
