#!/bin/bash
# tools/try_mutant.sh <ID> <dir-with-patch.diff-and-demo.py> : apply the seeded change in a scratch worktree of /repo,
# run its demo with and without the change, run ./check <ID> against the worktree, clean up.
ID=$1; D=$2; WT=/tmp/mutcheck/$ID-$$
mkdir -p /tmp/mutcheck
git -C /repo worktree add -q --detach $WT HEAD || exit 2
echo "== demo on clean tree"; (cd $WT && PYTHONPATH=$WT${EXTRA_PP:+:$EXTRA_PP} timeout 900 /venv/bin/python $D/demo.py >/tmp/mutcheck/demo_clean.$$ 2>&1; echo "exit=$?")
if ! git -C $WT apply $D/patch.diff; then echo "PATCH DOES NOT APPLY"; git -C /repo worktree remove --force $WT; exit 3; fi
echo "== demo with change"; (cd $WT && PYTHONPATH=$WT${EXTRA_PP:+:$EXTRA_PP} timeout 900 /venv/bin/python $D/demo.py >/tmp/mutcheck/demo_mut.$$ 2>&1; echo "exit=$?"; tail -3 /tmp/mutcheck/demo_mut.$$)
echo "== check $ID with change"
cd /verif && VERIF_REPO=$WT LOCK_WAIT=20 timeout 3000 ./check $ID ${TIER:+--tier $TIER} 2>&1 | grep -E "VIOLATION|KNOWN-FINDING|obligations [0-9]" | cut -c1-220 | head -${LINES_MAX:-12}
git -C /repo worktree remove --force $WT
