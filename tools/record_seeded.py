#!/venv/bin/python
"""tools/record_seeded.py <PROP> <variant> <srcdir> <caught: yes|no|partial> "<which check/what caught it>" """
import json, os, shutil, sys, subprocess
prop, var, src, caught, how = sys.argv[1:6]
dst = '/verif/seeded/%s-%s' % (prop, var)
os.makedirs(dst, exist_ok=True)
for f in ('patch.diff', 'demo.py', 'notes.md'):
    if os.path.exists(os.path.join(src, f)):
        shutil.copy(os.path.join(src, f), os.path.join(dst, f))
notes = open(os.path.join(src, 'notes.md')).read() if os.path.exists(os.path.join(src, 'notes.md')) else ''
head = subprocess.run(['git', '-C', '/repo', 'log', '--format=%h', '-1'], capture_output=True, text=True).stdout.strip()
meta = {'id': '%s-%s' % (prop, var), 'breaks_property': prop, 'source': 'independent sub-agent given only the property text and a scratch worktree',
        'repo_head_when_created': head, 'needs_to_manifest': notes.split('\n\n')[0][:1500] if notes else '',
        'what_i_ran': 'tools/try_mutant.sh %s <dir>: demo.py exits 0 on the clean tree and 1 with the change (confirmed); ./check %s run against a scratch worktree with the patch applied' % (prop, prop),
        'detected_by_check': caught, 'how': how}
json.dump(meta, open(os.path.join(dst, 'meta.json'), 'w'), indent=1)
print('recorded', dst)
