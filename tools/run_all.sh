#!/bin/bash
# run every registered check once (quick tier unless TIER=thorough), summarise
cd /verif
ids=$(/venv/bin/python -c "import json; print(' '.join(c['property_id'] for c in json.load(open('MANIFEST.json'))['checks']))")
for id in ${@:-$ids}; do
  s=$(date +%s)
  out=$(LOCK_WAIT=${LOCK_WAIT:-60} ./check $id ${TIER:+--tier $TIER} ${SEED:+--seed $SEED} 2>&1); rc=$?
  e=$(( $(date +%s) - s ))
  nv=$(echo "$out" | grep -c "^VIOLATION"); nk=$(echo "$out" | grep -c "^KNOWN-FINDING")
  echo "$id rc=$rc violations=$nv known=$nk wall=${e}s :: $(echo "$out" | grep -E "obligations [0-9]+/[0-9]+" | tail -1 | sed 's/.*\] //')"
  [ $rc -ne 0 ] && echo "$out" | grep -A1 "^VIOLATION" | head -8
done
