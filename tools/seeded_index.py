#!/venv/bin/python
import json, glob, os
rows = []
for d in sorted(glob.glob('/verif/seeded/*/meta.json')):
    m = json.load(open(d))
    rows.append('| %s | %s | %s | %s |' % (m['id'], m['breaks_property'], m['detected_by_check'], m['how'].replace('|', '/')))
open('/verif/seeded/INDEX.md', 'w').write('# Seeded changes (independent sub-agents) and which check catches them\n\n'
    'Each directory holds patch.diff (against /repo HEAD at creation), demo.py (exits 1 with the change, 0 without), notes.md, meta.json.\n'
    'Apply with `git -C /repo apply seeded/<id>/patch.diff`, run `./check <PROP>`, undo with `git -C /repo checkout -- .`.\n\n'
    '| id | property | detected | by |\n|---|---|---|---|\n' + '\n'.join(rows) + '\n')
print(len(rows), 'seeded changes indexed')
