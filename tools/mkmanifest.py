#!/venv/bin/python
"""Assemble /verif/MANIFEST.json from harness/props/*.meta.json (one fragment per property)."""
import glob, json, os
V = os.path.dirname(os.path.dirname(os.path.abspath(__file__)))
props = [json.loads(l) for l in open(os.path.join(V, 'properties.jsonl'))]
ids = [p['id'] for p in props]
checks, na = [], []
for pid in ids:
    f = os.path.join(V, 'harness', 'props', pid.lower() + '.meta.json')
    if not os.path.exists(f):
        na.append({'property_id': pid, 'reason': 'check not built yet in this session (planned, see DESIGN.md section 5); nothing is claimed for it'})
        continue
    m = json.load(open(f))
    if m.get('not_applicable'):
        na.append({'property_id': pid, 'reason': m['not_applicable']})
        continue
    checks.append({
        'property_id': pid,
        'quick_cmd': './check %s --tier quick' % pid,
        'thorough_cmd': './check %s --tier thorough' % pid,
        'evidence_file': '/verif/evidence/%s.json' % pid,
        'replay_cmd_template': './check %s --replay {path}' % pid,
        'engine': 'coq-proof',
        'level_claimed': {'category': m.get('category', 'proof'), 'text': m['text'], 'design_ref': m.get('design_ref', 'DESIGN.md section 5, ' + pid)},
        'level_note': m['level_note'],
        'technique': m['technique'],
    })
man = {
    'version': 1,
    'setup_cmd': 'cd /verif && ./setup.sh',
    'hooks': {'guard': 'PYSDC_VERIF', 'enable': 'PYSDC_VERIF=1 in the environment of ./check (no hook code exists in /repo: all instrumentation uses pySDC public extension points)',
              'baseline_off_cmd': 'cd /repo && /venv/bin/python -m pytest -ra -q -p no:cacheprovider --timeout=900 --continue-on-collection-errors',
              'source_commits': [], 'add_only': True},
    'engines': [{'name': 'coq-proof', 'path': '/verif/coq', 'serves_properties': [c['property_id'] for c in checks],
                 'kind_free_text': 'Coq 8.16.1 development (theories/Base, Model, Proofs, Props) + per-run generated tables/cases evaluated by the kernel (vm_compute) + Python correspondence harness running the real pySDC code'}],
    'checks': checks,
    'not_applicable': na,
    'notes': 'See DESIGN.md. known_findings.json lists recorded defects and fix: commits.',
}
json.dump(man, open(os.path.join(V, 'MANIFEST.json'), 'w'), indent=1)
print('checks:', [c['property_id'] for c in checks], 'n/a:', [n['property_id'] for n in na])
