#!/bin/bash
# Offline build of the whole Coq development (full .vo), plus hygiene greps.
set -e
cd /verif
if grep -rnE '\b(Admitted|admit|Axiom|Parameter|Conjecture|Abort All)\b|Unset Guard|bypass_check|Admit Obligations|type-in-type|impredicative-set' coq/theories --include=*.v | grep -v '^\s*(\*' ; then
  echo "forbidden construct found in the Coq development" >&2; exit 1
fi
JOBS=16 ./coq/build.sh
echo "setup ok"
