"""Worker for C08: runs the REAL pySDC MPI classes on simmpi and the serial counterparts.

Launched as a subprocess by harness/props/c08.py with
    PYTHONPATH = <verif>:<repo>:<verif>/harness/simmpi/shim
reads one JSON document from stdin  {"jobs": [ {"cfg": {...}, "schedules": [spec, ...], "want_logs": [i, ...]} ]}
and writes one JSON document to stdout.  Nothing in /repo is edited or monkey-patched.

cfg keys
  kind       'time'  controller_MPI on P ranks (time parallel), ordinary sweeper
             'node'  controller_nonMPI(1) on M ranks with a node-parallel sweeper (one rank per node)
             'both'  P*M ranks: COMM_WORLD.Split into time and node communicators, controller_MPI + MPI sweeper
  P, M       time ranks / collocation nodes
  problem    'test0d' | 'heat' | 'heat_forced' | 'vdp'
  lambdas    (test0d) list of [re, im];  nvars (heat*) list per level;  mu (vdp)
  sweeper    'implicit' | 'imex'
  quad_type, QI, initial_guess, do_coll_update
  nlev       number of levels (test0d/vdp: same problem on every level, identity space transfer, node counts
             `nodes_per_level`; heat*: `nvars` per level, mesh_to_mesh)
  finter     base_transfer_params finter
  dt, t0, Tend, maxiter, restol, nsweeps(list per level), QI (str or list per level), residual_type
  mssdc_jac, predict_type, all_to_done
  adaptivity {e_tol, flavor?} | None;  restarting {max_restarts, restart_from_first_step, crash_after_max_restarts} | None;
  spread     {spread_from_first_restarted, overwrite_to_reach_Tend} | None
  art_restarts  list of times at which an artificial restart is requested (as in the test-suite's ArtificialRestarts)
  art_dt     list: artificial step-size suggestions (dt factors) consumed block by block

schedule spec: ["seed", s, p_eager, p_stay] | ["policy", name, eager] | ["enum", [..vector..]]
               optional 5th/4th entry: reduce_order ('rank'|'reversed'|'shuffled')
"""
import io
import json
import sys
import time as _time

import numpy as np

from harness.simmpi import core
from harness.simmpi.logfmt import normalise_log

from mpi4py import MPI  # the stand-in

assert getattr(MPI, 'SIMULATED', False), 'runner must run with the simmpi shim on sys.path'

from pySDC.core.convergence_controller import ConvergenceController  # noqa: E402
from pySDC.core.hooks import Hooks  # noqa: E402
from pySDC.core.space_transfer import SpaceTransfer  # noqa: E402
from pySDC.helpers.stats_helper import get_sorted  # noqa: E402
from pySDC.implementations.controller_classes.controller_nonMPI import controller_nonMPI  # noqa: E402
from pySDC.implementations.controller_classes.controller_MPI import controller_MPI  # noqa: E402


def hx(a):
    """exact, canonical text of a numeric array / scalar"""
    a = np.ascontiguousarray(np.asarray(a))
    return a.dtype.str + ':' + a.tobytes().hex()


def unhx(s):
    dt, h = s.split(':')
    return np.frombuffer(bytes.fromhex(h), dtype=np.dtype(dt))


class IdentityTransfer(SpaceTransfer):
    def restrict(self, F):
        return type(F)(F)

    def prolong(self, G):
        return type(G)(G)


class TooExpensive(Exception):
    """The configuration needs more step attempts than the check wants to pay for (e.g. an adaptive run that keeps
    restarting with tiny steps): it is skipped, not judged."""


MAX_RECS = 6000


class Rec(Hooks):
    """Records, per step attempt, what the property compares.  One instance per controller (hence per rank)."""

    def __init__(self):
        super().__init__()
        self.recs = []
        self.block = {}

    def pre_step(self, step, level_number):
        super().pre_step(step, level_number)
        if len(self.recs) > MAX_RECS:
            raise TooExpensive('more than %d records' % MAX_RECS)
        key = id(step)
        self.block[key] = self.block.get(key, -1) + 1
        L = step.levels[0]
        self.recs.append(dict(ev='pre', block=self.block[key], slot=step.status.slot, time=L.time, dt=L.dt,
                              ria=int(step.status.get('restarts_in_a_row') or 0),
                              first=bool(step.status.first), last=bool(step.status.last),
                              u0=hx(L.u[0])))

    def post_iteration(self, step, level_number):
        super().post_iteration(step, level_number)
        L = step.levels[0]
        self.recs.append(dict(ev='it', block=self.block[id(step)], slot=step.status.slot, iter=step.status.iter,
                              res=float(L.status.residual)))

    def post_step(self, step, level_number):
        super().post_step(step, level_number)
        L = step.levels[0]
        sw = L.sweep
        rank = sw.rank if 'SweeperMPI' in [c.__name__ for c in type(sw).__mro__] else None
        if rank is None:
            nodes = [hx(L.u[m]) for m in range(1, sw.coll.num_nodes + 1)]
        else:
            nodes = {int(rank): hx(L.u[rank + 1])}
        self.recs.append(dict(ev='post', block=self.block[id(step)], slot=step.status.slot, time=L.time, dt=L.dt,
                              iter=step.status.iter, restart=bool(step.status.restart),
                              done=bool(step.status.done), res=float(L.status.residual),
                              uend=hx(L.uend) if L.uend is not None else None, nodes=nodes,
                              dt_new=None if L.status.dt_new is None else float(L.status.dt_new),
                              err_emb=None if L.status.get('error_embedded_estimate') is None else float(L.status.error_embedded_estimate)))


def make_art_classes(cfg):
    """Artificial restart / step-size suggestions (modelled on the test-suite's test_basic_restarting.py)."""
    dt = cfg['dt']
    restarts = cfg.get('art_restarts')
    art_dt = cfg.get('art_dt')
    out = {}
    hooks = []
    if restarts is not None:
        class ArtificialRestarts(ConvergenceController):
            """Requests a restart of the step that starts at one of the listed times (each list entry is used once).
            The bookkeeping is done so that one shared instance (serial) and one instance per rank (MPI) behave alike:
            entries used during a block are collected (over the ranks) and removed when the next block is prepared."""

            def __init__(self, controller, params, description, **kwargs):
                super().__init__(controller, params, description, **kwargs)
                self.restart_times = list(restarts)
                self._used = []

            def _pending(self):
                left = list(self.restart_times)
                for t in self._used:
                    left.remove(t)
                return left

            def determine_restart(self, controller, S, **kwargs):
                super().determine_restart(controller, S, **kwargs)
                if S.status.iter < S.params.maxiter and S.levels[0].status.residual > S.levels[0].params.restol:
                    return None
                left = self._pending()
                hits = [me for me in left if abs(me - S.time) < dt / 10.0]
                if hits:
                    S.status.restart = True
                    self._used.append(hits[0])

            def prepare_next_block(self, controller, S, *args, **kwargs):
                used = self._used
                if 'comm' in kwargs:
                    used = [t for part in kwargs['comm'].allgather(self._used) for t in part]
                for t in used:
                    self.restart_times.remove(t)
                self._used = []

        out[ArtificialRestarts] = {}
    if art_dt is not None:
        maxiter = cfg['maxiter']
        period = int(art_dt)

        class ArtificialAdaptivity(Hooks):
            """stateless step-size suggestion: a function of the step's time and slot only, so that one shared hook
            (serial) and one hook per rank (MPI) behave alike"""

            def post_iteration(self, step, level_number):
                super().post_iteration(step, level_number)
                L0 = step.levels[0]
                if step.status.iter == maxiter or L0.status.residual <= L0.params.restol:
                    k = (int(round(L0.time / dt * 4)) + step.status.slot) % period
                    L0.status.dt_new = dt * (0.75 + 0.25 * k)

        hooks.append(ArtificialAdaptivity)
    return out, hooks


def build(cfg, mpi_sweeper, node_comm=None, useMPI=False):
    """description + controller params for one flavour"""
    problem = cfg['problem']
    nlev = cfg.get('nlev', 1)
    d = {}
    pp = {}
    if problem == 'test0d':
        from pySDC.implementations.problem_classes.TestEquation_0D import testequation0d as pc
        pp = {'lambdas': [[complex(a, b) for a, b in cfg['lambdas']]], 'u0': 1.0}
    elif problem == 'vdp':
        from pySDC.implementations.problem_classes.Van_der_Pol_implicit import vanderpol as pc
        pp = {'mu': cfg.get('mu', 1.0), 'newton_tol': 1e-12, 'newton_maxiter': 50, 'crash_at_maxiter': False}
    elif problem == 'heat':
        from pySDC.implementations.problem_classes.HeatEquation_ND_FD import heatNd_unforced as pc
        pp = {'nvars': cfg['nvars'][0] if nlev == 1 else list(cfg['nvars'][:nlev]), 'nu': cfg.get('nu', 0.1), 'freq': 2,
              'bc': 'periodic', 'solver_type': 'direct'}
    elif problem == 'heat_forced':
        from pySDC.implementations.problem_classes.HeatEquation_ND_FD import heatNd_forced as pc
        pp = {'nvars': cfg['nvars'][0] if nlev == 1 else list(cfg['nvars'][:nlev]), 'nu': cfg.get('nu', 0.1), 'freq': 2,
              'bc': 'periodic', 'solver_type': 'direct'}
    else:
        raise ValueError(problem)
    d['problem_class'] = pc
    d['problem_params'] = pp

    imex = cfg.get('sweeper', 'implicit') == 'imex'
    if mpi_sweeper:
        if imex:
            from pySDC.implementations.sweeper_classes.imex_1st_order_MPI import imex_1st_order_MPI as sc
        else:
            from pySDC.implementations.sweeper_classes.generic_implicit_MPI import generic_implicit_MPI as sc
    else:
        if imex:
            from pySDC.implementations.sweeper_classes.imex_1st_order import imex_1st_order as sc
        else:
            from pySDC.implementations.sweeper_classes.generic_implicit import generic_implicit as sc
    d['sweeper_class'] = sc
    sp = {'quad_type': cfg.get('quad_type', 'RADAU-RIGHT'), 'QI': cfg.get('QI', 'IE'),
          'initial_guess': cfg.get('initial_guess', 'spread')}
    if isinstance(sp['QI'], list):     # level-dependent preconditioner
        sp['QI'] = sp['QI'][0] if nlev == 1 else list(sp['QI'][:nlev])
    if cfg.get('do_coll_update'):
        sp['do_coll_update'] = True
    if imex:
        sp['QE'] = 'PIC' if (mpi_sweeper or cfg.get('kind') in ('node', 'both')) else cfg.get('QE', 'EE')
    npl = cfg.get('nodes_per_level')
    if npl and nlev > 1 and problem in ('test0d', 'vdp'):
        sp['num_nodes'] = list(npl[:nlev])
    else:
        sp['num_nodes'] = cfg.get('M', 3)
    if mpi_sweeper:
        sp['comm'] = node_comm
    d['sweeper_params'] = sp
    lp = {'dt': cfg['dt'], 'restol': cfg.get('restol', 1e-10)}
    if cfg.get('nsweeps'):
        lp['nsweeps'] = cfg['nsweeps'][0] if nlev == 1 else list(cfg['nsweeps'][:nlev])
    if cfg.get('residual_type'):
        lp['residual_type'] = cfg['residual_type']
    d['level_params'] = lp
    d['step_params'] = {'maxiter': cfg.get('maxiter', 10)}
    if nlev > 1:
        if problem in ('test0d', 'vdp'):
            d['space_transfer_class'] = IdentityTransfer
        else:
            from pySDC.implementations.transfer_classes.TransferMesh import mesh_to_mesh
            d['space_transfer_class'] = mesh_to_mesh
            d['space_transfer_params'] = {'rorder': 2, 'iorder': 2, 'periodic': True}
        if mpi_sweeper:
            from pySDC.implementations.transfer_classes.BaseTransferMPI import base_transfer_MPI
            d['base_transfer_class'] = base_transfer_MPI
        if cfg.get('finter'):
            d['base_transfer_params'] = {'finter': True}

    cc = {}
    if cfg.get('adaptivity'):
        from pySDC.implementations.convergence_controller_classes.adaptivity import Adaptivity
        a = dict(cfg['adaptivity'])
        cc[Adaptivity] = a
    if cfg.get('restarting'):
        from pySDC.implementations.convergence_controller_classes.basic_restarting import BasicRestarting
        cc[BasicRestarting.get_implementation(useMPI=useMPI)] = dict(cfg['restarting'])
    if cfg.get('spread'):
        from pySDC.implementations.convergence_controller_classes.spread_step_sizes import SpreadStepSizesBlockwise
        cc[SpreadStepSizesBlockwise.get_implementation(useMPI=useMPI)] = dict(cfg['spread'])
    art, art_hooks = make_art_classes(cfg)
    cc.update(art)
    if cc:
        d['convergence_controllers'] = cc

    cp = {'logger_level': 50, 'hook_class': [Rec] + art_hooks, 'mssdc_jac': bool(cfg.get('mssdc_jac', True)),
          'all_to_done': bool(cfg.get('all_to_done', False))}
    if cfg.get('predict_type') is not None:
        cp['predict_type'] = cfg['predict_type']
    return d, cp


def initial_value(prob, cfg):
    u0 = prob.u_exact(cfg.get('t0', 0.0))
    return u0


def collect(controller, uend, stats, comm=None):
    rec = [h for h in controller.hooks if isinstance(h, Rec)][0]
    out = {'uend': hx(uend), 'recs': rec.recs}
    out['niter'] = [[float(t), int(n)] for t, n in get_sorted(stats, type='niter', sortby='time', comm=comm)]
    try:
        out['restarts'] = [[float(t), int(n)] for t, n in get_sorted(stats, type='restart', sortby='time', comm=comm)]
    except Exception as e:  # noqa
        out['restarts'] = 'ERR ' + type(e).__name__
    return out


def run_serial(cfg):
    d, cp = build(cfg, mpi_sweeper=False, useMPI=False)
    P = cfg.get('P', 1) if cfg['kind'] in ('time', 'both') else 1
    try:
        c = controller_nonMPI(P, cp, d)
        u0 = initial_value(c.MS[0].levels[0].prob, cfg)
        uend, stats = c.run(u0, cfg.get('t0', 0.0), cfg['Tend'])
        out = collect(c, uend, stats)
        out['outcome'] = 'ok'
        return out
    except Exception as e:  # noqa
        import traceback
        return {'outcome': type(e).__name__, 'error': str(e)[:300], 'tb': traceback.format_exc()[-1200:]}


def make_sched(spec):
    kind = spec[0]
    if kind == 'seed':
        return core.SeededScheduler(spec[1], p_eager=spec[2], p_stay=spec[3]), (spec[4] if len(spec) > 4 else 'rank')
    if kind == 'policy':
        return core.PolicyScheduler(spec[1], eager=bool(spec[2])), (spec[3] if len(spec) > 3 else 'rank')
    if kind == 'enum':
        return core.EnumScheduler(spec[1]), (spec[2] if len(spec) > 2 else 'rank')
    raise ValueError(spec)


def run_mpi(cfg, spec, want_log):
    kind = cfg['kind']
    P = cfg.get('P', 1)
    M = cfg.get('M', 3)
    n = {'time': P, 'node': M, 'both': P * M}[kind]
    sched, reduce_order = make_sched(spec)
    w = core.World(n, sched, poison=True, reduce_order=reduce_order, max_events=cfg.get('max_events', 400000))

    def main(rank):
        world = MPI.COMM_WORLD
        if kind == 'time':
            d, cp = build(cfg, mpi_sweeper=False, useMPI=True)
            c = controller_MPI(cp, d, world)
            tcomm = world
        elif kind == 'node':
            d, cp = build(cfg, mpi_sweeper=True, node_comm=world, useMPI=False)
            c = controller_nonMPI(1, cp, d)
            tcomm = None
        else:
            # as in the tutorials / projects: time-major layout, node communicator = consecutive ranks
            tcomm = world.Split(color=world.rank % M, key=world.rank)
            ncomm = world.Split(color=world.rank // M, key=world.rank)
            d, cp = build(cfg, mpi_sweeper=True, node_comm=ncomm, useMPI=True)
            c = controller_MPI(cp, d, tcomm)
        S = c.S if kind != 'node' else c.MS[0]
        u0 = initial_value(S.levels[0].prob, cfg)
        uend, stats = c.run(u0, cfg.get('t0', 0.0), cfg['Tend'])
        out = collect(c, uend, stats, comm=tcomm)
        if kind == 'both':
            out['trank'] = tcomm.rank
            out['nrank'] = ncomm.rank
        return out

    t0 = _time.time()
    res = w.run(main, timeout=cfg.get("run_timeout", 240))
    out = {'ranks': res, 'errors': w.errors, 'abort': w.abort, 'deadlock': w.deadlock, 'findings': w.findings,
           'nevents': len(w.log), 'decisions': getattr(sched, 'decisions', None)}
    wall = _time.time() - t0
    if isinstance(sched, core.EnumScheduler):
        out['trace'] = sched.trace
    nl = normalise_log(w)
    out['skeleton'] = nl['skeleton_hash']
    out['log_summary'] = nl['summary']
    out['wall'] = wall
    if want_log:
        out['log'] = nl
    return out


def digest(out):
    """hash of everything the property compares between schedules (exact).  A run in which some rank raised is
    summarised by the set of exception classes (which rank raises first, and how far the others got, depends
    on the schedule by construction)."""
    import hashlib
    if out['abort'] is not None and out['abort'] != 'deadlock':
        canon = json.dumps({'failed': sorted({e[0] for e in out['errors'] if e and e[0] != 'Aborted'})})
    else:
        canon = json.dumps({'ranks': out['ranks'], 'abort': out['abort'],
                            'findings': sorted({(f['kind'], str(f.get('site')), str(f.get('api'))) for f in out['findings']
                                                if f['kind'] not in SCHEDULE_DEPENDENT_FINDINGS})},
                           sort_keys=True, default=str)
    return hashlib.sha256(canon.encode()).hexdigest()[:20]


# findings whose presence legitimately depends on timing are summarised separately
SCHEDULE_DEPENDENT_FINDINGS = ()


def expand(cfg, spec):
    """generator of concrete schedule specs.
    'enumdfs' explores the first `depth` decisions exhaustively (depth-first, at most `maxruns` runs), feeding back
    the recorded decision trace;  'enumdev' runs the default schedule (always option 0) and then every schedule
    that deviates from it at exactly ONE decision (at most `maxruns`, evenly spread over the decisions)."""
    if spec[0] == 'enumdfs':
        depth, maxruns = spec[1], spec[2]
        vec = []
        for _ in range(maxruns):
            fb = {}
            yield ['enum', vec], fb
            vec = core.EnumScheduler.next_vector(fb.get('trace', []), max_depth=depth)
            if vec is None:
                return
    elif spec[0] == 'enumdev':
        maxruns = spec[1]
        fb = {}
        yield ['enum', []], fb
        trace = fb.get('trace', [])
        devs = [(i, c) for i, (_, n) in enumerate(trace) for c in range(1, n)]
        if len(devs) > maxruns:
            step = len(devs) / float(maxruns)
            devs = [devs[int(k * step)] for k in range(maxruns)]
        for i, c in devs:
            yield ['enum', [0] * i + [c]], {}
    else:
        yield spec, None


def main():
    doc = json.load(sys.stdin)
    real_stdout = sys.stdout
    sys.stdout = io.StringIO()      # pySDC may print
    results = []
    for job in doc['jobs']:
        cfg = job['cfg']
        r = {'serial': run_serial(cfg), 'mpi': []}
        if r['serial'].get('outcome') == 'TooExpensive':
            results.append(r)
            continue
        want = set(job.get('want_logs', []))
        first_digest = None
        for i, spec0 in enumerate(job['schedules']):
            for spec, fb in expand(cfg, spec0):
                try:
                    m = run_mpi(cfg, spec, i in want and fb is None)
                    fbtrace = m.get('trace', [])
                    m['spec'] = spec
                    m['spec_index'] = i
                    if fb is not None:
                        fb['trace'] = m.get('trace', [])
                    m['digest'] = digest(m)
                    if first_digest is None:
                        first_digest = m['digest']
                    elif m['digest'] == first_digest and not job.get('keep_all'):
                        m['ranks'] = None      # identical to the first schedule's results: do not ship again
                    m.pop('trace', None)
                    r['mpi'].append(m)
                except Exception as e:  # noqa  (a crash of the harness itself)
                    import traceback
                    r['mpi'].append({'harness_error': type(e).__name__ + ': ' + str(e), 'tb': traceback.format_exc()[-2000:],
                                     'spec': spec, 'spec_index': i})
        results.append(r)
    sys.stdout = real_stdout
    json.dump({'results': results}, sys.stdout, default=lambda o: o.tolist() if isinstance(o, np.ndarray) else str(o))


if __name__ == '__main__':
    main()
