"""Stand-in for mpi4py.MPI: the subset pySDC uses, implemented by harness.simmpi.core."""
from harness.simmpi.core import (  # noqa
    COMM_WORLD, COMM_NULL, Comm, Intracomm, Request, Status, REQUEST_NULL, Datatype, Op,
    DOUBLE, FLOAT, INT, LONG, BOOL, C_BOOL, DOUBLE_COMPLEX, C_DOUBLE_COMPLEX, COMPLEX, BYTE,
    SUM, PROD, MAX, MIN, LAND, LOR, ANY_SOURCE, ANY_TAG, PROC_NULL, UNDEFINED, IN_PLACE,
)

SIMULATED = True


def Wtime():
    import time
    return time.perf_counter()


def Is_initialized():
    return True


def Is_finalized():
    return False
