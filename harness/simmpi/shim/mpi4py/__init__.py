"""Stand-in for mpi4py backed by harness.simmpi (simulated, deterministic MPI).  NOT the real mpi4py."""
__version__ = '0.0-simmpi'
from . import MPI  # noqa
