"""Normalisation of simmpi event logs into the event alphabet of the Coq model (Model/MPI.v).

EVENT FORMAT (numeric lists; first entry = world rank of the acting rank, second = event code)
  [w, 0, sync, c, dst, tag, v]        ESend sync c dst tag v     post of a send (sync=1: Issend/Ssend), v = hash id of the payload
  [w, 1, c, src, tag]                 ERecv c src tag            post of a receive
  [w, 2, q, pw, pq, v]                EWait q (Some (pw,pq)) v   completion of own request q inside Wait; partner request (world rank,
                                                                 seq); v = hash id of the delivered payload (recv) / of the buffer
                                                                 at completion (send)
  [w, 3, q, v]                        EWait q None v             completion of an eager standard send before it was matched
  [w, 4, q, ok, hasp, pw, pq, v]      ETest ...                  Test (ok=0: not completed)
  [w, 5, c, kc, root, v]              EEnter c kc root v         entering a collective (kc = kind code, see KINDS)
  [w, 6, c, hasv, v]                  EExit c (Some v | None)    leaving it (v only for broadcast-like kinds)
c = communicator id (index into `comms`), dst/src/root = local ranks in c, q = per-rank request number.
Other simulator events (free, done, fail, cancel, deadlock, cmismatch) are kept in `other`.
"""
import hashlib

KINDS = {'barrier': 0, 'bcast': 1, 'Bcast': 2, 'scatter': 3, 'reduce': 4, 'Reduce': 5, 'gather': 6,
         'allreduce': 7, 'Allreduce': 8, 'allgather': 9, 'Allgather': 10, 'split': 11}
BCAST_LIKE = (1, 2, 3)


def normalise_log(world):
    cids = sorted(world.comms.keys(), key=lambda t: (len(t), t))
    cnum = {cid: i for i, cid in enumerate(cids)}
    comms = [list(world.comms[cid].members) for cid in cids]
    vals = {}

    def vid(h):
        if h is None:
            return 0
        if h not in vals:
            vals[h] = len(vals) + 1
        return vals[h]

    events = []
    eager = []
    other = []
    wild = 0
    summary = {}
    per_rank = {}
    for e in world.log:
        k = e[0]
        summary[k] = summary.get(k, 0) + 1
        if k == 'send':
            _, w, seq, cid, me, dest, tag, mode, eg, h, api, partner = e
            ne = [w, 0, 1 if mode == 'sync' else 0, cnum[cid], dest, tag, vid(h)]
            if mode == 'std' and eg:
                eager.append([w, seq])
            sk = ('S', mode, cnum[cid], dest, tag)
        elif k == 'recv':
            _, w, seq, cid, me, source, tag, api, partner, wd = e
            if wd:
                wild += 1
            ne = [w, 1, cnum[cid], source, tag]
            sk = ('R', cnum[cid], source, tag)
        elif k == 'wait':
            _, w, seq, kind, partner, h, modified = e
            if partner is None or kind == 'send':
                ne = [w, 3, seq, vid(h)]
            else:
                ne = [w, 2, seq, partner[0], partner[1], vid(h)]
            sk = ('W', seq)
        elif k == 'test':
            _, w, seq, kind, partner, h, modified = e
            ok = h is not None
            if kind == 'send':
                partner = None
            ne = [w, 4, seq, 1 if ok else 0, 1 if partner else 0, partner[0] if partner else 0, partner[1] if partner else 0, vid(h)]
            sk = ('T', seq)
        elif k == 'center':
            _, w, cid, kk, kind, root, me, h = e
            ne = [w, 5, cnum[cid], KINDS[kind], root if root is not None else 0, vid(h)]
            sk = ('E', cnum[cid], KINDS[kind], root)
        elif k == 'cexit':
            _, w, cid, kk, kind, root, me, h = e
            if KINDS[kind] in BCAST_LIKE:
                ne = [w, 6, cnum[cid], 1, vid(h)]
            else:
                ne = [w, 6, cnum[cid], 0, 0]
            sk = ('X', cnum[cid])
        else:
            other.append([str(x) for x in e])
            continue
        events.append(ne)
        per_rank.setdefault(ne[0], []).append(sk)
    hsk = hashlib.sha256(repr(sorted(per_rank.items())).encode()).hexdigest()[:16]
    summary['wildcard_recvs'] = wild
    return {'n': world.n, 'comms': comms, 'comm_ids': [list(map(list, c)) for c in cids], 'events': events,
            'eager': eager, 'other': other, 'summary': summary, 'skeleton_hash': hsk, 'nvals': len(vals)}


def _ev(e):
    c = e[1]
    if c == 0:
        return 'ESend %s %d %d %d %d%%Z' % ('true' if e[2] else 'false', e[3], e[4], e[5], e[6])
    if c == 1:
        return 'ERecv %d %d %d' % (e[2], e[3], e[4])
    if c == 2:
        return 'EWait %d (Some (%d, %d)) %d%%Z' % (e[2], e[3], e[4], e[5])
    if c == 3:
        return 'EWait %d None %d%%Z' % (e[2], e[3])
    if c == 4:
        return 'ETest %d %s %s %d%%Z' % (e[2], 'true' if e[3] else 'false', '(Some (%d, %d))' % (e[5], e[6]) if e[4] else 'None', e[7])
    if c == 5:
        return 'EEnter %d %d %d %d%%Z' % (e[2], e[3], e[4], e[5])
    if c == 6:
        return 'EExit %d %s' % (e[2], '(Some %d%%Z)' % e[4] if e[3] else 'None')
    raise ValueError(e)


def to_coq(nl, name):
    """Coq definitions  cu_<name>, eager_<name>, raw_<name> (rows of 8 primitive ints, see Model/MPI.v decode_ev)."""
    L = []
    L.append('Definition cu_%s : list (list nat) := [%s].' % (name, '; '.join('[' + '; '.join(map(str, m)) + ']' for m in nl['comms'])))
    L.append('Definition eager_%s : list (nat * nat) := [%s].' % (name, '; '.join('(%d, %d)' % (a, b) for a, b in nl['eager'])))
    L.append('Definition raw_%s : list raw_row := [' % name)
    L.append(';\n'.join('(%s)%%uint63' % ','.join(str(int(x)) for x in (list(e) + [0] * 8)[:8]) for e in nl['events']))
    L.append('].')
    return '\n'.join(L) + '\n'
