"""simmpi — deterministic simulated MPI (see core.py).  The directory `shim/` holds an importable
stand-in `mpi4py` package; put it on sys.path ONLY inside harness subprocesses (SHIM_DIR)."""
import os

SHIM_DIR = os.path.join(os.path.dirname(os.path.abspath(__file__)), 'shim')
