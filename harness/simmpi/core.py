"""simmpi — a deterministic, in-process stand-in for the subset of mpi4py that pySDC's MPI code uses.

Ranks are Python threads, but only ONE runs at any time (baton passing): a rank runs until its next
communication call; there it registers the *action* it wants to perform and hands the baton to the
scheduler, which picks — by a seeded PRNG, a fixed policy, or an enumerated decision vector — one
rank whose pending action is enabled, fires that action atomically and lets that rank run on.
Every MPI call is decomposed into atomic actions that are exactly the transitions of the Coq model
`coq/theories/Model/MPI.v`:

    post-send  (always enabled)      Isend / Issend / isend / issend / first half of Send, send, Ssend, ssend
    post-recv  (always enabled)      Irecv / irecv / first half of Recv, recv
    wait       (enabled iff the request can complete)   Wait / wait / second half of blocking calls
    test       (always enabled; result chosen by the scheduler among the legal ones)  Test / test
    coll-enter (always enabled)      first half of every collective
    coll-exit  (enabled per kind: barrier/allreduce/allgather/split/... need all members; a Bcast root
                and a non-root of Reduce/gather may leave at once; a non-root of Bcast needs the root)

MPI semantics implemented
  * matching: point-to-point, non-overtaking per (communicator, source, destination); a receive is
    matched with the EARLIEST pending send of that source whose tag fits, a send with the EARLIEST
    posted receive that fits; wildcards are supported (scheduler chooses among sources) and flagged.
  * completion: a receive completes once matched; a synchronous send (Issend/Ssend) only once its
    matching receive has been posted; a standard send (Isend/Send/isend/send) either at once ("eager",
    buffered) or like a synchronous one ("rendezvous") — the scheduler decides per send.
  * a receive that completes while its matching send is still incomplete reads the sender's buffer as it is THEN
    (late read), so reuse of a send buffer before completion also shows in the received values;
  * completion is lazy (it happens in Wait/Test of the owner, the latest legal moment): the send buffer
    is hashed when posted and again when the send completes (or at finalisation for requests that are
    never waited for) -> `buffer modified before completion` findings.  A receive buffer is optionally
    poisoned (NaN) between post and completion so that premature reads become visible in the results.
  * collectives: the k-th collective call of every member of a communicator must agree in kind and
    root (else `collective mismatch`), results are functions of the contributions indexed by rank
    (reductions fold in rank order, or in a scheduler-chosen order with `reduce_order='shuffled'`).
  * deadlock: no alive rank has an enabled pending action.  All ranks are then aborted.
  * finalisation: unmatched sends / receives, never-completed requests are reported.

Every action is appended to `World.log` (see EVENT FORMAT in `logfmt.py`).  Request ids are
(world rank, per-rank sequence number) and communicator ids are structural (parent, collective index,
colour), hence independent of the schedule.
"""
import hashlib
import pickle
import random
import threading
import weakref

import numpy as np

__all__ = ['World', 'SimError', 'Deadlock', 'SeededScheduler', 'PolicyScheduler', 'EnumScheduler']


class SimError(Exception):
    """A misuse of MPI detected by the simulator (raised inside the offending rank)."""


class Deadlock(SimError):
    pass


class Aborted(BaseException):
    """Unwinds a rank thread after the world has been aborted (deadlock or failure of another rank)."""


# --------------------------------------------------------------------------- handles: datatypes, ops

class Datatype:
    def __init__(self, name, np_dtype):
        self.name = name
        self.np_dtype = np.dtype(np_dtype) if np_dtype is not None else None

    def __repr__(self):
        return 'MPI.' + self.name


class Op:
    def __init__(self, name, fn):
        self.name = name
        self.fn = fn

    def __repr__(self):
        return 'MPI.' + self.name

    def __call__(self, a, b):
        return self.fn(a, b)


def _land(a, b):
    if isinstance(a, np.ndarray) or isinstance(b, np.ndarray):
        return np.logical_and(a, b)
    return bool(a) and bool(b)


def _lor(a, b):
    if isinstance(a, np.ndarray) or isinstance(b, np.ndarray):
        return np.logical_or(a, b)
    return bool(a) or bool(b)


def _max(a, b):
    if isinstance(a, np.ndarray) or isinstance(b, np.ndarray):
        return np.maximum(a, b)
    return a if a >= b else b


def _min(a, b):
    if isinstance(a, np.ndarray) or isinstance(b, np.ndarray):
        return np.minimum(a, b)
    return a if a <= b else b


DOUBLE = Datatype('DOUBLE', 'd')
FLOAT = Datatype('FLOAT', 'f')
INT = Datatype('INT', 'i')        # NB: C int, 4 bytes — exactly as in mpi4py
LONG = Datatype('LONG', 'l')
BOOL = Datatype('BOOL', '?')
C_BOOL = BOOL
DOUBLE_COMPLEX = Datatype('DOUBLE_COMPLEX', 'D')
C_DOUBLE_COMPLEX = DOUBLE_COMPLEX
COMPLEX = Datatype('COMPLEX', 'F')
BYTE = Datatype('BYTE', 'B')

SUM = Op('SUM', lambda a, b: a + b)
PROD = Op('PROD', lambda a, b: a * b)
MAX = Op('MAX', _max)
MIN = Op('MIN', _min)
LAND = Op('LAND', _land)
LOR = Op('LOR', _lor)

ANY_SOURCE = -2
ANY_TAG = -1
PROC_NULL = -3
UNDEFINED = -32766
IN_PLACE = object()


def _h(data):
    """48-bit hash of a bytes-like object."""
    return int.from_bytes(hashlib.blake2b(data, digest_size=6).digest(), 'big')


def _bufspec(spec):
    """mpi4py buffer specification -> (ndarray referring to the user's memory, Datatype or None)."""
    dt = None
    if isinstance(spec, (list, tuple)):
        if len(spec) == 2:
            spec, dt = spec
        elif len(spec) == 3:
            spec, _count, dt = spec
        else:
            raise SimError('unsupported buffer specification of length %d' % len(spec))
    if not isinstance(spec, np.ndarray):
        raise SimError('buffer must be a numpy array, got %s' % type(spec).__name__)
    arr = spec.view(np.ndarray) if type(spec) is not np.ndarray else spec
    if not arr.flags.c_contiguous:
        raise SimError('buffer is not contiguous')
    return arr, dt


def _check_dt(arr, dt, what):
    """mpi4py sends `nbytes / extent(datatype)` items of the given datatype: a datatype whose item size
    differs from the array's silently reinterprets memory.  The simulator reports that."""
    if dt is not None and dt.np_dtype is not None and dt.np_dtype.itemsize != arr.dtype.itemsize:
        return '%s: datatype %r (itemsize %d) does not fit array dtype %s (itemsize %d)' % (
            what, dt, dt.np_dtype.itemsize, arr.dtype, arr.dtype.itemsize)
    return None


# --------------------------------------------------------------------------- schedulers

class SeededScheduler:
    """Uniformly random choice among enabled ranks; coin flips with given biases."""

    def __init__(self, seed, p_eager=0.5, p_test=0.5, p_stay=0.0):
        self.rng = random.Random(seed)
        self.p_eager = p_eager
        self.p_test = p_test
        self.p_stay = p_stay
        self.last = None
        self.decisions = 0

    def choose(self, enabled):
        self.decisions += 1
        if self.last in enabled and self.p_stay > 0 and self.rng.random() < self.p_stay:
            return self.last
        self.last = enabled[self.rng.randrange(len(enabled))]
        return self.last

    def flip(self, what):
        p = self.p_eager if what == 'eager' else self.p_test
        return self.rng.random() < p

    def shuffle(self, items):
        items = list(items)
        self.rng.shuffle(items)
        return items


class PolicyScheduler:
    """Deterministic extreme policies:
       'low'  : always the lowest enabled rank        'high' : always the highest enabled rank
       'stay' : keep running the same rank until it blocks, then the next higher (cyclically)
       'rr'   : round robin (switch at every communication call)
       eager  : True/False -> all standard sends buffered / all rendezvous"""

    def __init__(self, policy, eager=False, test=True):
        self.policy = policy
        self.eager = eager
        self.test = test
        self.last = -1
        self.decisions = 0

    def choose(self, enabled):
        self.decisions += 1
        p = self.policy
        if p == 'low':
            r = enabled[0]
        elif p == 'high':
            r = enabled[-1]
        elif p == 'stay':
            if self.last in enabled:
                r = self.last
            else:
                later = [e for e in enabled if e > self.last]
                r = later[0] if later else enabled[0]
        elif p == 'stay-down':
            if self.last in enabled:
                r = self.last
            else:
                earlier = [e for e in enabled if e < self.last]
                r = earlier[-1] if earlier else enabled[-1]
        elif p == 'rr':
            later = [e for e in enabled if e > self.last]
            r = later[0] if later else enabled[0]
        else:
            raise ValueError(p)
        self.last = r
        return r

    def flip(self, what):
        return self.eager if what == 'eager' else self.test

    def shuffle(self, items):
        return list(reversed(list(items)))


class EnumScheduler:
    """Follows a decision vector (indices into the sorted list of enabled ranks / 0-1 for flips), then
    always takes option 0.  Records (choice, number of options) per decision so that a driver can
    enumerate the tree depth-first (`next_vector`)."""

    def __init__(self, vector=()):
        self.vector = list(vector)
        self.trace = []     # (choice, noptions)
        self.decisions = 0

    def _pick(self, n):
        i = len(self.trace)
        c = self.vector[i] if i < len(self.vector) else 0
        if c >= n:
            c = n - 1
        self.trace.append((c, n))
        return c

    def choose(self, enabled):
        self.decisions += 1
        if len(enabled) == 1:
            return enabled[0]
        return enabled[self._pick(len(enabled))]

    def flip(self, what):
        return bool(self._pick(2))

    def shuffle(self, items):
        return list(items)

    @staticmethod
    def next_vector(trace, max_depth=None):
        """Next decision vector in depth-first order, or None when the tree is exhausted.  Only the
        first `max_depth` decisions are varied."""
        t = list(trace if max_depth is None else trace[:max_depth])
        while t:
            c, n = t[-1]
            if c + 1 < n:
                t[-1] = (c + 1, n)
                return [x for x, _ in t]
            t.pop()
        return None


# --------------------------------------------------------------------------- requests

_WRAPPERS = {('core.py', None), ('mesh.py', 'isend'), ('mesh.py', 'irecv'), ('convergence_controller.py', 'Send'),
             ('convergence_controller.py', 'Recv'), ('convergence_controller.py', 'send'), ('convergence_controller.py', 'recv')}


_STAT_FLAGS = ('add_to_stats',)     # arguments that only steer statistics


def _call_site(depth=2, flags=False):
    """'<file>:<function>' of the innermost frame outside the simulator and outside pySDC's thin send/recv wrappers;
    with flags=True: '<function>(<bool arguments>)' of that frame, e.g. 'send_full(blocking=True)'."""
    import os
    import sys
    f = sys._getframe(depth)
    while f is not None:
        fn = os.path.basename(f.f_code.co_filename)
        name = f.f_code.co_name
        if (fn, None) in _WRAPPERS or (fn, name) in _WRAPPERS:
            f = f.f_back
            continue
        if flags:
            co = f.f_code
            args = co.co_varnames[:co.co_argcount + co.co_kwonlyargcount]
            fl = ['%s=%s' % (a, f.f_locals[a]) for a in args if isinstance(f.f_locals.get(a), bool) and a not in _STAT_FLAGS]
            return '%s(%s)' % (name, ','.join(sorted(fl)))
        return '%s:%s' % (fn, name)
    return '?'


class _ReqState:
    """Everything the world knows about a point-to-point request.  It refers to the user's buffer and to the
    user's handle only weakly: as in mpi4py it is the HANDLE that keeps the buffer alive, so dropping the
    handle of an incomplete operation releases the buffer while (in real MPI) the library may still read or
    write it.  The simulator records that (`dropped`, `completable_at_drop`)."""

    def __init__(self, world, kind, mode, comm, owner, peer, tag, arr, payload, lower, api):
        self.world = world
        self.kind = kind            # 'send' | 'recv'
        self.mode = mode            # 'sync' | 'std' | None (recv)
        self.comm = comm            # CommState
        self.cid = comm.cid
        self.owner = owner          # local rank in comm of the poster
        self.owner_w = comm.members[owner]
        self.peer = peer            # local rank of dest / source (may be ANY_SOURCE)
        self.tag = tag
        self.arr_ref = weakref.ref(arr) if arr is not None else None
        self.has_arr = arr is not None
        self.payload = payload      # bytes snapshot taken when the send was posted
        self.lower = lower          # pickle-based API
        self.api = api
        self.eager = None
        self.partner = None         # _ReqState
        self.completed = False
        self.cancelled = False
        self.post_hash = _h(payload) if payload is not None else None
        self.seq = None
        self.dropped = False
        self.completable_at_drop = None
        self.modified_at_drop = False
        self.dropped_in = None
        self.dropped_by = None
        self.site = _call_site()
        self.posted_by = _call_site(flags=True)

    @property
    def matched(self):
        return self.partner is not None

    def completable(self):
        if self.completed or self.cancelled:
            return True
        if self.kind == 'recv':
            return self.partner is not None
        if self.mode == 'sync' or not self.eager:
            return self.partner is not None
        return True


class Request:
    """Request handle (what mpi4py returns).  Holds the buffer strongly, like mpi4py's Request.ob_buf."""

    def __init__(self, st, arr):
        self.st = st
        self.arr = arr
        self.result = None          # unpickled object of a completed lower-case receive

    def __del__(self):
        try:
            st = self.st
            if not st.completed and not st.cancelled and st.seq is not None and not st.dropped:
                st.dropped = True
                st.completable_at_drop = st.completable()
                st.dropped_in = _call_site(1)
                st.dropped_by = _call_site(1, flags=True)
                if st.kind == 'send' and self.arr is not None:
                    # last moment at which the buffer can be observed through this handle
                    st.modified_at_drop = _h(self.arr.tobytes()) != st.post_hash
        except Exception:  # noqa
            pass

    # -- mpi4py API
    def Wait(self, status=None):
        self.st.world._wait(self)
        if status is not None and self.st.kind == 'recv':
            status._set(self.st)
        return True

    def wait(self, status=None):
        self.Wait(status)
        return self.result

    def Test(self, status=None):
        return self.st.world._test(self)

    def test(self, status=None):
        flag = self.st.world._test(self)
        return (flag, self.result if flag else None)

    def Cancel(self):
        self.st.world._cancel(self)

    def Free(self):
        pass

    def __eq__(self, other):
        return self is other

    def __ne__(self, other):
        return self is not other

    def __hash__(self):
        return id(self)

    @staticmethod
    def Waitall(requests, statuses=None):
        for r in requests:
            if r is not None:
                r.Wait()
        return True

    @staticmethod
    def waitall(requests, statuses=None):
        return [r.wait() for r in requests]


class _NullRequest:
    def Wait(self, status=None):
        return True

    def Test(self, status=None):
        return True

    wait = Wait
    test = Test

    def Cancel(self):
        pass


REQUEST_NULL = _NullRequest()


class Status:
    def __init__(self):
        self.source = None
        self.tag = None
        self.count = None

    def _set(self, st):
        self.source = st.partner.owner
        self.tag = st.partner.tag

    def Get_source(self):
        return self.source

    def Get_tag(self):
        return self.tag


# --------------------------------------------------------------------------- communicators

class CommState:
    """State of one communicator shared by its members."""

    def __init__(self, world, cid, members):
        self.world = world
        self.cid = cid                      # structural id: () for the world, else parent + (k, colour)
        self.members = list(members)        # world ranks in local-rank order
        self.index = {w: i for i, w in enumerate(self.members)}
        self.pending_sends = {}             # dst -> [Request] unmatched, in post order
        self.posted_recvs = {}              # dst -> [Request] unmatched, in post order
        self.coll_seq = [0] * len(members)  # collectives entered per local rank
        self.coll_out = [0] * len(members)  # collectives left per local rank
        self.instances = []                 # per collective index: dict
        self.freed = set()


class Comm:
    """Communicator handle.  The same handle object may be shared by all member threads: the calling
    rank is looked up from the running thread."""

    def __init__(self, state):
        self._s = state

    # -- identity
    def _me(self):
        w = self._s.world._current()
        try:
            return self._s.index[w]
        except KeyError:
            raise SimError('world rank %d uses communicator %r it is not a member of' % (w, self._s.cid))

    @property
    def rank(self):
        return self._me()

    @property
    def size(self):
        return len(self._s.members)

    def Get_rank(self):
        return self._me()

    def Get_size(self):
        return len(self._s.members)

    def Free(self):
        self._s.world._free(self._s, self._me())

    def Dup(self):
        return self.Split(0, self._me())

    def Clone(self):
        return self.Dup()

    # -- point to point
    def Isend(self, buf, dest, tag=0):
        return self._s.world._post_send(self._s, self._me(), buf, dest, tag, 'std', False, 'Isend')

    def Issend(self, buf, dest, tag=0):
        return self._s.world._post_send(self._s, self._me(), buf, dest, tag, 'sync', False, 'Issend')

    def Send(self, buf, dest, tag=0):
        self._s.world._post_send(self._s, self._me(), buf, dest, tag, 'std', False, 'Send').Wait()

    def Ssend(self, buf, dest, tag=0):
        self._s.world._post_send(self._s, self._me(), buf, dest, tag, 'sync', False, 'Ssend').Wait()

    def Irecv(self, buf, source=ANY_SOURCE, tag=ANY_TAG):
        return self._s.world._post_recv(self._s, self._me(), buf, source, tag, False, 'Irecv')

    def Recv(self, buf, source=ANY_SOURCE, tag=ANY_TAG, status=None):
        self._s.world._post_recv(self._s, self._me(), buf, source, tag, False, 'Recv').Wait(status)

    def isend(self, obj, dest, tag=0):
        return self._s.world._post_send(self._s, self._me(), obj, dest, tag, 'std', True, 'isend')

    def issend(self, obj, dest, tag=0):
        return self._s.world._post_send(self._s, self._me(), obj, dest, tag, 'sync', True, 'issend')

    def send(self, obj, dest, tag=0):
        self._s.world._post_send(self._s, self._me(), obj, dest, tag, 'std', True, 'send').Wait()

    def ssend(self, obj, dest, tag=0):
        self._s.world._post_send(self._s, self._me(), obj, dest, tag, 'sync', True, 'ssend').Wait()

    def irecv(self, buf=None, source=ANY_SOURCE, tag=ANY_TAG):
        return self._s.world._post_recv(self._s, self._me(), None, source, tag, True, 'irecv')

    def recv(self, buf=None, source=ANY_SOURCE, tag=ANY_TAG, status=None):
        return self._s.world._post_recv(self._s, self._me(), None, source, tag, True, 'recv').wait(status)

    # -- collectives (object based)
    def barrier(self):
        self._s.world._collective(self._s, self._me(), 'barrier', None, None)

    Barrier = barrier

    def bcast(self, obj=None, root=0):
        me = self._me()
        data = pickle.dumps(obj, protocol=4) if me == root else None
        return pickle.loads(self._s.world._collective(self._s, me, 'bcast', root, data))

    def allgather(self, sendobj):
        res = self._s.world._collective(self._s, self._me(), 'allgather', None, pickle.dumps(sendobj, protocol=4))
        return [pickle.loads(x) for x in res]

    def gather(self, sendobj, root=0):
        res = self._s.world._collective(self._s, self._me(), 'gather', root, pickle.dumps(sendobj, protocol=4))
        return None if res is None else [pickle.loads(x) for x in res]

    def scatter(self, sendobj=None, root=0):
        me = self._me()
        data = pickle.dumps(list(sendobj), protocol=4) if me == root else None
        res = self._s.world._collective(self._s, me, 'scatter', root, data)
        return pickle.loads(res)[me]

    def allreduce(self, sendobj, op=SUM):
        res = self._s.world._collective(self._s, self._me(), 'allreduce', None,
                                        pickle.dumps(sendobj, protocol=4), op=op)
        return res

    def reduce(self, sendobj, op=SUM, root=0):
        return self._s.world._collective(self._s, self._me(), 'reduce', root,
                                         pickle.dumps(sendobj, protocol=4), op=op)

    # -- collectives (buffer based)
    def Bcast(self, buf, root=0):
        me = self._me()
        arr, dt = _bufspec(buf)
        self._s.world._dtcheck(arr, dt, 'Bcast')
        data = arr.tobytes() if me == root else None
        res = self._s.world._collective(self._s, me, 'Bcast', root, data, count=arr.nbytes)
        if me != root:
            self._s.world._fill(arr, res, 'Bcast')

    def Reduce(self, sendbuf, recvbuf, op=SUM, root=0):
        me = self._me()
        if sendbuf is IN_PLACE:
            sarr, sdt = _bufspec(recvbuf)
        else:
            sarr, sdt = _bufspec(sendbuf)
        self._s.world._dtcheck(sarr, sdt, 'Reduce')
        res = self._s.world._collective(self._s, me, 'Reduce', root, np.array(sarr, copy=True), op=op,
                                        count=sarr.nbytes)
        if me == root:
            if recvbuf is None:
                raise SimError('Reduce: root %d passed recvbuf=None' % root)
            rarr, rdt = _bufspec(recvbuf)
            self._s.world._fill(rarr, res, 'Reduce')

    def Allreduce(self, sendbuf, recvbuf, op=SUM):
        me = self._me()
        if sendbuf is IN_PLACE:
            sarr, sdt = _bufspec(recvbuf)
        else:
            sarr, sdt = _bufspec(sendbuf)
        self._s.world._dtcheck(sarr, sdt, 'Allreduce')
        res = self._s.world._collective(self._s, me, 'Allreduce', None, np.array(sarr, copy=True), op=op,
                                        count=sarr.nbytes)
        rarr, rdt = _bufspec(recvbuf)
        self._s.world._fill(rarr, res, 'Allreduce')

    def Allgather(self, sendbuf, recvbuf):
        me = self._me()
        sarr, sdt = _bufspec(sendbuf)
        res = self._s.world._collective(self._s, me, 'Allgather', None, sarr.tobytes(), count=sarr.nbytes)
        rarr, rdt = _bufspec(recvbuf)
        self._s.world._fill(rarr, b''.join(res), 'Allgather')

    def Ibcast(self, buf, root=0):
        raise NotImplementedError('simmpi: Ibcast (interrupt-based iteration estimator) is outside the supported subset')

    def Iprobe(self, *a, **k):
        raise NotImplementedError('simmpi: Iprobe is outside the supported subset')

    # -- communicator management
    def Split(self, color=0, key=0):
        me = self._me()
        res = self._s.world._collective(self._s, me, 'split', None, (int(color), int(key)))
        return res


class Intracomm(Comm):
    pass


class _WorldComm(Intracomm):
    """MPI.COMM_WORLD: resolves to the world of the calling thread."""

    def __init__(self):
        pass

    @property
    def _s(self):
        w = _active_world()
        return w.world_state


# --------------------------------------------------------------------------- the world

_tls = threading.local()
_active = [None]


def _active_world():
    w = getattr(_tls, 'world', None) or _active[0]
    if w is None:
        raise SimError('no simulated MPI world is running (mpi4py stand-in used outside simmpi.World.run)')
    return w


class _Action:
    __slots__ = ('enabled', 'fire', 'desc')

    def __init__(self, enabled, fire, desc):
        self.enabled = enabled
        self.fire = fire
        self.desc = desc


class World:
    def __init__(self, nranks, scheduler, poison=True, reduce_order='rank', max_events=2_000_000, late_read=True):
        self.late_read = late_read
        self.n = nranks
        self.sched = scheduler
        self.poison = poison
        self.reduce_order = reduce_order
        self.max_events = max_events
        self.log = []
        self.findings = []          # dicts: kind, ... (misuse that does not stop the run)
        self.world_state = CommState(self, (), range(nranks))
        self.comms = {(): self.world_state}
        self.seq = [0] * nranks     # per-rank request counter
        self.requests = []          # all requests, for finalisation
        self.pending = [None] * nranks
        self.alive = [False] * nranks
        self.sems = [threading.Semaphore(0) for _ in range(nranks)]
        self.main_sem = threading.Semaphore(0)
        self.abort = None           # reason string
        self.results = [None] * nranks
        self.errors = [None] * nranks
        self.deadlock = None
        self.yields = 0

    # -- thread identity
    def _current(self):
        r = getattr(_tls, 'rank', None)
        if r is None or getattr(_tls, 'world', None) is not self:
            raise SimError('MPI call from a thread that is not a rank of the running world')
        return r

    # -- running
    def run(self, fn, timeout=None):
        """Run fn(rank) on every rank; returns list of per-rank results (None for failed ranks)."""
        _active[0] = self
        threads = []
        for r in range(self.n):
            t = threading.Thread(target=self._thread_main, args=(r, fn), name='rank%d' % r, daemon=True)
            threads.append(t)
        self.alive = [True] * self.n
        # every rank starts with a pseudo action 'start' so that the scheduler also decides who begins
        for r in range(self.n):
            self.pending[r] = _Action(lambda: True, lambda: None, ('start', r))
        for t in threads:
            t.start()
        self._schedule_from(None)
        if not self.main_sem.acquire(timeout=timeout if timeout else 300):
            # a rank computes forever without communicating (runaway): give up on this world
            self.abort = 'timeout'
            self._release_all(None)
        for t in threads:
            t.join(timeout=5)
        _active[0] = None
        self._finalise()
        return self.results

    def _thread_main(self, rank, fn):
        _tls.rank = rank
        _tls.world = self
        try:
            self.sems[rank].acquire()
            if self.abort:
                raise Aborted()
            self.results[rank] = fn(rank)
            self.log.append(('done', rank))
        except Aborted:
            self.errors[rank] = self.errors[rank] or ('Aborted', self.abort)
        except BaseException as e:  # noqa
            import traceback
            self.errors[rank] = (type(e).__name__, str(e)[:500], traceback.format_exc()[-1500:])
            self.log.append(('fail', rank))
            if not self.abort:
                self.abort = 'rank %d raised %s' % (rank, type(e).__name__)
        finally:
            self.alive[rank] = False
            self.pending[rank] = None
            _tls.world = None
            self._schedule_from(rank, finished=True)

    def _schedule_from(self, rank, finished=False):
        """Pick the next rank to run and hand over the baton.  Called by the thread holding the baton.
        Returns True iff the caller itself was chosen."""
        if self.abort:
            self._release_all(rank)
            return False
        alive = [r for r in range(self.n) if self.alive[r]]
        if not alive:
            self.main_sem.release()
            return False
        enabled = [r for r in alive if self.pending[r] is not None and self.pending[r].enabled()]
        if not enabled:
            self.deadlock = {'blocked': {r: self.pending[r].desc for r in alive}}
            self.abort = 'deadlock'
            self.log.append(('deadlock',) + tuple(alive))
            self._release_all(rank)
            return False
        nxt = self.sched.choose(enabled)
        if nxt == rank and not finished:
            return True
        self.sems[nxt].release()
        return False

    def _release_all(self, rank):
        # wake everybody (they will raise Aborted); the last one to finish releases main
        waiting = [r for r in range(self.n) if self.alive[r] and r != rank]
        if not waiting and (rank is None or not self.alive[rank]):
            self.main_sem.release()
            return
        if getattr(self, '_released', False):
            # someone else already woke all; if I am the last alive, release main
            if not any(self.alive):
                self.main_sem.release()
            return
        self._released = True
        for r in waiting:
            self.sems[r].release()
        if not any(self.alive):
            self.main_sem.release()

    def _yield(self, rank, enabled, fire, desc):
        """The calling rank wants to perform an action: hand the baton to the scheduler, continue when
        chosen, perform the action."""
        self.yields += 1
        if self.abort:
            raise Aborted()
        if len(self.log) > self.max_events:
            self.abort = 'event limit'
            raise SimError('event limit exceeded (runaway run)')
        self.pending[rank] = _Action(enabled, fire, desc)
        mine = self._schedule_from(rank)
        if not mine:
            if self.abort:
                raise Aborted()
            self.sems[rank].acquire()
            if self.abort:
                raise Aborted()
        self.pending[rank] = None
        return fire()

    # -- findings
    def _finding(self, kind, **kw):
        d = dict(kind=kind, **kw)
        self.findings.append(d)

    def _dtcheck(self, arr, dt, what):
        msg = _check_dt(arr, dt, what)
        if msg:
            self._finding('datatype-mismatch', rank=self._current(), detail=msg)

    def _fill(self, arr, data, what):
        """Write received data (bytes or ndarray) into the user's array."""
        if isinstance(data, np.ndarray):
            src = data
            if src.size != arr.size:
                raise SimError('%s: receive buffer has %d items, message has %d' % (what, arr.size, src.size))
            arr[...] = src.reshape(arr.shape)
            return
        if len(data) != arr.nbytes:
            if len(data) > arr.nbytes:
                raise SimError('%s: message truncated (%d bytes into a buffer of %d)' % (what, len(data), arr.nbytes))
            self._finding('short-message', rank=self._current(), detail='%s: %d bytes into buffer of %d' % (what, len(data), arr.nbytes))
            flat = arr.reshape(-1).view(np.uint8)
            flat[:len(data)] = np.frombuffer(data, dtype=np.uint8)
            return
        arr.reshape(-1).view(np.uint8)[:] = np.frombuffer(data, dtype=np.uint8)

    # -- point to point
    def _post_send(self, cs, me, buf, dest, tag, mode, lower, api):
        if lower:
            payload = pickle.dumps(buf, protocol=4)
            arr = None
        else:
            arr, dt = _bufspec(buf)
            self._dtcheck(arr, dt, api)
            payload = arr.tobytes()
        dest = int(dest)
        tag = None if tag is None else int(tag)
        if not (0 <= dest < len(cs.members)):
            raise SimError('%s: invalid destination rank %r in communicator of size %d' % (api, dest, len(cs.members)))
        if tag is None or tag < 0:
            raise SimError('%s: invalid tag %r' % (api, tag))
        w = cs.members[me]
        st = _ReqState(self, 'send', mode, cs, me, dest, tag, arr, payload, lower, api)

        def fire():
            if mode == 'std':
                st.eager = bool(self.sched.flip('eager'))
            st.seq = self.seq[w]
            self.seq[w] += 1
            self.requests.append(st)
            # match with the earliest posted receive at dest that fits
            lst = cs.posted_recvs.get(dest, [])
            for i, r in enumerate(lst):
                if (r.peer == ANY_SOURCE or r.peer == me) and (r.tag == ANY_TAG or r.tag == tag):
                    del lst[i]
                    r.partner = st
                    st.partner = r
                    break
            else:
                cs.pending_sends.setdefault(dest, []).append(st)
            self.log.append(('send', w, st.seq, cs.cid, me, dest, tag, mode, st.eager, st.post_hash, api,
                             (st.partner.owner_w, st.partner.seq) if st.partner else None))

        self._yield(w, lambda: True, fire, ('post-send', api, cs.cid, dest, tag))
        return Request(st, arr)

    def _post_recv(self, cs, me, buf, source, tag, lower, api):
        if lower:
            arr = None
        else:
            arr, dt = _bufspec(buf)
            self._dtcheck(arr, dt, api)
        source = int(source)
        tag = None if tag is None else int(tag)
        if source != ANY_SOURCE and not (0 <= source < len(cs.members)):
            raise SimError('%s: invalid source rank %r in communicator of size %d' % (api, source, len(cs.members)))
        if tag is None:
            raise SimError('%s: invalid tag None' % api)
        w = cs.members[me]
        st = _ReqState(self, 'recv', None, cs, me, source, tag, arr, None, lower, api)

        def fire():
            st.seq = self.seq[w]
            self.seq[w] += 1
            self.requests.append(st)
            lst = cs.pending_sends.get(me, [])
            cands = []
            seen_src = set()
            for i, s in enumerate(lst):
                if s.owner in seen_src:
                    continue
                if (source == ANY_SOURCE or s.owner == source) and (tag == ANY_TAG or s.tag == tag):
                    cands.append(i)
                    seen_src.add(s.owner)
                elif source == ANY_SOURCE or s.owner == source:
                    pass    # an earlier message of that source with a non-fitting tag does not block later ones
            if cands:
                i = cands[0] if len(cands) == 1 else self.sched.shuffle(cands)[0]
                s = lst.pop(i)
                s.partner = st
                st.partner = s
            else:
                cs.posted_recvs.setdefault(me, []).append(st)
            if arr is not None and self.poison and arr.dtype.kind in 'fc' and arr.size > 0:
                arr[...] = np.nan
            self.log.append(('recv', w, st.seq, cs.cid, me, source, tag, api,
                             (st.partner.owner_w, st.partner.seq) if st.partner else None,
                             source == ANY_SOURCE or tag == ANY_TAG))

        self._yield(w, lambda: True, fire, ('post-recv', api, cs.cid, source, tag))
        return Request(st, arr)

    def _complete(self, req, how):
        """Complete a completable request (called by its owner while holding the baton)."""
        st = req.st
        if st.completed or st.cancelled:
            return
        st.completed = True
        w = st.owner_w
        if st.kind == 'send':
            modified = False
            now = st.post_hash
            if req.arr is not None:
                now = _h(req.arr.tobytes())
                if now != st.post_hash:
                    modified = True
                    self._finding('send-buffer-modified', rank=w, seq=st.seq, comm=st.cid, peer=st.peer, tag=st.tag,
                                  api=st.api, mode=st.mode, site=st.site,
                                  detail='buffer of a non-blocking send changed between post and completion')
            self.log.append((how, w, st.seq, 'send', (st.partner.owner_w, st.partner.seq) if st.partner else None,
                             now, modified))
        else:
            s = st.partner
            if st.lower:
                if not s.lower:
                    raise SimError('recv (pickle) matched a buffer send')
                req.result = pickle.loads(s.payload)
            else:
                if s.lower:
                    raise SimError('Recv (buffer) matched a pickle send')
                data = s.payload
                if self.late_read and not s.completed and s.arr_ref is not None:
                    # the data of an incomplete send may be read from the sender's buffer as late as now
                    a = s.arr_ref()
                    if a is not None:
                        data = a.tobytes()
                self._fill(req.arr, data, 'Recv')
                self.log.append((how, w, st.seq, 'recv', (s.owner_w, s.seq), _h(data), False))
                return
            self.log.append((how, w, st.seq, 'recv', (s.owner_w, s.seq), s.post_hash, False))

    def _wait(self, req):
        st = req.st
        if st.completed or st.cancelled:
            # waiting again for a completed request is a no-op in MPI (inactive request)
            return
        w = self._current()
        if w != st.owner_w:
            raise SimError('rank %d waits for a request of rank %d' % (w, st.owner_w))
        self._yield(w, st.completable, lambda: self._complete(req, 'wait'),
                    ('wait', st.kind, st.cid, st.peer, st.tag, st.seq))

    def _test(self, req):
        st = req.st
        if st.completed or st.cancelled:
            return True
        w = self._current()

        def fire():
            ok = st.completable() and bool(self.sched.flip('test'))
            if ok:
                self._complete(req, 'test')
            else:
                self.log.append(('test', w, st.seq, st.kind, None, None, False))
            return ok

        return self._yield(w, lambda: True, fire, ('test', st.kind, st.cid, st.peer, st.tag, st.seq))

    def _cancel(self, req):
        st = req.st
        if st.completed:
            return
        if st.partner is None:
            cs = st.comm
            lst = (cs.pending_sends.get(st.peer, []) if st.kind == 'send' else cs.posted_recvs.get(st.owner, []))
            if st in lst:
                lst.remove(st)
            st.cancelled = True
            self.log.append(('cancel', st.owner_w, st.seq))
        # a matched request cannot be cancelled any more

    def _free(self, cs, me):
        cs.freed.add(me)
        w = cs.members[me]
        self.log.append(('free', w, cs.cid))

    # -- collectives
    def _collective(self, cs, me, kind, root, data, op=None, count=None):
        w = cs.members[me]
        n = len(cs.members)
        if root is not None:
            root = int(root)
        if root is not None and not (0 <= root < n):
            raise SimError('%s: invalid root %r in communicator of size %d' % (kind, root, n))
        if me in cs.freed:
            raise SimError('%s on a freed communicator' % kind)
        k = cs.coll_seq[me]
        site = _call_site()

        def enter():
            cs.coll_seq[me] = k + 1
            while len(cs.instances) <= k:
                cs.instances.append(None)
            inst = cs.instances[k]
            if inst is None:
                inst = cs.instances[k] = dict(kind=kind, root=root, op=op, count=count, contrib={}, out=set(), result=None,
                                              site=site)
            elif inst['kind'] != kind or inst['root'] != root or (op is not None and inst['op'] is not op) or \
                    (count is not None and inst['count'] is not None and inst['count'] != count):
                self.log.append(('cmismatch', w, cs.cid, k, kind, root))
                raise SimError('collective mismatch on communicator %r, call #%d: rank %d calls %s(root=%r, op=%r, bytes=%r) '
                               'but another member called %s(root=%r, op=%r, bytes=%r) [calls: %s] [sites: %s]'
                               % (cs.cid, k, me, kind, root, op, count, inst['kind'], inst['root'], inst['op'], inst['count'],
                                  '/'.join(sorted([kind, inst['kind']])), ' | '.join(sorted([site, inst['site']]))))
            inst['contrib'][me] = data
            self.log.append(('center', w, cs.cid, k, kind, root, me, self._chash(data)))

        self._yield(w, lambda: True, enter, ('coll-enter', kind, cs.cid, k, root))
        inst = cs.instances[k]

        def can_leave():
            c = inst['contrib']
            if kind == 'Bcast' or kind == 'bcast' or kind == 'scatter':
                return me == root or root in c
            if kind in ('Reduce', 'reduce', 'gather'):
                return me != root or len(c) == n
            return len(c) == n

        def leave():
            res = self._coll_result(cs, inst, kind, root, me, n)
            inst['out'].add(me)
            cs.coll_out[me] = k + 1
            self.log.append(('cexit', w, cs.cid, k, kind, root, me, self._chash_res(res)))
            if len(inst['out']) == n:
                inst['contrib'] = None   # free memory
            return res

        return self._yield(w, can_leave, leave, ('coll-exit', kind, cs.cid, k, root))

    def _fold(self, inst, n, fn, conv):
        order = list(range(n))
        if self.reduce_order == 'shuffled':
            order = self.sched.shuffle(order)
        elif self.reduce_order == 'reversed':
            order.reverse()
        acc = conv(inst['contrib'][order[0]])
        for r in order[1:]:
            acc = fn(acc, conv(inst['contrib'][r]))
        return acc

    def _coll_result(self, cs, inst, kind, root, me, n):
        c = inst['contrib']
        if kind == 'barrier':
            return None
        if kind in ('Bcast', 'bcast', 'scatter'):
            return c[root]
        if kind in ('allgather', 'Allgather'):
            return [c[r] for r in range(n)]
        if kind == 'gather':
            return [c[r] for r in range(n)] if me == root else None
        if kind in ('Reduce', 'Allreduce'):
            if kind == 'Reduce' and me != root:
                return None
            if inst['result'] is None:
                inst['result'] = self._fold(inst, n, inst['op'].fn, lambda a: a)
            return inst['result']
        if kind in ('reduce', 'allreduce'):
            if kind == 'reduce' and me != root:
                return None
            if inst['result'] is None:
                inst['result'] = (self._fold(inst, n, inst['op'].fn, pickle.loads),)
            return inst['result'][0]
        if kind == 'split':
            if inst['result'] is None:
                groups = {}
                for r in range(n):
                    col, key = c[r]
                    groups.setdefault(col, []).append((key, r))
                res = {}
                for col, lst in groups.items():
                    if col == UNDEFINED:
                        continue
                    lst.sort()
                    members = [cs.members[r] for _, r in lst]
                    cid = cs.cid + ((inst_index(cs, inst), col),)
                    st = CommState(self, cid, members)
                    self.comms[cid] = st
                    res[col] = st
                inst['result'] = res
            col = c[me][0]
            if col == UNDEFINED:
                return COMM_NULL
            return Intracomm(inst['result'][col])
        raise SimError('unknown collective %s' % kind)

    @staticmethod
    def _chash(data):
        if data is None:
            return None
        if isinstance(data, np.ndarray):
            return _h(data.tobytes())
        if isinstance(data, bytes):
            return _h(data)
        return _h(repr(data).encode())

    @staticmethod
    def _chash_res(res):
        if res is None:
            return None
        if isinstance(res, np.ndarray):
            return _h(res.tobytes())
        if isinstance(res, bytes):
            return _h(res)
        if isinstance(res, list):
            return _h(b'|'.join(x if isinstance(x, bytes) else repr(x).encode() for x in res))
        if isinstance(res, Comm):
            return _h(repr((res._s.cid, res._s.members)).encode())
        return _h(pickle.dumps(res, protocol=4))

    # -- finalisation
    def _finalise(self):
        """Checks at MPI_Finalize time (only meaningful for runs that were not aborted)."""
        import gc
        gc.collect()
        aborted = self.abort is not None
        for st in self.requests:
            if st.cancelled or aborted:
                continue
            base = dict(rank=st.owner_w, seq=st.seq, comm=st.cid, peer=st.peer, tag=st.tag, mode=st.mode, api=st.api, site=st.site)
            if st.kind == 'send':
                if not st.matched:
                    self._finding('unmatched-send', **base)
                if not st.completed:
                    freed = st.arr_ref is not None and st.arr_ref() is None
                    self._finding('send-never-completed', matched=st.matched, handle_dropped=st.dropped,
                                  completable_at_drop=st.completable_at_drop, buffer_freed=freed,
                                  dropped_in=st.dropped_in, dropped_by=st.dropped_by, posted_by=st.posted_by, **base)
                    arr = st.arr_ref() if st.arr_ref is not None else None
                    if st.modified_at_drop or (arr is not None and _h(arr.tobytes()) != st.post_hash):
                        self._finding('send-buffer-modified', detail='buffer of a never-completed non-blocking send changed after the post', **base)
            else:
                if not st.matched:
                    self._finding('unmatched-recv', **base)
                elif not st.completed:
                    self._finding('recv-never-completed', handle_dropped=st.dropped, **base)
        if not aborted:
            for cid, cs in self.comms.items():
                if len(set(cs.coll_seq)) > 1:
                    self._finding('collective-count-mismatch', comm=cid, counts=list(cs.coll_seq))


def inst_index(cs, inst):
    for i, x in enumerate(cs.instances):
        if x is inst:
            return i
    raise SimError('internal: collective instance not found')


class _NullComm:
    def __bool__(self):
        return False


COMM_NULL = _NullComm()
COMM_WORLD = _WorldComm()
COMM_SELF = None  # not supported
