"""C13 run-level clause: configurations (sweeper x controller x problem) and the monitors.

Used by harness/props/c13.py.  Everything here observes the REAL pySDC run; there is no model.
"""
import contextlib
import hashlib
import warnings

import numpy as np


def snap(o):
    """content snapshot of a solution object (mesh-like, particles, fields)"""
    if isinstance(o, np.ndarray):
        return ('arr', type(o).__name__, str(o.dtype), o.shape, hashlib.sha1(np.ascontiguousarray(np.asarray(o)).tobytes()).hexdigest())
    if hasattr(o, 'pos') and hasattr(o, 'vel'):
        return ('particles', snap(o.pos), snap(o.vel), snap(np.asarray(o.q)), snap(np.asarray(o.m)))
    if hasattr(o, 'elec') and hasattr(o, 'magn'):
        return ('fields', snap(o.elec), snap(o.magn))
    return ('other', repr(o))


def is_solution(o):
    return isinstance(o, np.ndarray) or (hasattr(o, 'pos') and hasattr(o, 'vel')) or (hasattr(o, 'elec') and hasattr(o, 'magn'))


@contextlib.contextmanager
def logging_monitor(log):
    """Wrap Hooks.add_to_stats: snapshot every solution-valued entry at the moment it is logged."""
    from pySDC.core.hooks import Hooks
    orig = Hooks.add_to_stats

    def add_to_stats(self, value, **kwargs):
        if is_solution(value):
            log.append((dict(kwargs), value, snap(value)))      # identity (the object itself is kept) + content at logging time
        return orig(self, value, **kwargs)

    Hooks.add_to_stats = add_to_stats
    try:
        yield
    finally:
        Hooks.add_to_stats = orig


def configs(thorough=False):
    """list of (label, builder) ; builder() -> (controller, t0, Tend)"""
    from pySDC.implementations.controller_classes.controller_nonMPI import controller_nonMPI
    from pySDC.implementations.hooks.log_solution import LogSolution, LogSolutionAfterIteration
    from pySDC.implementations.sweeper_classes.generic_implicit import generic_implicit
    from pySDC.implementations.sweeper_classes.imex_1st_order import imex_1st_order
    from pySDC.implementations.sweeper_classes.explicit import explicit
    import pySDC.implementations.sweeper_classes.Runge_Kutta as RK
    from pySDC.implementations.problem_classes.HeatEquation_ND_FD import heatNd_unforced, heatNd_forced
    from pySDC.implementations.problem_classes.AdvectionEquation_ND_FD import advectionNd
    from pySDC.implementations.problem_classes.TestEquation_0D import testequation0d
    from pySDC.implementations.problem_classes.Van_der_Pol_implicit import vanderpol
    from pySDC.implementations.transfer_classes.TransferMesh import mesh_to_mesh
    from pySDC.implementations.convergence_controller_classes.adaptivity import Adaptivity, AdaptivityRK

    out = []

    def add(label, problem_class, problem_params, sweeper_class, sweeper_params, dt, Tend, num_procs=1, maxiter=4,
            restol=-1, hooks=(LogSolution, LogSolutionAfterIteration), conv=None, levels=1, transfer=None, extra_desc=None, mssdc_jac=True):
        def build():
            desc = dict(problem_class=problem_class, problem_params=problem_params, sweeper_class=sweeper_class,
                        sweeper_params=sweeper_params, level_params=dict(dt=dt, restol=restol), step_params=dict(maxiter=maxiter))
            if conv:
                desc['convergence_controllers'] = conv
            if transfer:
                desc['space_transfer_class'] = transfer[0]
                desc['space_transfer_params'] = transfer[1]
            if extra_desc:
                desc.update(extra_desc)
            cp = dict(logger_level=40, hook_class=list(hooks), mssdc_jac=mssdc_jac)
            return controller_nonMPI(num_procs=num_procs, controller_params=cp, description=desc), 0.0, Tend
        out.append((label, build))

    sdc = dict(quad_type='RADAU-RIGHT', num_nodes=3, QI='IE')
    sdc_lu = dict(quad_type='RADAU-RIGHT', num_nodes=3, QI='LU')
    lobatto = dict(quad_type='LOBATTO', num_nodes=3, QI='IE')
    heat = dict(nvars=15, nu=0.1, freq=2, bc='dirichlet-zero')
    heatp = dict(nvars=16, nu=0.1, freq=2, bc='periodic')
    both = (LogSolution, LogSolutionAfterIteration)

    # --- SDC sweepers, single step / multi-step, with and without logging after iterations
    add('generic_implicit/heat/1proc', heatNd_unforced, heat, generic_implicit, sdc, 0.05, 0.2, hooks=both)
    add('generic_implicit/heat/lobatto', heatNd_unforced, heat, generic_implicit, lobatto, 0.05, 0.15, hooks=both)
    add('generic_implicit/heat/3procs', heatNd_unforced, heat, generic_implicit, sdc_lu, 0.05, 0.3, num_procs=3, hooks=both)
    add('generic_implicit/heat/3procs-gauss-seidel', heatNd_unforced, heat, generic_implicit, sdc_lu, 0.05, 0.3, num_procs=3, mssdc_jac=False)
    add('generic_implicit/testequation-complex', testequation0d, dict(lambdas=[[-1.0 + 2.0j, -5.0]], u0=1.0), generic_implicit, sdc, 0.1, 0.4, hooks=both)
    add('generic_implicit/vanderpol', vanderpol, dict(mu=2.0, newton_tol=1e-9, newton_maxiter=50, u0=(2.0, 0.0)), generic_implicit, sdc_lu, 0.05, 0.2)
    add('imex_1st_order/heat_forced/1proc', heatNd_forced, heat, imex_1st_order, sdc, 0.05, 0.2, hooks=both)
    add('imex_1st_order/heat_forced/2procs', heatNd_forced, heat, imex_1st_order, sdc_lu, 0.05, 0.2, num_procs=2)
    add('explicit/advection', advectionNd, dict(nvars=16, c=1.0, freq=2, order=2, bc='periodic', stencil_type='center'), explicit,
        dict(quad_type='RADAU-RIGHT', num_nodes=3), 0.01, 0.04, hooks=both)
    add('generic_implicit/full-update', heatNd_unforced, heat, generic_implicit,
        dict(quad_type='GAUSS', num_nodes=3, QI='IE', do_coll_update=True), 0.05, 0.15)
    add('generic_implicit/heat/single-step', heatNd_unforced, heat, generic_implicit, sdc, 0.05, 0.05)
    add('imex_1st_order/heat_forced/single-step', heatNd_forced, heat, imex_1st_order, sdc, 0.05, 0.05)
    # --- standard IMEX test problems whose eval_f assigns `f.impl = ...` / `f.expl = ...`
    try:
        from pySDC.implementations.problem_classes.FastWaveSlowWave_0D import swfw_scalar
        from pySDC.implementations.problem_classes.AcousticAdvection_1D_FD_imex import acoustic_1d_imex
        add('imex_1st_order/swfw_scalar', swfw_scalar, dict(lambda_s=np.array([0.1j]), lambda_f=np.array([1.0j]), u0=1.0), imex_1st_order, sdc, 0.1, 0.3)
        add('imex_1st_order/acoustic_1d_imex', acoustic_1d_imex, dict(nvars=(2, 32), cs=0.5, cadv=0.1, order_adv=5, waveno=2), imex_1st_order, sdc, 0.01, 0.03)
    except Exception as e:
        out.append(('imex_1st_order/swfw+acoustic', e))
    # --- adaptivity / restarts
    add('generic_implicit/vanderpol/adaptivity', vanderpol, dict(mu=5.0, newton_tol=1e-9, newton_maxiter=50, u0=(2.0, 0.0)), generic_implicit, sdc_lu,
        0.2, 0.6, maxiter=3, restol=-1, conv={Adaptivity: {'e_tol': 1e-5}}, hooks=both, mssdc_jac=False)
    add('generic_implicit/heat/adaptivity-3procs', heatNd_unforced, heat, generic_implicit, sdc_lu, 0.2, 0.6, num_procs=3, maxiter=3, restol=-1,
        conv={Adaptivity: {'e_tol': 1e-4}}, mssdc_jac=False)
    # --- PFASST: 2 levels, multi-step
    tr = (mesh_to_mesh, dict(rorder=2, iorder=6, periodic=True))
    add('pfasst/heat-periodic/2levels-3procs', heatNd_unforced, dict(nvars=[16, 8], nu=0.1, freq=2, bc='periodic'), generic_implicit, sdc_lu,
        0.05, 0.3, num_procs=3, maxiter=5, transfer=tr, hooks=both)
    add('mlsdc/heat-periodic/2levels-1proc', heatNd_unforced, dict(nvars=[16, 8], nu=0.1, freq=2, bc='periodic'), generic_implicit, sdc_lu,
        0.05, 0.15, num_procs=1, maxiter=5, transfer=tr)
    add('pfasst/imex-heat-forced/2levels-2procs', heatNd_forced, dict(nvars=[15, 7], nu=0.1, freq=2, bc='dirichlet-zero'), imex_1st_order, sdc_lu,
        0.05, 0.2, num_procs=2, maxiter=5, transfer=(mesh_to_mesh, dict(rorder=2, iorder=6)))
    # --- Runge-Kutta sweepers
    rkp = dict(maxiter=1, restol=-1)
    for name in ['ForwardEuler', 'ExplicitMidpointMethod', 'RK4', 'Heun_Euler', 'Cash_Karp']:
        add('RK/%s/advection' % name, advectionNd, dict(nvars=16, c=1.0, freq=2, order=2, bc='periodic', stencil_type='center'),
            getattr(RK, name), {}, 0.01, 0.04, **rkp)
    for name in ['BackwardEuler', 'CrankNicolson', 'ImplicitMidpointMethod', 'DIRK43', 'DIRK43_2', 'EDIRK4', 'ESDIRK53', 'ESDIRK43']:
        add('RK/%s/heat' % name, heatNd_unforced, heat, getattr(RK, name), {}, 0.05, 0.2, **rkp)
    for name in ['IMEXEuler', 'IMEXEulerStifflyAccurate', 'ARK54', 'ARK548L2SA', 'ARK32', 'ARK2', 'ARK3']:
        add('RKIMEX/%s/heat_forced' % name, heatNd_forced, heat, getattr(RK, name), {}, 0.05, 0.2, **rkp)
    add('RK/ESDIRK53/vanderpol/adaptivityRK', vanderpol, dict(mu=5.0, newton_tol=1e-9, newton_maxiter=50, u0=(2.0, 0.0)), RK.ESDIRK53, {},
        0.2, 0.6, conv={AdaptivityRK: {'e_tol': 1e-5}}, mssdc_jac=False, **rkp)
    add('RKIMEX/ARK54/heat_forced/adaptivityRK', heatNd_forced, heat, RK.ARK54, {}, 0.2, 0.6, conv={AdaptivityRK: {'e_tol': 1e-6}}, mssdc_jac=False, **rkp)
    add('RK/RK4/advection/2procs', advectionNd, dict(nvars=16, c=1.0, freq=2, order=2, bc='periodic', stencil_type='center'), RK.RK4, {},
        0.01, 0.04, num_procs=2, **rkp)

    # --- particles (verlet / boris) and the DAE mesh
    try:
        from pySDC.implementations.problem_classes.HarmonicOscillator import harmonic_oscillator
        from pySDC.implementations.sweeper_classes.verlet import verlet
        add('verlet/harmonic_oscillator', harmonic_oscillator, dict(k=1.0, u0=(1.0, 0.0)), verlet,
            dict(quad_type='LOBATTO', num_nodes=3, QI='IE', QE='PIC'), 0.1, 0.4, hooks=both)
        add('verlet/harmonic_oscillator/2procs', harmonic_oscillator, dict(k=1.0, u0=(1.0, 0.0)), verlet,
            dict(quad_type='LOBATTO', num_nodes=3, QI='IE', QE='PIC'), 0.1, 0.4, num_procs=2)
    except Exception as e:          # optional dependency missing: recorded by the caller
        out.append(('verlet/harmonic_oscillator', e))
    try:
        from pySDC.implementations.problem_classes.PenningTrap_3D import penningtrap
        from pySDC.implementations.sweeper_classes.boris_2nd_order import boris_2nd_order
        add('boris/penningtrap', penningtrap, dict(omega_E=4.9, omega_B=25.0, u0=np.array([[10, 0, 0], [100, 0, 100], [1], [1]], dtype=object), nparts=1, sig=0.1),
            boris_2nd_order, dict(quad_type='LOBATTO', num_nodes=3), 0.015625, 0.0625, hooks=both)
    except Exception as e:
        out.append(('boris/penningtrap', e))
    try:
        from pySDC.projects.DAE.problems.simpleDAE import SimpleDAE
        from pySDC.projects.DAE.sweepers.fullyImplicitDAE import FullyImplicitDAE
        from pySDC.projects.DAE.sweepers.semiImplicitDAE import SemiImplicitDAE
        add('fullyImplicitDAE/simpleDAE', SimpleDAE, dict(newton_tol=1e-9), FullyImplicitDAE, sdc_lu, 0.05, 0.15, maxiter=6, hooks=both)
        # SemiImplicitDAE keeps its node objects for the whole step and updates them IN PLACE through component views
        add('semiImplicitDAE/simpleDAE', SimpleDAE, dict(newton_tol=1e-9), SemiImplicitDAE, sdc_lu, 0.05, 0.15, maxiter=4, hooks=both)
        add('semiImplicitDAE/simpleDAE/2nodes-IE', SimpleDAE, dict(newton_tol=1e-9), SemiImplicitDAE, dict(quad_type='RADAU-RIGHT', num_nodes=2, QI='IE'),
            0.05, 0.15, maxiter=3, hooks=both)
        from pySDC.projects.DAE.problems.pendulum2D import Pendulum2D
        add('semiImplicitDAE/pendulum2D', Pendulum2D, dict(newton_tol=1e-9), SemiImplicitDAE, sdc_lu, 0.02, 0.06, maxiter=3, hooks=both)
        add('fullyImplicitDAE/pendulum2D', Pendulum2D, dict(newton_tol=1e-9), FullyImplicitDAE, sdc_lu, 0.02, 0.06, maxiter=3, hooks=both)
    except Exception as e:
        out.append(('DAE/simpleDAE', e))
    try:   # RungeKuttaDAE writes nodes in place as well (`lvl.u[m + 1][:] = ...`, `lvl.f[m + 1][:] = ...`)
        from pySDC.projects.DAE.problems.simpleDAE import SimpleDAE
        import pySDC.projects.DAE.sweepers.rungeKuttaDAE as RKD
        for name in ['BackwardEulerDAE', 'TrapezoidalRuleDAE', 'EDIRK4DAE', 'DIRK43_2DAE']:
            add('RKDAE/%s/simpleDAE' % name, SimpleDAE, dict(newton_tol=1e-9), getattr(RKD, name), {}, 0.05, 0.15, maxiter=1, hooks=both)
    except Exception as e:
        out.append(('RKDAE/simpleDAE', e))
    try:   # families whose compute_end_point hands out u[-1] itself
        import pySDC.implementations.sweeper_classes.Multistep as MS_
        for name in ['AdamsBashforthExplicit1Step', 'BackwardEuler', 'AdamsMoultonImplicit1Step', 'AdamsMoultonImplicit2Step']:
            add('Multistep/%s/vanderpol' % name, vanderpol, dict(mu=1.0, newton_tol=1e-9, newton_maxiter=50, u0=(2.0, 0.0)), getattr(MS_, name), {},
                0.01, 0.04, maxiter=1, hooks=both)
    except Exception as e:
        out.append(('Multistep', e))
    try:
        from pySDC.implementations.problem_classes.PenningTrap_3D import penningtrap
        import pySDC.implementations.sweeper_classes.Runge_Kutta_Nystrom as RKN_
        for name in ['RKN', 'Velocity_Verlet']:
            add('RKN/%s/penningtrap' % name, penningtrap,
                dict(omega_E=4.9, omega_B=25.0, u0=np.array([[10, 0, 0], [100, 0, 100], [1], [1]], dtype=object), nparts=1, sig=0.1),
                getattr(RKN_, name), {}, 0.015625, 0.0625, maxiter=1, hooks=both)
    except Exception as e:
        out.append(('RKN', e))
    return out


def run_config(label, build, rng=None):
    """Run one configuration under the monitors.  Returns dict with findings (list of (what, kind, detail))."""
    findings = []
    log = []
    import io
    with warnings.catch_warnings(), contextlib.redirect_stdout(io.StringIO()):
        warnings.simplefilter('ignore')
        controller, t0, Tend = build()
        if rng is not None and 'adaptiv' not in label and 'single-step' not in label:
            dt = controller.MS[0].levels[0].params.dt
            Tend = dt * rng.randint(2, 5)
        P = controller.MS[0].levels[0].prob
        uinit = P.u_exact(t0)
        keep = uinit                       # the caller's object
        before = snap(uinit)
        alias = uinit                      # a second name of the caller for the same object
        with logging_monitor(log):
            uend, stats = controller.run(u0=uinit, t0=t0, Tend=Tend)
    if uinit is not keep or alias is not keep:
        findings.append(('caller binding changed', 'u0', {}))
    if snap(keep) != before:
        findings.append(("run() modified the caller's u0 object", 'u0-modified', {'before': before[-1] if isinstance(before[-1], str) else str(before), 'after': str(snap(keep))}))
    # logged entries still in the returned stats: unchanged since logging time
    in_stats = {id(v): k for k, v in stats.items() if is_solution(v)}
    nlogged = 0
    for meta, obj, s in log:
        if id(obj) not in in_stats:
            continue
        nlogged += 1
        if snap(obj) != s:
            findings.append(('a logged solution was modified after it was logged (%s)' % ({k: meta[k] for k in sorted(meta) if k in ('time', 'iter', 'level', 'process', 'type')},),
                             'logged-modified', {'meta': {k: str(v) for k, v in meta.items()}}))
            break
    # two different log entries of one run that are the SAME object although their contents differed when they were
    # logged: the earlier entry has been overwritten in place (independent of what the stats dict still holds)
    first = {}
    for meta, obj, s in log:
        key = id(obj)                       # objects are kept alive by `log`, ids are unique
        if key in first and first[key][1] != s:
            m0 = first[key][0]
            findings.append(('two log entries are one object whose content changed between the two logging events (%s then %s)'
                             % ({k: m0[k] for k in sorted(m0) if k in ('time', 'iter', 'type')}, {k: meta[k] for k in sorted(meta) if k in ('time', 'iter', 'type')}),
                             'logged-aliased', {'first': {k: str(v) for k, v in m0.items()}, 'second': {k: str(v) for k, v in meta.items()}}))
            break
        first.setdefault(key, (meta, s))
    # the returned value: unchanged since it was last logged, if it was logged
    # the caller's u0 must not share storage with anything logged or returned
    arrays = lambda o: [o] if isinstance(o, np.ndarray) else [getattr(o, a) for a in ('pos', 'vel', 'elec', 'magn') if hasattr(o, a)]
    for o in [uend] + [obj for _, obj, _ in log]:
        if any(np.shares_memory(a, b) for a in arrays(o) for b in arrays(keep)):
            findings.append(("an object returned/logged by run() shares storage with the caller's u0", 'u0-aliased', {}))
            break
    # the returned end value: snapshot now, poke the step objects' own solution buffers, compare -> independence from
    # live level data is NOT part of the property (pySDC returns L.uend itself); only record it
    live = []
    for S in controller.MS:
        for L in S.levels:
            live += [x for x in list(L.u) + [L.uend] if x is not None]
    returned_is_live = any(uend is x for x in live)
    if any(np.shares_memory(a, b) for o in live for a in arrays(o) for b in arrays(keep)):
        findings.append(("level data of the finished run shares storage with the caller's u0 (init_step did not copy)", 'u0-aliased', {}))
    # multi-component meshes held by the levels (u, f, uend, tau) or logged: every component must be a view of the
    # object's own buffer showing the same values ("one buffer"); a component attribute that was REBOUND
    # (`f.expl = x`, `f.expl -= x`) instead of written (`f.expl[:] = x`) leaves the buffer stale
    held = []
    for S in controller.MS:
        for L in S.levels:
            held += [('u[%d]' % i, x) for i, x in enumerate(L.u)] + [('f[%d]' % i, x) for i, x in enumerate(L.f)] + [('uend', L.uend)]
            held += [('tau[%d]' % i, x) for i, x in enumerate(L.tau)]
    held += [('logged', obj) for _, obj, _ in log]
    for where, x in held:
        comps = getattr(type(x), 'components', None)
        if not (isinstance(x, np.ndarray) and comps and x.ndim >= 1 and x.shape[0] == len(comps)):
            continue
        for i, c in enumerate(comps):
            v = getattr(x, c)
            if not (isinstance(v, np.ndarray) and v.shape == x.shape[1:] and (v.size == 0 or np.shares_memory(v, x))
                    and np.array_equal(np.asarray(v), np.asarray(x)[i], equal_nan=True)):
                findings.append(('component %r of the %s object %s is detached from the mesh buffer (attribute rebound instead of written): '
                                 'copies, whole-mesh arithmetic and abs() see stale values' % (c, type(x).__name__, where),
                                 'component-detached', {'where': where, 'component': c, 'class': type(x).__name__,
                                                        'instance_dict_keys': sorted(getattr(x, '__dict__', {}).keys())}))
                break
        else:
            continue
        break
    return dict(label=label, findings=findings, nlogged=nlogged, nsteps=len({m.get('time') for m, _, _ in log}),
                returned_is_live=returned_is_live, uend_type=type(uend).__name__, Tend=Tend)
