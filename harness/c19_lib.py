"""C19 helpers: seeded configuration space, controller construction, canonical run records, persistent
state snapshots / poisoning, and the scenario worker (each scenario runs in its own Python process so
that class-level state of pySDC starts clean).

Worker protocol:  python -m harness.c19_lib  < scenario.json  > result.json
"""
import json
import struct
import sys

# ---------------------------------------------------------------------------------------- small codecs


def fhex(x):
    return float(x).hex()


def fbits(x):
    """IEEE-754 binary64 bit pattern of a float as int."""
    return struct.unpack('<Q', struct.pack('<d', float(x)))[0]


def unhex(s):
    return float.fromhex(s)


# ---------------------------------------------------------------------------------------- configurations

RK_EXPL = ['ForwardEuler', 'RK4', 'ExplicitMidpointMethod', 'Heun_Euler', 'Cash_Karp']
RK_IMPL = ['BackwardEuler', 'CrankNicolson', 'ImplicitMidpointMethod', 'DIRK43', 'ESDIRK53']
RK_IMEX = ['IMEXEuler', 'ARK54', 'ARK32']
HOOKS = ['LogSolution', 'LogWork', 'LogSDCIterations', 'LogGlobalErrorPostStep', 'LogLocalErrorPostStep',
         'LogEmbeddedErrorEstimate', 'LogExtrapolationErrorEstimate', 'LogStepSize', 'LogGlobalErrorPostRun',
         'LogSolutionAfterIteration']
CCS = ['EstimateEmbeddedError', 'EstimateExtrapolationErrorNonMPI', 'EstimateContractionFactor', 'StoreUOld',
       'EstimatePolynomialError', 'Adaptivity']
KDEP_QI = ['MIN-SR-FLEX', 'MIN-SR-FLEX', 'FB', 'FB2']      # qmat generators with isKDependent()
DTS = [0.1, 0.05, 0.125, 0.2, 0.03, 0.07, 1.0 / 3.0, 0.011]
T0S = [0.0, 0.0, 0.3, 1.0, 0.7, 2.5, 0.1]


def gen_config(rng, fixed_step=True, allow_random=True, family=None):
    """One seeded, valid controller configuration (JSON-able dict)."""
    fam = family or rng.choice(['sdc_test', 'sdc_heat', 'imex_heat', 'sdc_adv', 'sdc_vdp', 'explicit', 'rk', 'rk_imex',
                                'ml_heat', 'ml_imex', 'ml_test', 'ml_adv'])
    c = {'family': fam, 'M': rng.choice([2, 3, 3, 4]), 'quad': 'RADAU-RIGHT', 'QI': rng.choice(['LU', 'IE', 'MIN-SR-S', 'MIN-SR-FLEX', 'LU']),
         'QE': rng.choice(['EE', 'PIC']), 'guess': rng.choice(['spread', 'spread', 'copy', 'zero'] + (['random'] if allow_random else [])),
         'levels': 1, 'P': rng.choice([1, 2, 3, 4]), 'dt': rng.choice(DTS), 'maxiter': rng.choice([1, 2, 3, 4]),
         'restol': rng.choice([-1.0, -1.0, 1e-6, 1e-9]), 'hooks': [], 'ccs': [], 'mssdc_jac': rng.choice([True, False]),
         'predict_type': None, 'all_to_done': rng.choice([False, False, True]), 'seed': rng.randrange(1 << 30)}
    if fam in ('sdc_test', 'ml_test'):
        c['prob'] = 'test'
        c['lambdas'] = [-(rng.randint(1, 40)) / 8.0 for _ in range(rng.randint(1, 3))]
        c['sweeper'] = 'generic_implicit'
    elif fam in ('sdc_heat', 'ml_heat'):
        c['prob'] = 'heat_u'
        c['sweeper'] = 'generic_implicit'
    elif fam in ('imex_heat', 'ml_imex'):
        c['prob'] = 'heat_f'
        c['sweeper'] = 'imex'
    elif fam in ('sdc_adv', 'ml_adv'):
        c['prob'] = 'adv'
        c['sweeper'] = 'generic_implicit'
    elif fam == 'sdc_vdp':
        c['prob'] = 'vdp'
        c['sweeper'] = 'generic_implicit'
        c['mu'] = rng.choice([0.5, 1.0, 2.0])
        c['dt'] = rng.choice([0.05, 0.03, 0.011, 0.1])
    elif fam == 'explicit':
        c['prob'] = rng.choice(['test', 'heat_u', 'adv'])
        c['lambdas'] = [-(rng.randint(1, 16)) / 8.0 for _ in range(2)]
        c['sweeper'] = 'explicit'
        c['dt'] = rng.choice([0.03, 0.011, 0.05])
    elif fam == 'rk':
        c['prob'] = rng.choice(['test', 'heat_u', 'adv', 'vdp'])
        c['lambdas'] = [-(rng.randint(1, 16)) / 8.0 for _ in range(2)]
        c['mu'] = 1.0
        c['sweeper'] = 'RK:' + rng.choice(RK_EXPL + RK_IMPL)
        c['maxiter'] = 1
        c['restol'] = -1.0
        c['guess'] = 'zero'
        if c['sweeper'][3:] in RK_EXPL:
            c['dt'] = rng.choice([0.03, 0.011, 0.05])
    elif fam == 'rk_imex':
        c['prob'] = 'heat_f'
        c['sweeper'] = 'RK:' + rng.choice(RK_IMEX)
        c['maxiter'] = 1
        c['restol'] = -1.0
        c['guess'] = 'zero'
    if c['prob'] in ('heat_u', 'heat_f', 'adv'):
        c['bc'] = 'periodic' if c['prob'] == 'adv' else rng.choice(['periodic', 'dirichlet-zero'])
        c['nvars'] = rng.choice([8, 16]) if c['bc'] == 'periodic' else rng.choice([7, 15])
        c['nu'] = rng.choice([0.1, 0.02])
        c['freq'] = 2 if c['bc'] == 'periodic' else rng.choice([1, 2, 3])
    if fam.startswith('ml_'):
        c['levels'] = 2
        c['predict_type'] = rng.choice([None, 'fine_only', 'pfasst_burnin'])
        c['maxiter'] = rng.choice([2, 3])
        if c['prob'] == 'test':
            c['M'] = [3, 2]
        else:
            c['nvars'] = [16, 8] if c['bc'] == 'periodic' else [15, 7]
            c['iorder'] = rng.choice([2, 4])
            c['rorder'] = 2
    if fam in ('rk', 'rk_imex'):
        c['P'] = rng.choice([1, 1, 2])
        c['mssdc_jac'] = False
        c['all_to_done'] = False
    # hooks / convergence controllers (fixed step unless Adaptivity is chosen)
    nh = rng.choice([0, 1, 2, 3])
    hooks = ['LogSolution', 'LogWork', 'LogSDCIterations', 'LogStepSize', 'LogGlobalErrorPostStep']
    if c['prob'] != 'vdp':
        hooks += ['LogGlobalErrorPostRun']
    if c['prob'] == 'test':
        hooks += ['LogLocalErrorPostStep']
    c['hooks'] = sorted(rng.sample(hooks, nh))
    if not fam.startswith('rk') and fam != 'explicit':
        r = rng.random()
        if not fixed_step and c['levels'] == 1 and c['P'] <= 2 and r < 0.6:
            c['ccs'].append('Adaptivity')
            c['mssdc_jac'] = False
            c['restol'] = -1.0
            c['maxiter'] = max(c['maxiter'], 2)
            c['hooks'] = sorted(set(c['hooks'] + ['LogStepSize']))
        elif r < 0.2:
            c['ccs'].append('EstimateEmbeddedError')
            c['hooks'].append('LogEmbeddedErrorEstimate')
        elif r < 0.35 and c['levels'] == 1 and c['prob'] != 'heat_f':
            c['ccs'].append('EstimateExtrapolationErrorNonMPI')
            c['mssdc_jac'] = False
            c['hooks'].append('LogExtrapolationErrorEstimate')
        elif r < 0.45:
            c['ccs'].append('StoreUOld')
        elif r < 0.55 and c['levels'] == 1:
            c['ccs'].append('EstimateContractionFactor')
    # several sweeps per iteration on the fine level (single level only: the coarsest level must have one) and
    # sweep-dependent preconditioners (the sweepers' QI tables are rewritten by updateVariableCoeffs before every sweep)
    c['nsweeps'] = 1
    if c['levels'] == 1 and c['sweeper'] in ('generic_implicit', 'imex') and rng.random() < 0.4:
        c['nsweeps'] = rng.choice([2, 3])
        if c['sweeper'] == 'generic_implicit' and rng.random() < 0.6:
            needs_gs = bool(set(c['ccs']) & {'EstimateExtrapolationErrorNonMPI', 'Adaptivity'})
            if c['P'] == 1 or not needs_gs:
                c['QI'] = rng.choice(KDEP_QI)
                if c['P'] > 1:
                    c['mssdc_jac'] = True   # the Gauss-Seidel variant has a finding of its own (c19.py: kdep_gs), probed separately
    c['fixed_step'] = 'Adaptivity' not in c['ccs']
    return c


def _import(path, name):
    mod = __import__(path, fromlist=[name])
    return getattr(mod, name)


def build_description(c):
    import numpy as np
    prob = c['prob']
    pp = {}
    if prob == 'test':
        pc = _import('pySDC.implementations.problem_classes.TestEquation_0D', 'testequation0d')
        pp = {'lambdas': np.array(c['lambdas']), 'u0': 1.0}
    elif prob in ('heat_u', 'heat_f'):
        pc = _import('pySDC.implementations.problem_classes.HeatEquation_ND_FD', 'heatNd_unforced' if prob == 'heat_u' else 'heatNd_forced')
        pp = {'nvars': c['nvars'], 'nu': c['nu'], 'freq': c['freq'], 'bc': c['bc']}
    elif prob == 'adv':
        pc = _import('pySDC.implementations.problem_classes.AdvectionEquation_ND_FD', 'advectionNd')
        pp = {'nvars': c['nvars'], 'c': 1.0, 'freq': c['freq'], 'bc': 'periodic', 'order': 2, 'stencil_type': 'center'}
    elif prob == 'vdp':
        pc = _import('pySDC.implementations.problem_classes.Van_der_Pol_implicit', 'vanderpol')
        pp = {'mu': c['mu'], 'newton_tol': 1e-10, 'newton_maxiter': 50, 'u0': np.array([2.0, 0.0]), 'crash_at_maxiter': False}
    sw = c['sweeper']
    sp = {'num_nodes': c['M'], 'quad_type': c['quad'], 'initial_guess': c['guess']}
    if sw == 'generic_implicit':
        sc = _import('pySDC.implementations.sweeper_classes.generic_implicit', 'generic_implicit')
        sp['QI'] = c['QI']
    elif sw == 'imex':
        sc = _import('pySDC.implementations.sweeper_classes.imex_1st_order', 'imex_1st_order')
        sp['QI'] = c['QI'] if c['QI'] != 'MIN-SR-FLEX' else 'LU'
        sp['QE'] = c['QE']
    elif sw == 'explicit':
        sc = _import('pySDC.implementations.sweeper_classes.explicit', 'explicit')
        sp['QE'] = c['QE']
    else:
        sc = _import('pySDC.implementations.sweeper_classes.Runge_Kutta', sw[3:])
        sp = {}
    d = {'problem_class': pc, 'problem_params': pp, 'sweeper_class': sc, 'sweeper_params': sp,
         'level_params': {'dt': c['dt'], 'restol': c['restol'], 'nsweeps': c.get('nsweeps', 1)}, 'step_params': {'maxiter': c['maxiter']}}
    if c['levels'] == 2:
        if prob == 'test':
            d['space_transfer_class'] = _import('pySDC.implementations.transfer_classes.TransferMesh_NoCoarse', 'mesh_to_mesh')
        else:
            d['space_transfer_class'] = _import('pySDC.implementations.transfer_classes.TransferMesh', 'mesh_to_mesh')
            d['space_transfer_params'] = {'iorder': c['iorder'], 'rorder': c['rorder'], 'periodic': c['bc'] == 'periodic'}
    ccs = {}
    for name in c['ccs']:
        if name == 'EstimateEmbeddedError':
            ccs[_import('pySDC.implementations.convergence_controller_classes.estimate_embedded_error', name)] = {}
        elif name == 'EstimateExtrapolationErrorNonMPI':
            ccs[_import('pySDC.implementations.convergence_controller_classes.estimate_extrapolation_error', name)] = {'no_storage': False}
        elif name == 'EstimateContractionFactor':
            ccs[_import('pySDC.implementations.convergence_controller_classes.estimate_contraction_factor', name)] = {}
        elif name == 'StoreUOld':
            ccs[_import('pySDC.implementations.convergence_controller_classes.store_uold', name)] = {}
        elif name == 'EstimatePolynomialError':
            ccs[_import('pySDC.implementations.convergence_controller_classes.estimate_polynomial_error', name)] = {}
        elif name == 'Adaptivity':
            ccs[_import('pySDC.implementations.convergence_controller_classes.adaptivity', name)] = {'e_tol': 1e-5}
    if ccs:
        d['convergence_controllers'] = ccs
    return d


HOOK_MODULE = {'LogSolution': 'log_solution', 'LogSolutionAfterIteration': 'log_solution', 'LogWork': 'log_work',
               'LogSDCIterations': 'log_work', 'LogGlobalErrorPostStep': 'log_errors', 'LogLocalErrorPostStep': 'log_errors',
               'LogGlobalErrorPostRun': 'log_errors', 'LogEmbeddedErrorEstimate': 'log_embedded_error_estimate',
               'LogExtrapolationErrorEstimate': 'log_extrapolated_error_estimate', 'LogStepSize': 'log_step_size'}

_SINK = {'cur': None}
_REC = {}


def rec_hook():
    """The recording hook class (created lazily, once per process)."""
    if 'cls' in _REC:
        return _REC['cls']
    from pySDC.core.hooks import Hooks

    class C19Rec(Hooks):
        def post_setup(self, step, level_number):
            super().post_setup(step, level_number)
            s = _SINK['cur']
            if s is not None and s.get('want_snap'):
                s['snap_entry'] = snapshot(s['controller'])

        def post_step(self, step, level_number):
            super().post_step(step, level_number)
            s = _SINK['cur']
            if s is not None:
                L = step.levels[0]
                s['steps'].append([int(step.status.slot), fhex(L.time), fhex(L.dt), fhex(L.time + L.dt), int(step.status.iter),
                                   arr_hex(L.uend)])

    _REC['cls'] = C19Rec
    return C19Rec


def build_cparams(c):
    hooks = [_import('pySDC.implementations.hooks.' + HOOK_MODULE[h], h) for h in c['hooks']] + [rec_hook()]
    cparams = {'logger_level': 50, 'hook_class': hooks, 'dump_setup': False, 'mssdc_jac': c['mssdc_jac'], 'all_to_done': c['all_to_done']}
    if c.get('predict_type') is not None:
        cparams['predict_type'] = c['predict_type']
    return cparams


def make_controller(c, desc=None, cparams=None):
    from pySDC.implementations.controller_classes.controller_nonMPI import controller_nonMPI
    if desc is None:
        desc = build_description(c)
    if cparams is None:
        cparams = build_cparams(c)
    return controller_nonMPI(c['P'], cparams, desc), desc, cparams


# ---------------------------------------------------------------------------------------- caller-owned dicts

def _leaf(v):
    import numpy as np
    if isinstance(v, type):
        return 'class:' + v.__module__ + '.' + v.__qualname__
    if isinstance(v, float):
        return 'f:' + v.hex()
    if isinstance(v, np.ndarray):
        return 'nd:%s:%s:%s' % (v.dtype, v.shape, np.ascontiguousarray(v).tobytes().hex())
    if isinstance(v, (np.generic,)):
        return 'np:%s:%s' % (v.dtype, np.asarray(v).tobytes().hex())
    return '%s:%r' % (type(v).__name__, v)


def _kname(k):
    return ('class:' + k.__module__ + '.' + k.__qualname__) if isinstance(k, type) else str(k)


def deep_snapshot(obj, path=''):
    """path -> [kind, id (containers only), value]: structure, values and object identity of nested dicts / lists."""
    out = {}
    if isinstance(obj, dict):
        out[path] = ['dict', id(obj), [_kname(k) for k in obj]]
        for k, v in obj.items():
            out.update(deep_snapshot(v, path + '/' + _kname(k)))
    elif isinstance(obj, (list, tuple)):
        out[path] = [type(obj).__name__, id(obj) if isinstance(obj, list) else None, len(obj)]
        for i, v in enumerate(obj):
            out.update(deep_snapshot(v, path + '/[%d]' % i))
    else:
        out[path] = ['leaf', None, _leaf(obj)]
    return out


DESC_DEFAULT_KEYS = ('problem_params', 'base_transfer_class', 'base_transfer_params', 'space_transfer_class', 'space_transfer_params')


def dict_changes(before, after, which):
    """Differences between two deep snapshots of a caller-owned dict, minus what the unchanged code is
    documented to do: Step adds the five default keys to the description; Controller.__init__ replaces
    controller_params['hook_class'] by [DefaultHooks, CPUTimings] + the user's list."""
    ch = []
    for pth in sorted(set(before) | set(after)):
        top = pth.split('/')[1] if pth.count('/') >= 1 else ''
        if which == 'controller_params' and top == 'hook_class':
            continue
        b, a = before.get(pth), after.get(pth)
        if b is None:
            if which == 'description' and top in DESC_DEFAULT_KEYS:
                continue
            ch.append({'path': pth, 'change': 'added', 'after': a[2]})
        elif a is None:
            ch.append({'path': pth, 'change': 'removed', 'before': b[2]})
        elif b[0] != a[0] or b[2] != a[2]:
            if which == 'description' and pth == '' and b[0] == a[0] == 'dict' and \
                    [k for k in a[2] if k not in DESC_DEFAULT_KEYS] == [k for k in b[2] if k not in DESC_DEFAULT_KEYS]:
                continue
            ch.append({'path': pth, 'change': 'value', 'before': b[2], 'after': a[2]})
        elif b[1] != a[1]:
            ch.append({'path': pth, 'change': 'identity'})
    return ch


def hook_list_ok(before_list, after_list):
    """Controller.__init__: controller_params['hook_class'] = [DefaultHooks, CPUTimings] + user list."""
    names = [_kname(k) for k in after_list]
    exp = ['class:pySDC.implementations.hooks.default_hook.DefaultHooks', 'class:pySDC.implementations.hooks.log_timings.CPUTimings'] + \
          [_kname(k) for k in before_list]
    return names == exp, names, exp


class DictWatch:
    """Watches the caller's description and controller_params over construction and run."""

    def __init__(self, desc, cpar):
        self.desc, self.cpar = desc, cpar
        self.d0, self.c0 = deep_snapshot(desc), deep_snapshot(cpar)
        self.h0 = list(cpar.get('hook_class', []))
        self.found = []

    def check(self, stage):
        for which, obj, s0 in (('description', self.desc, self.d0), ('controller_params', self.cpar, self.c0)):
            for ch in dict_changes(s0, deep_snapshot(obj), which):
                self.found.append(dict(ch, stage=stage, dict=which))
        ok, names, exp = hook_list_ok(self.h0, self.cpar.get('hook_class', []))
        if not ok:
            self.found.append({'path': '/hook_class', 'change': 'value', 'stage': stage, 'dict': 'controller_params', 'after': names, 'expected': exp})
        # report each (dict, path, change) once
        seen, out = set(), []
        for f in self.found:
            k = (f['dict'], f['path'], f['change'])
            if k not in seen:
                seen.add(k)
                out.append(f)
        self.found = out
        return out


def initial_value(ctrl, scale):
    P = ctrl.MS[0].levels[0].prob
    u = P.u_exact(0.0)
    u0 = P.dtype_u(u)
    u0 *= scale
    return u0


def arr_hex(a):
    import numpy as np
    if a is None:
        return None
    return np.ascontiguousarray(np.asarray(a)).tobytes().hex()


def canon_value(v):
    import numpy as np
    if v is None or isinstance(v, (bool, int, str)):
        return ['py', repr(v)]
    if isinstance(v, float):
        return ['f', v.hex()]
    if isinstance(v, np.generic) and not isinstance(v, np.ndarray):
        return ['np', str(v.dtype), np.asarray(v).tobytes().hex()]
    if isinstance(v, np.ndarray):
        return ['nd', str(v.dtype), list(v.shape), np.ascontiguousarray(v).tobytes().hex()]
    if isinstance(v, (list, tuple)):
        return ['seq', [canon_value(x) for x in v]]
    if isinstance(v, dict):
        return ['dict', sorted([[str(k), canon_value(x)] for k, x in v.items()])]
    return ['repr', type(v).__name__]


def canon_stats(stats):
    """Sorted list of [key fields..., canonical value]; timing entries removed; floats as hex."""
    out = []
    for k, v in stats.items():
        typ = str(k.type)
        if 'timing' in typ:
            continue
        key = [k.process, k.process_sweeper, None if k.time is None else fhex(k.time), k.level, k.iter, k.sweep, typ, k.num_restarts]
        key = [x if (x is None or isinstance(x, (int, str))) else (int(x) if float(x) == int(x) else fhex(x)) for x in key]
        out.append([key, canon_value(v)])
    out.sort(key=lambda kv: json.dumps(kv[0], default=str))
    return out


# ---------------------------------------------------------------------------------------- persistent state

STEP_FIELDS = ['iter', 'stage', 'slot', 'first', 'last', 'pred_cnt', 'done', 'force_done', 'force_continue', 'prev_done',
               'time_size', 'diff_old_loc', 'diff_first_loc']
LEVEL_FIELDS = ['residual', 'unlocked', 'updated', 'time', 'dt_new', 'sweep']
STAGES = ['SPREAD', 'PREDICT', 'IT_CHECK', 'IT_FINE', 'IT_DOWN', 'IT_COARSE', 'IT_UP', 'DONE']
EXTRA_KEYS = ['restart', 'restarts_in_a_row']          # step status extras that exist in every controller_nonMPI
POISON = 7700


def enc(v):
    """Encode a field value as a Coq `option Z`-like Python value: None | int.
    bool -> 0/1, int -> itself, stage strings -> 100 + index, float -> 1000000 + bit pattern (time fields),
    anything else -> -1 (opaque)."""
    import numpy as np
    if v is None:
        return None
    if isinstance(v, (bool, np.bool_)):
        return int(bool(v))
    if isinstance(v, (int, np.integer)):
        return int(v)
    if isinstance(v, str):
        return 100 + STAGES.index(v) if v in STAGES else -2
    if isinstance(v, (float, np.floating)):
        return 1000000 + fbits(v)
    return -1


def snapshot(ctrl):
    """Field-by-field snapshot of the state that survives between run() calls (encoded)."""
    steps = []
    for S in ctrl.MS:
        st = [enc(S.status.__dict__.get(f)) for f in STEP_FIELDS]
        ex = [enc(S.status.__dict__.get(k)) for k in EXTRA_KEYS]
        other_extra = sorted(k for k in S.status.__dict__ if k not in STEP_FIELDS and k not in EXTRA_KEYS and not k.startswith('_'))
        lv = []
        for L in S.levels:
            ls = [enc(L.status.__dict__.get(f)) for f in LEVEL_FIELDS]
            lex = sorted(k for k in L.status.__dict__ if k not in LEVEL_FIELDS and not k.startswith('_'))
            data = {'uend': L.uend is not None,
                    'u': [x is not None for x in L.u], 'uold': [x is not None for x in L.uold],
                    'f': [x is not None for x in L.f], 'fold': [x is not None for x in L.fold],
                    'tau': [x is not None for x in L.tau],
                    'keep': [x is not None for x in L.u_avg] + [x is not None for x in L.residual] + [x is not None for x in L.increment]}
            lv.append({'status': ls, 'extra': lex, 'tag': None if L.tag is None else (POISON if L.tag == POISON else -1), 'data': data,
                       'nn': len(L.tau)})
        prev = None
        if S.prev is not None:
            prev = [i for i, T in enumerate(ctrl.MS) if T is S.prev][0]
        steps.append({'status': st, 'extra': ex, 'other_extra': other_extra, 'levels': lv, 'prev': prev})
    hooks = [[type(h).__name__, len([k for k in h.return_stats() if 'timing' not in str(getattr(k, 'type', k))])] for h in ctrl.hooks]
    return {'steps': steps, 'hooks': hooks}


def poison(ctrl, rng):
    """Scribble over every field of the persistent state that the model says a run re-initialises before
    reading (or never reads).  Returns nothing; the controller must still produce identical runs."""
    import numpy as np
    for idx, S in enumerate(ctrl.MS):
        st = S.status
        st.iter = POISON + rng.randrange(50)
        st.stage = rng.choice(['DONE', 'IT_FINE', 'IT_CHECK'])
        st.slot = POISON + rng.randrange(50)
        st.first = rng.choice([True, False])
        st.last = rng.choice([True, False])
        st.pred_cnt = POISON
        st.done = True
        st.force_done = True
        st.prev_done = True
        st.time_size = POISON
        st.diff_old_loc = 1e300
        st.diff_first_loc = 1e300
        st.__dict__['restart'] = True
        S.prev = ctrl.MS[(idx + 1) % len(ctrl.MS)]       # a wrong link (the NEXT step)
        for L in S.levels:
            ls = L.status
            ls.residual = 1e300
            ls.unlocked = True
            ls.updated = True
            ls.time = 1e300
            ls.dt_new = 1e-300
            ls.sweep = POISON
            ls.__dict__['c19_poison_extra'] = POISON     # an extra entry of the kind convergence controllers register
            L.tag = POISON
            junk = L.prob.dtype_u(L.prob.init, val=float('nan'))
            L.uend = junk
            L.u = [junk] * len(L.u)
            L.uold = [junk] * len(L.uold)
            L.tau = [junk] * len(L.tau)
            try:
                fj = L.prob.dtype_f(L.prob.init, val=float('nan'))
            except Exception:
                fj = junk
            L.f = [fj] * len(L.f)
            L.fold = [fj] * len(L.fold)
    for h in ctrl.hooks:
        h._Hooks__stats = {('c19', 'poison'): POISON}
        h._Hooks__num_restarts = POISON


def reseed(ctrl):
    """What run() does NOT do: put the sweepers' RandomState back to its seed."""
    import numpy as np
    for S in ctrl.MS:
        for L in S.levels:
            if hasattr(L.sweep, 'rng'):
                L.sweep.rng = np.random.RandomState(L.sweep.params.random_seed)


def repair_qi(ctrl):
    """What run() does NOT do: put the sweepers' QI tables back to what the constructor computed."""
    for S in ctrl.MS:
        for L in S.levels:
            sw = L.sweep
            if hasattr(sw, 'genQI') and sw.genQI.isKDependent():
                sw.QI = sw.get_Qdelta_implicit(sw.params.QI)


def qi_tables(ctrl):
    """Bytes of the fine-level QI table of every step (sweeper state that survives a run)."""
    return [arr_hex(getattr(S.levels[0].sweep, 'QI', None)) for S in ctrl.MS]


def cc_reset(ctrl):
    """What run() does NOT do: re-initialise the storage of the extrapolation error estimator."""
    for C in ctrl.convergence_controllers:
        if type(C).__name__.startswith('EstimateExtrapolationError'):
            C.setup_status_variables(ctrl)


# ---------------------------------------------------------------------------------------- running

def do_run(ctrl, u0, t0, Tend, want_snap=False):
    """One run(); returns a JSON-able record (never raises)."""
    sink = {'steps': [], 'controller': ctrl, 'want_snap': want_snap}
    _SINK['cur'] = sink
    rec = {'t0': fhex(t0), 'Tend': fhex(Tend), 'error': None}
    if want_snap:
        rec['snap_before'] = snapshot(ctrl)
    try:
        uend, stats = ctrl.run(u0=u0, t0=t0, Tend=Tend)
        rec['uend'] = arr_hex(uend)
        rec['stats'] = canon_stats(stats)
    except Exception as e:  # expected only on mutated trees
        rec['error'] = '%s: %s' % (type(e).__name__, str(e)[:200])
        rec['uend'] = None
        rec['stats'] = []
        uend = None
    finally:
        _SINK['cur'] = None
    rec['steps'] = sink['steps']
    if want_snap:
        rec['snap_entry'] = sink.get('snap_entry')
    rec['_uend_obj'] = uend
    return rec


def blocks_of(steps, P):
    """Group the recorded accepted steps (in post_step order) into blocks by start time order."""
    st = sorted(steps, key=lambda s: unhex(s[1]))
    blocks = []
    cur = []
    for s in st:
        if cur and s[0] <= cur[-1][0]:
            blocks.append(cur)
            cur = []
        cur.append(s)
    if cur:
        blocks.append(cur)
    return blocks


def strip(rec):
    return {k: v for k, v in rec.items() if not k.startswith('_')}


def scenario_case(sc):
    """baseline + fresh repeat + same-controller repeats (poisoned) + re-entrant (other interval in between) + splits."""
    import random
    import numpy as np
    c = sc['cfg']
    rng = random.Random(sc['seed'])
    t0 = unhex(sc['t0'])
    Tend = unhex(sc['Tend'])
    out = {}
    desc, cpar = build_description(c), build_cparams(c)
    watch = DictWatch(desc, cpar)
    A, desc, cpar = make_controller(c, desc=desc, cparams=cpar)
    watch.check('construction')
    u0 = initial_value(A, sc['scale'])
    u0_bytes = arr_hex(u0)
    base = do_run(A, u0, t0, Tend, want_snap=True)
    out['dict_changes'] = watch.check('run')
    out['base'] = strip(base)
    out['u0_unchanged_after_run'] = (arr_hex(u0) == u0_bytes)
    if base['error']:
        return out
    # fresh controller, fresh description
    B, _, _ = make_controller(c)
    out['fresh'] = strip(do_run(B, initial_value(B, sc['scale']), t0, Tend))
    # fresh controller re-using the SAME description / controller_params dict objects
    C, _, _ = make_controller(c, desc=desc, cparams=cpar)
    out['fresh_shared_dicts'] = strip(do_run(C, u0, t0, Tend))
    # same controller again (plain), then poisoned, with snapshots at run entry
    out['same'] = strip(do_run(A, u0, t0, Tend))
    poison(A, rng)
    out['same_poisoned'] = strip(do_run(A, u0, t0, Tend, want_snap=True))
    # diagnosis runs: undo by hand the two pieces of state run() is known not to re-initialise
    if c['guess'] == 'random' or 'EstimateExtrapolationErrorNonMPI' in c['ccs'] or (c.get('QI') in KDEP_QI and c.get('nsweeps', 1) > 1):
        reseed(A)
        cc_reset(A)
        repair_qi(A)
        out['same_repaired'] = strip(do_run(A, u0, t0, Tend))
    # re-entrant: a different run in between (other interval / other initial value), then the original again
    blocks = blocks_of(base['steps'], c['P'])
    t_other = unhex(sc['t_other'])
    T_other = unhex(sc['T_other'])
    u_other = initial_value(A, sc['scale'] * 0.5 + 0.25)
    mid = do_run(A, u_other, t_other, T_other)
    out['other'] = strip(mid)
    out['same_after_other'] = strip(do_run(A, u0, t0, Tend))
    # the "other" run on a fresh controller, for comparison with the one executed on the used controller
    D, _, _ = make_controller(c)
    out['other_fresh'] = strip(do_run(D, initial_value(D, sc['scale'] * 0.5 + 0.25), t_other, T_other))
    # splits at every block boundary (only meaningful for fixed-step runs)
    out['splits'] = []
    if c['fixed_step'] and len(blocks) >= 2:
        for k in range(1, len(blocks)):
            tk = max(unhex(s[3]) for s in blocks[k - 1])
            E, _, _ = make_controller(c)
            r1 = do_run(E, initial_value(E, sc['scale']), t0, tk)
            ent = {'k': k, 'tk': fhex(tk), 'first': strip(r1)}
            if r1['error'] is None:
                uk = r1['_uend_obj']
                F, _, _ = make_controller(c)
                ent['second_fresh'] = strip(do_run(F, uk, tk, Tend))
                ent['second_same'] = strip(do_run(E, uk, tk, Tend))
            out['splits'].append(ent)
    return out


def scenario_alone(sc):
    """One controller, a list of runs (each run on the same controller)."""
    c = sc['cfg']
    A, _, _ = make_controller(c)
    out = {'runs': [], 'class_state': class_state()}
    for r in sc['runs']:
        u0 = initial_value(A, r['scale'])
        out['runs'].append(strip(do_run(A, u0, unhex(r['t0']), unhex(r['Tend']))))
    out['class_state_after'] = class_state()
    return out


def class_state():
    """Process-global (class-level) state of pySDC that outlives controllers."""
    from pySDC.core import step as stepmod, level as levelmod
    from pySDC.implementations.hooks.log_solution import LogToPickleFile, LogToFile
    return {'step_status_attrs': sorted(stepmod._Status.attrs), 'level_status_attrs': sorted(levelmod._Status.attrs),
            'pickle_counter': LogToPickleFile.counter, 'logtofile_counter': LogToFile.counter}


def scenario_interleave(sc):
    """Several differently configured controllers alive in one process; runs interleaved by `schedule`
    (list of [controller index, run index]); creation order given by `create_order`."""
    ctrls = {}
    out = {'runs': {}, 'class_state_start': class_state()}
    created = []
    for ev in sc['events']:
        if ev[0] == 'create':
            i = ev[1]
            ctrls[i], _, _ = make_controller(sc['cfgs'][i])
            created.append(i)
        else:
            _, i, j = ev
            r = sc['runs'][i][j]
            u0 = initial_value(ctrls[i], r['scale'])
            out['runs']['%d:%d' % (i, j)] = strip(do_run(ctrls[i], u0, unhex(r['t0']), unhex(r['Tend'])))
    out['class_state_end'] = class_state()
    return out


def scenario_pickle(sc):
    """LogToPickleFile: file names written by a controller alone vs with another controller alive."""
    import os
    from pySDC.implementations.hooks.log_solution import LogToPickleFile
    LogToPickleFile.path = sc['path']
    os.makedirs(sc['path'], exist_ok=True)
    out = {'files': []}
    ctrls = {}
    for ev in sc['events']:
        if ev[0] == 'create':
            c = sc['cfgs'][ev[1]]
            desc = build_description(c)
            hooks = [LogToPickleFile, rec_hook()]
            ctrls[ev[1]], _, _ = make_controller(c, desc=desc, cparams={'logger_level': 50, 'hook_class': hooks, 'dump_setup': False,
                                                                        'mssdc_jac': c['mssdc_jac'], 'all_to_done': c['all_to_done']})
        else:
            _, i, j = ev
            r = sc['runs'][i][j]
            before = set(os.listdir(sc['path']))
            cnt0 = LogToPickleFile.counter
            rec = do_run(ctrls[i], initial_value(ctrls[i], r['scale']), unhex(r['t0']), unhex(r['Tend']))
            after = set(os.listdir(sc['path']))
            out['files'].append({'run': [i, j], 'new': sorted(after - before), 'counter_before': cnt0, 'counter_after': LogToPickleFile.counter,
                                 'error': rec['error'], 'nsteps': len(rec['steps'])})
    return out


def apply_edit(c, desc, cpar, edit):
    """The user's one-key change between two controllers built from the same dict objects.
    Returns the configuration B the edited dicts describe."""
    cb = json.loads(json.dumps(c))
    kind = edit[0]
    if kind == 'quad':
        desc['sweeper_params']['quad_type'] = edit[1]
        cb['quad'] = edit[1]
    elif kind == 'guess':
        desc['sweeper_params']['initial_guess'] = edit[1]
        cb['guess'] = edit[1]
    elif kind == 'drop_ccs':
        desc.pop('convergence_controllers', None)
        cb['ccs'] = []
        cb['fixed_step'] = True
    elif kind == 'sweeper':
        cb['sweeper'] = edit[1]
        cb['family'] = 'sdc'
        fresh_b = build_description(cb)
        desc['sweeper_class'] = fresh_b['sweeper_class']
        # what the user has to add for the new sweeper; everything else stays as it is in the shared dict
        desc['sweeper_params'].update(fresh_b['sweeper_params'])
    elif kind == 'dt':
        desc['level_params']['dt'] = edit[1]
        cb['dt'] = edit[1]
    elif kind == 'maxiter':
        desc['step_params']['maxiter'] = edit[1]
        cb['maxiter'] = edit[1]
    elif kind == 'none':
        pass
    return cb


def scenario_shared(sc):
    """Composability of caller-owned dicts: B built from the SAME description / controller_params objects
    that were used for controller A before (one key changed by the user)  vs  B built from fresh dicts
    before anything else happened in the process."""
    ca = sc['cfg']
    out = {}
    t0, Tend = unhex(sc['t0']), unhex(sc['Tend'])
    # expected: configuration B from brand-new dicts in a clean process state
    cb_expected = apply_edit(ca, build_description(ca), build_cparams(ca), sc['edit'])
    Bf, _, _ = make_controller(cb_expected)
    out['B_fresh'] = strip(do_run(Bf, initial_value(Bf, sc['scale']), t0, Tend))
    out['B_fresh_hooks'] = [type(h).__name__ for h in Bf.hooks]
    # A from dict objects X, Y
    X, Y = build_description(ca), build_cparams(ca)
    user_hooks = list(Y['hook_class'])
    watch = DictWatch(X, Y)
    A, _, _ = make_controller(ca, desc=X, cparams=Y)
    watch.check('construction')
    out['A'] = strip(do_run(A, initial_value(A, sc['scale']), t0, Tend))
    out['dict_changes'] = watch.check('run')
    # the user changes one key and builds B from the same objects (hook list: what the user passed originally
    # if 'reset_hook_list', else whatever the dict holds now)
    if sc.get('reset_hook_list'):
        Y['hook_class'] = user_hooks
    apply_edit(ca, X, Y, sc['edit'])
    Bs, _, _ = make_controller(cb_expected, desc=X, cparams=Y)
    out['B_shared'] = strip(do_run(Bs, initial_value(Bs, sc['scale']), t0, Tend))
    out['B_shared_hooks'] = [type(h).__name__ for h in Bs.hooks]
    out['cfg_B'] = cb_expected
    out['do_coll_update'] = [bool(Bf.MS[0].levels[0].sweep.params.do_coll_update), bool(Bs.MS[0].levels[0].sweep.params.do_coll_update)]
    return out


def _mat_diff(A, B):
    """Bitwise comparison of two dense matrices: None if identical, else max abs difference + first differing entry."""
    import numpy as np
    if A.shape == B.shape and A.tobytes() == B.tobytes():
        return None
    if A.shape != B.shape:
        return {'shape': [list(A.shape), list(B.shape)]}
    idx = np.argwhere(A != B)
    i, j = (int(x) for x in idx[0])
    return {'max_abs_diff': float(np.abs(A - B).max()), 'n_entries_differ': int(len(idx)), 'entry': [i, j],
            'first': float(A[i, j]).hex(), 'other': float(B[i, j]).hex()}


def scenario_transfer(sc):
    """Fresh-controller reruns of 2-level configurations with mesh_to_mesh of a given order: `nfresh` controllers
    built from brand-new descriptions; their space-transfer matrices and their runs must be bit-identical.
    Plus the helper itself: repeated interpolation_matrix_1d / restriction_matrix_1d calls."""
    import numpy as np
    from pySDC.helpers.transfer_helper import interpolation_matrix_1d, restriction_matrix_1d
    out = {'cfgs': []}
    n = sc.get('nfresh', 4)
    for c in sc['cfgs']:
        ent = {'cfg': c, 'runs': [], 'matrix_diffs': []}
        mats0 = None
        for q in range(n):
            A, _, _ = make_controller(c)
            st = A.MS[0].base_transfer.space_transfer
            mats = {'Pspace': np.asarray(st.Pspace.toarray(), dtype=float), 'Rspace': np.asarray(st.Rspace.toarray(), dtype=float)}
            if mats0 is None:
                mats0 = mats
            else:
                for name in ('Pspace', 'Rspace'):
                    d = _mat_diff(mats0[name], mats[name])
                    if d is not None:
                        ent['matrix_diffs'].append(dict(d, matrix=name, controllers=[0, q]))
            ent['runs'].append(strip(do_run(A, initial_value(A, sc['scale']), unhex(sc['t0']), unhex(sc['t0']) + sc['nsteps'] * c['dt'])))
        out['cfgs'].append(ent)
    out['helper'] = []
    for h in sc['helper']:
        nf, k, periodic, nested = h['nfine'], h['k'], h['periodic'], h['equidist_nested']
        if periodic:
            fine, coarse = np.linspace(0, 1, nf, endpoint=False), np.linspace(0, 1, nf // 2, endpoint=False)
        else:
            fine, coarse = np.linspace(0, 1, nf + 2)[1:-1], np.linspace(0, 1, (nf + 1) // 2 + 1)[1:-1]
        ent = {'call': h, 'diffs': []}
        for fname, fn in (('interpolation_matrix_1d', interpolation_matrix_1d), ('restriction_matrix_1d', restriction_matrix_1d)):
            Ms = [np.asarray(fn(fine, coarse, k=k, periodic=periodic, **({'equidist_nested': nested} if fname.startswith('interp') else {})).toarray(), dtype=float)
                  for _ in range(n)]
            for q in range(1, n):
                d = _mat_diff(Ms[0], Ms[q])
                if d is not None:
                    ent['diffs'].append(dict(d, function=fname, calls=[0, q]))
        out['helper'].append(ent)
    return out


SCENARIOS = {'transfer': scenario_transfer, 'shared': scenario_shared, 'case': scenario_case, 'alone': scenario_alone, 'interleave': scenario_interleave, 'pickle': scenario_pickle}


def main():
    sc = json.load(sys.stdin)
    import logging
    logging.disable(logging.CRITICAL)
    import warnings
    warnings.filterwarnings('ignore')
    res = SCENARIOS[sc['kind']](sc)
    sys.stdout.write('\n@@C19RESULT@@' + json.dumps(res))


if __name__ == '__main__':
    main()
