"""Scripted runs of the REAL pySDC controller_nonMPI  (shared helper; owner: C07/C06 builder).

Purpose: drive the unmodified `pySDC.implementations.controller_classes.controller_nonMPI` through
arbitrary, *scripted* convergence / forced-stop / restart / step-size patterns and record everything the
controller does, in one totally ordered event list.  Nothing in /repo is edited or monkey-patched:

  * `ScriptedSweeper(generic_implicit)`: real `predict/update_nodes/compute_end_point` (recorded), and a
    `compute_residual` that performs the real computation and then *overwrites* `L.status.residual` with the
    value given by the script, so that `CheckConvergence.check_convergence` itself decides done-ness;
  * `ScalarProblem`: u' = lam*u on a 1-dof `mesh`;  `IdentityTransfer`: space transfer between equal meshes;
  * `ScriptedCC(ConvergenceController)` (control_order -50, i.e. before BasicRestarting=95, SpreadStepSizes=100,
    CheckConvergence=200): sets `S.status.force_done / force_continue / restart` and `L.status.dt_new`
    from the script inside `it_check`;
  * `RecordingHook(Hooks)`: every Hooks callback -> event with a snapshot of the step status;
  * `sys.monitoring` (PY_START on three code objects, observation only): the nested `send` / `recv`
    functions of `send_full` / `recv_full` (tag written / tag expected + tag found) and `Step.transfer`.

API
---
  Script(conv=..., force_done=..., force_cont=..., restart=..., dt_new=..., maxiter=None)
      tables are dicts keyed (block, slot, iter) -> bool  (restart: (block, slot) -> bool evaluated when the
      step is declared converged by CheckConvergence.check_convergence; dt_new: (block, slot) -> float);
      missing keys = False / None.  `block` counts calls of restart_block minus one... precisely: the
      number of `pre_step` callbacks seen so far for a step with status.first=True, minus one.
      Script.reads collects the (block, slot, iter) keys of `conv` that the implementation actually read.
      step_dt: (block, index of the step in controller.MS) -> float, assigned DIRECTLY to S.levels[*].params.dt in
      prepare_next_block after block `block` by `ScriptedDtCC` (control_order +150, i.e. after the step size spreading):
      lets the individual steps of one block have DIFFERENT step sizes.
  make_controller(num_procs, nlevels, maxiter, nsweeps, predict_type, mssdc_jac, all_to_done, dt,
                  num_nodes=2, lam=-1.0, extra_cc=None, controller_class=None, own_dt=False) -> (controller, Recorder)
      own_dt=True replaces BasicRestarting's step_size_spreader by `OwnDtSpreader`: every step takes ITS OWN
      level.status.dt_new (script.dt_new) as next step size, nothing is spread -> different step sizes inside a block.
  run_scripted(controller, rec, script, t0, Tend, u0=1.0, max_events=400000) -> Result
      (a run recording more than max_events events is aborted with outcome 'ScriptedRunaway')
      Result.events   list of tuples, see EVENT FORMAT
      Result.outcome  'ok' or the exception class name ('ControllerError', 'CommunicationError', ...)
      Result.error    str(exception) or None
      Result.uend, Result.stats, Result.u0_obj (the object passed to run), Result.steps (final status
      snapshot per step: dict(slot, stage, iter, done, prev_done, first, last, force_done, restart, tags, sweeps))
  encode_events(events) -> [int]   one exact integer per event, shared with Coq (Model/Controller.v `encode_trace`)

EVENT FORMAT (tuples; first entry is the kind)
  ('hook', name, slot, level, iter, stage, sweep, done, prev_done, info)    name in HOOK_NAMES; `info` is a dict
        with time, dt, residual, restart, first, last, block, u0 (id, float value), uend (id, float value or None),
        time0/dt0 (level 0), for post_step u = per level [node values..., uend], and for the pre_step of the first
        step of a block all_dt = [S.dt for all steps of the controller]
        (info is not part of the Coq-compared code); pre_comm/post_comm/pre_run/post_run/... are recorded
        with kind 'aux' and never compared
  ('predict', slot, level) ('sweep', slot, level, u0) ('resid', slot, level, stage, u0) ('endpt', slot, level, uend)
        u0 / uend = float value of level.u[0] at the call / of level.uend after the call (data tokens, not Coq-compared)
  ('send', slot, level, tag)                     tag = (level, iter, slot) as written by the code; always followed by
                                                 the 'endpt' event of the payload computed by the send
  ('recv', slot, level, expected_tag, found_tag, payload) found_tag None when the source level carries no tag;
                                                 payload = float value of source.uend that the receive copies
  ('transfer', slot, src_level, dst_level)
`slot` is S.status.slot of the step owning the object, `level` the level index.
"""
import sys

import numpy as np

from pySDC.core.convergence_controller import ConvergenceController
from pySDC.core.hooks import Hooks
from pySDC.core.problem import Problem
from pySDC.core.space_transfer import SpaceTransfer
from pySDC.core.step import Step
from pySDC.implementations.controller_classes.controller_nonMPI import controller_nonMPI
from pySDC.implementations.convergence_controller_classes.check_convergence import CheckConvergence
from pySDC.implementations.datatype_classes.mesh import mesh
from pySDC.implementations.sweeper_classes.generic_implicit import generic_implicit

HOOK_NAMES = ['pre_step', 'pre_predict', 'post_predict', 'pre_iteration', 'pre_sweep', 'post_sweep',
              'post_iteration', 'post_step']
AUX_NAMES = ['pre_setup', 'post_setup', 'pre_run', 'post_run', 'pre_comm', 'post_comm']
STAGES = ['SPREAD', 'PREDICT', 'IT_CHECK', 'IT_FINE', 'IT_DOWN', 'IT_COARSE', 'IT_UP', 'DONE']
RESTOL = 0.5


class Script:
    def __init__(self, conv=None, force_done=None, force_cont=None, restart=None, dt_new=None, step_dt=None):
        self.step_dt = step_dt or {}
        self.conv = conv or {}
        self.force_done = force_done or {}
        self.force_cont = force_cont or {}
        self.restart = restart or {}
        self.dt_new = dt_new or {}
        self.reads = []

    def residual(self, block, slot, it, level, stage):
        if level == 0 and stage == 'IT_CHECK':
            self.reads.append((block, slot, it))
            return 0.0 if self.conv.get((block, slot, it), False) else 1.0
        return 1.0


class _Ctx:
    """Per-process recording context (module global: survives dill.copy of steps, works with multiprocessing)."""

    def __init__(self):
        self.events = []
        self.script = Script()
        self.block = -1
        self.levels = {}     # id(level) -> (step, level_index)
        self.probs = {}
        self.on = False
        self.controller = None
        self.max_events = 400000     # runaway guard: a run recording more events raises ScriptedRunaway


CTX = _Ctx()


class ScriptedRunaway(RuntimeError):
    """Raised by the recording hook when a run exceeds CTX.max_events (e.g. a time loop that does not advance)."""


def _who(level):
    S, l = CTX.levels[id(level)]
    return S, l


class ScalarProblem(Problem):
    dtype_u = mesh
    dtype_f = mesh

    def __init__(self, lam=-1.0):
        super().__init__(init=(1, None, np.dtype('float64')))
        self._makeAttributeAndRegister('lam', localVars=locals(), readOnly=True)

    def eval_f(self, u, t):
        f = self.dtype_f(self.init)
        f[:] = self.lam * u
        return f

    def solve_system(self, rhs, factor, u0, t):
        me = self.dtype_u(self.init)
        me[:] = rhs / (1.0 - factor * self.lam)
        return me

    def u_exact(self, t):
        me = self.dtype_u(self.init)
        me[:] = np.exp(self.lam * t)
        return me


class IdentityTransfer(SpaceTransfer):
    def restrict(self, F):
        return self.coarse_prob.dtype_u(F)

    def prolong(self, G):
        return self.fine_prob.dtype_u(G)


class ScriptedSweeper(generic_implicit):
    def predict(self):
        if CTX.on:
            S, l = _who(self.level)
            CTX.events.append(('predict', S.status.slot, l))
        return super().predict()

    def update_nodes(self):
        if CTX.on:
            S, l = _who(self.level)
            CTX.events.append(('sweep', S.status.slot, l, _val(self.level.u[0])))
        return super().update_nodes()

    def compute_end_point(self):
        r = super().compute_end_point()
        if CTX.on:   # recorded after the computation so that the event carries the value (nothing else is recorded inside)
            S, l = _who(self.level)
            CTX.events.append(('endpt', S.status.slot, l, _val(self.level.uend)))
        return r

    def compute_residual(self, stage=''):
        super().compute_residual(stage=stage)
        if CTX.on:
            S, l = _who(self.level)
            CTX.events.append(('resid', S.status.slot, l, stage, _val(self.level.u[0])))
            self.level.status.residual = CTX.script.residual(CTX.block, S.status.slot, S.status.iter, l, stage)
        return None


class ScriptedCC(ConvergenceController):
    """Sets force flags / restart / dt_new from the script; runs before every built-in convergence controller."""

    def setup(self, controller, params, description, **kwargs):
        return {'control_order': -50, **super().setup(controller, params, description, **kwargs)}

    def get_new_step_size(self, controller, S, **kwargs):
        if not CTX.on:
            return
        v = CTX.script.dt_new.get((CTX.block, S.status.slot))
        if v is not None and CheckConvergence.check_convergence(S):
            for L in S.levels:
                L.status.dt_new = v

    def determine_restart(self, controller, S, **kwargs):
        if not CTX.on:
            return
        k = (CTX.block, S.status.slot, S.status.iter)
        if CTX.script.force_done.get(k, False):
            S.status.force_done = True
        if CTX.script.force_cont.get(k, False):
            S.status.force_continue = True
        if CTX.script.restart.get((CTX.block, S.status.slot), False) and CheckConvergence.check_convergence(S):
            S.status.restart = True


class ScriptedDtCC(ConvergenceController):
    """Assigns scripted step sizes to individual steps in prepare_next_block (after the spreading controller)."""

    def setup(self, controller, params, description, **kwargs):
        return {'control_order': +150, **super().setup(controller, params, description, **kwargs)}

    def prepare_next_block(self, controller, S, size, time, Tend, **kwargs):
        if not CTX.on:
            return
        v = CTX.script.step_dt.get((CTX.block, controller.MS.index(S)))
        if v is not None:
            for L in S.levels:
                L.params.dt = v


class OwnDtSpreader(ConvergenceController):
    """Drop-in for BasicRestarting's `step_size_spreader`: no spreading, every step keeps its own dt_new."""

    def setup(self, controller, params, description, **kwargs):
        return {'control_order': +100, **super().setup(controller, params, description, **kwargs)}

    def prepare_next_block(self, controller, S, size, time, Tend, MS=None, **kwargs):
        if MS is not None and S not in MS:
            return
        for L in S.levels:
            if L.status.dt_new is not None:
                L.params.dt = L.status.dt_new


def _val(x):
    if x is None:
        return None
    try:
        return float(np.real(np.asarray(x).ravel()[0]))
    except Exception:
        return None


class RecordingHook(Hooks):
    def _rec(self, name, step, level_number):
        if not CTX.on:
            return
        if len(CTX.events) > CTX.max_events:
            raise ScriptedRunaway('more than %d events recorded' % CTX.max_events)
        if name in AUX_NAMES:
            CTX.events.append(('aux', name, None if step is None else step.status.slot, level_number))
            return
        st = step.status
        if name == 'pre_step' and st.first:
            CTX.block += 1
        L = step.levels[level_number]
        L0 = step.levels[0]
        info = {'time': L.time, 'dt': L.dt, 'residual': L.status.residual, 'restart': st.get('restart'),
                'first': st.first, 'last': st.last, 'block': CTX.block,
                'u0': (id(L0.u[0]), _val(L0.u[0])), 'uend': (id(L0.uend), _val(L0.uend)),
                'time0': L0.time, 'dt0': L0.dt}
        if name == 'pre_step' and st.first and CTX.controller is not None:
            info['all_dt'] = [S.dt for S in CTX.controller.MS]
        if name == 'post_step':
            info['u'] = [[_val(x) for x in Lx.u] + [_val(Lx.uend)] for Lx in step.levels]
        CTX.events.append(('hook', name, st.slot, level_number, st.iter, st.stage, L.status.sweep,
                           bool(st.done), bool(st.prev_done), info))


def _mk(name):
    if name == 'post_comm':
        def f(self, step, level_number, add_to_stats=False):
            getattr(Hooks, name)(self, step, level_number, add_to_stats)
            self._rec(name, step, level_number)
    else:
        def f(self, step, level_number):
            getattr(Hooks, name)(self, step, level_number)
            self._rec(name, step, level_number)
    f.__name__ = name
    return f


for _n in HOOK_NAMES + AUX_NAMES:
    setattr(RecordingHook, _n, _mk(_n))


# ----------------------------------------------------------------------------- sys.monitoring observer

def _inner_code(code, name):
    for c in code.co_consts:
        if hasattr(c, 'co_name') and c.co_name == name:
            return c
    return None


_MON = {'installed': False, 'ok': False, 'why': ''}


def _tag(t):
    if t is None:
        return None
    try:
        return tuple(int(x) for x in t)
    except Exception:
        return ('bad', repr(t))


def install_observer(controller_class=controller_nonMPI):
    """Install PY_START monitors on controller.send_full.<send>, recv_full.<recv>, Step.transfer. Idempotent."""
    if _MON['installed']:
        return _MON['ok']
    _MON['installed'] = True
    mon = sys.monitoring
    send_code = _inner_code(controller_class.send_full.__code__, 'send')
    recv_code = _inner_code(controller_class.recv_full.__code__, 'recv')
    tr_code = Step.transfer.__code__
    if send_code is None or recv_code is None:
        _MON['why'] = 'nested send/recv functions not found in send_full/recv_full'
        return False
    tid = mon.PROFILER_ID
    try:
        mon.use_tool_id(tid, 'verif-scripted')
    except ValueError:
        tid = mon.DEBUGGER_ID
        mon.use_tool_id(tid, 'verif-scripted')

    def cb(code, off):
        if not CTX.on:
            return
        f = sys._getframe(1)
        loc = f.f_locals
        try:
            if code is send_code:
                S, l = _who(loc['source'])
                CTX.events.append(('send', S.status.slot, l, _tag(loc['tag'])))
            elif code is recv_code:
                S, l = _who(loc['target'])
                CTX.events.append(('recv', S.status.slot, l, _tag(loc['tag']), _tag(loc['source'].tag),
                                   _val(loc['source'].uend)))
            elif code is tr_code:
                S, ls = _who(loc['source'])
                _, lt = _who(loc['target'])
                CTX.events.append(('transfer', S.status.slot, ls, lt))
        except Exception as e:  # observer must never disturb the run
            CTX.events.append(('observer_error', repr(e)))

    mon.register_callback(tid, mon.events.PY_START, cb)
    for c in (send_code, recv_code, tr_code):
        mon.set_local_events(tid, c, mon.events.PY_START)
    _MON['ok'] = True
    return True


# ----------------------------------------------------------------------------- construction / running

class Recorder:
    def __init__(self, controller):
        self.controller = controller
        self.levels = {}
        for S in controller.MS:
            for l, L in enumerate(S.levels):
                self.levels[id(L)] = (S, l)


def make_controller(num_procs, nlevels, maxiter, nsweeps, predict_type=None, mssdc_jac=True, all_to_done=False,
                    dt=0.1, num_nodes=2, lam=-1.0, extra_cc=None, controller_class=None, scripted_cc=True,
                    extra_hooks=None, own_dt=False):
    nsweeps = list(nsweeps)
    assert len(nsweeps) == nlevels
    description = {
        'problem_class': ScalarProblem,
        'problem_params': {'lam': lam},
        'sweeper_class': ScriptedSweeper,
        'sweeper_params': {'quad_type': 'RADAU-RIGHT', 'num_nodes': [num_nodes] * nlevels if nlevels > 1 else num_nodes,
                           'QI': 'IE'},
        'level_params': {'dt': dt, 'restol': RESTOL, 'nsweeps': nsweeps if nlevels > 1 else nsweeps[0]},
        'step_params': {'maxiter': maxiter},
        'convergence_controllers': {},
    }
    if nlevels > 1:
        description['space_transfer_class'] = IdentityTransfer
        description['space_transfer_params'] = {}
    if scripted_cc:
        description['convergence_controllers'][ScriptedCC] = {}
        description['convergence_controllers'][ScriptedDtCC] = {}
    if own_dt:
        from pySDC.implementations.convergence_controller_classes.basic_restarting import BasicRestartingNonMPI
        description['convergence_controllers'][BasicRestartingNonMPI] = {'step_size_spreader': OwnDtSpreader}
    for k, v in (extra_cc or {}).items():
        description['convergence_controllers'][k] = v
    cparams = {'logger_level': 40, 'dump_setup': False, 'hook_class': [RecordingHook] + list(extra_hooks or []),
               'mssdc_jac': mssdc_jac, 'all_to_done': all_to_done, 'predict_type': predict_type}
    cls = controller_class or controller_nonMPI
    CTX.on = False
    controller = cls(num_procs=num_procs, controller_params=cparams, description=description)
    install_observer(controller_nonMPI)
    return controller, Recorder(controller)


class Result:
    pass


def snapshot_steps(controller):
    out = []
    for S in controller.MS:
        st = S.status
        out.append({'slot': st.slot, 'stage': st.stage, 'iter': st.iter, 'done': st.done, 'prev_done': st.prev_done,
                    'first': st.first, 'last': st.last, 'force_done': st.force_done, 'restart': st.get('restart'),
                    'tags': [_tag(L.tag) for L in S.levels], 'sweeps': [L.status.sweep for L in S.levels],
                    'time': S.time, 'dt': S.dt,
                    'u': [[_val(x) for x in Lx.u] + [_val(Lx.uend)] for Lx in S.levels]})
    return out


def run_scripted(controller, rec, script, t0, Tend, u0=1.0, max_events=400000):
    P = controller.MS[0].levels[0].prob
    u0_obj = P.dtype_u(P.init)
    u0_obj[:] = u0
    CTX.events = []
    CTX.script = script
    CTX.block = -1
    CTX.levels = rec.levels
    CTX.controller = controller
    CTX.max_events = max_events
    res = Result()
    res.u0_obj = u0_obj
    res.u0_val = _val(u0_obj)
    res.uend = None
    res.stats = None
    res.error = None
    CTX.on = True
    try:
        res.uend, res.stats = controller.run(u0=u0_obj, t0=t0, Tend=Tend)
        res.outcome = 'ok'
    except Exception as e:  # expected exceptions of the code under test are data here
        res.outcome = type(e).__name__
        res.error = str(e)[:300]
    finally:
        CTX.on = False
    res.events = CTX.events
    res.observer_ok = _MON['ok']
    res.steps = snapshot_steps(controller)
    return res


# ----------------------------------------------------------------------------- integer code shared with Coq

KIND = {'hook': 1, 'predict': 2, 'sweep': 3, 'resid': 4, 'endpt': 5, 'send': 6, 'recv': 7, 'transfer': 8}
HOOK_ID = {n: i for i, n in enumerate(HOOK_NAMES)}
STAGE_ID = {n: i for i, n in enumerate(STAGES)}
BASE = 64


def event_fields(e):
    """Small naturals (< BASE-1) describing one event; the kind (first) determines the arity."""
    k = e[0]
    if k == 'hook':
        _, name, slot, level, it, stage, sweep, done, pdone, _info = e
        return [1, HOOK_ID[name], slot, level, it, STAGE_ID.get(stage, 62), sweep if sweep is not None else 62,
                int(done), int(pdone)]
    if k in ('predict', 'sweep', 'endpt'):
        return [KIND[k], e[1], e[2]]
    if k == 'resid':
        return [4, e[1], e[2], STAGE_ID.get(e[3], 62)]
    if k == 'send':
        _, slot, level, tag = e
        return [6, slot, level, tag[0], tag[1], tag[2]]
    if k == 'recv':
        slot, level, tag, found = e[1], e[2], e[3], e[4]
        ft = [0, 0, 0, 0] if found is None else [1, found[0], found[1], found[2]]
        return [7, slot, level, tag[0], tag[1], tag[2]] + ft
    if k == 'transfer':
        return [8, e[1], e[2], e[3]]
    raise ValueError(e)


def compared(events):
    """Events that take part in the model correspondence (aux callbacks dropped)."""
    return [e for e in events if e[0] != 'aux']


def encode_event(e):
    acc = 0
    for f in event_fields(e):
        assert 0 <= f < BASE - 1, (e, f)
        acc = acc * BASE + (f + 1)
    return acc


def encode_events(events):
    """One integer per compared event: fold acc*64 + (field+1) over its fields (injective: no zero digit,
    the kind fixes the arity).  Same function as Model/Controller.v `encode_trace`."""
    return [encode_event(e) for e in compared(events)]


def show(e):
    if e[0] == 'hook':
        return '%s s%d L%d it%d %s sw%s d%d pd%d' % (e[1], e[2], e[3], e[4], e[5], e[6], e[7], e[8])
    return ' '.join(str(x) for x in e)
