"""Exact (fractions.Fraction) runs of the REAL controller_nonMPI on 1-3 levels, with a recording hook.

Used by C01 (converged value = collocation solution), C03 (reported residual = true defect, stopping
soundness) and C10 (FAS consistency).  Nothing in /repo is edited.
"""
import logging
from fractions import Fraction as F

import numpy as np

from pySDC.core.hooks import Hooks
from pySDC.core.space_transfer import SpaceTransfer
from harness import exact as ex


class ExactSpaceTransfer(SpaceTransfer):
    """restrict/prolong by rational matrices Rm (dc x df), Pm (df x dc); identity when dims agree and none given."""

    def __init__(self, fine_prob, coarse_prob, params):
        params = dict(params)
        self.Rm = params.pop('Rm', None)
        self.Pm = params.pop('Pm', None)
        super().__init__(fine_prob, coarse_prob, params)
        df, dc = fine_prob.init, coarse_prob.init
        if self.Rm is None:
            if df == dc:
                self.Rm = tuple(tuple(F(int(i == j)) for j in range(df)) for i in range(dc))
            else:   # averaging of neighbours / injection-like default
                self.Rm = tuple(tuple(F(1, 2) if j in (2 * i, 2 * i + 1) else F(0) for j in range(df)) for i in range(dc))
        if self.Pm is None:
            if df == dc:
                self.Pm = tuple(tuple(F(int(i == j)) for j in range(dc)) for i in range(df))
            else:
                self.Pm = tuple(tuple(F(1) if j == i // 2 else F(0) for j in range(dc)) for i in range(df))

    def _apply(self, Mx, v):
        if isinstance(v, ex.FracF2):
            r = ex.FracF2(len(Mx))
            r.a = self._apply(Mx, v.a)
            r.b = self._apply(Mx, v.b)
            return r
        return ex.FracVec([sum(F(a) * b for a, b in zip(row, v.v)) for row in Mx])

    def restrict(self, Fv):
        return self._apply(self.Rm, Fv)

    def prolong(self, G):
        return self._apply(self.Pm, G)


def snap_level(L):
    M = L.sweep.coll.num_nodes

    def vv(x):
        if x is None:
            return None
        if isinstance(x, ex.FracF2):
            return [list(x.a.v), list(x.b.v)]
        return list(x.v)
    return dict(u=[vv(L.u[m]) for m in range(M + 1)], f=[vv(L.f[m]) for m in range(M + 1)],
                tau=[vv(t) for t in L.tau], uend=vv(L.uend), residual=L.status.residual, time=L.time, dt=L.dt,
                sweep=L.status.sweep, updated=L.status.updated)


class Recorder(Hooks):
    """records every user callback with a snapshot of the level data"""
    log = None
    deep = True

    def _rec(self, name, step, level_number):
        L = step.levels[level_number] if level_number is not None else step.levels[0]
        e = dict(cb=name, slot=step.status.slot, level=level_number, iter=step.status.iter, stage=step.status.stage,
                 done=step.status.done, time=step.time, dt=step.dt, nlev=len(step.levels))
        if Recorder.deep:
            e['levels'] = [snap_level(l) for l in step.levels]
        else:
            e['residual'] = L.status.residual
        Recorder.log.append(e)

    def pre_run(self, step, level_number):
        super().pre_run(step, level_number); self._rec('pre_run', step, level_number)

    def pre_step(self, step, level_number):
        super().pre_step(step, level_number); self._rec('pre_step', step, level_number)

    def pre_predict(self, step, level_number):
        super().pre_predict(step, level_number); self._rec('pre_predict', step, level_number)

    def post_predict(self, step, level_number):
        super().post_predict(step, level_number); self._rec('post_predict', step, level_number)

    def pre_iteration(self, step, level_number):
        super().pre_iteration(step, level_number); self._rec('pre_iteration', step, level_number)

    def pre_sweep(self, step, level_number):
        super().pre_sweep(step, level_number); self._rec('pre_sweep', step, level_number)

    def post_sweep(self, step, level_number):
        super().post_sweep(step, level_number); self._rec('post_sweep', step, level_number)

    def post_iteration(self, step, level_number):
        super().post_iteration(step, level_number); self._rec('post_iteration', step, level_number)

    def post_step(self, step, level_number):
        super().post_step(step, level_number); self._rec('post_step', step, level_number)


def build_controller(cfg):
    """cfg keys: kind 'GI'|'IMEX', levels: list of dict(num_nodes, quad_type, node_type, dim, lam..., QI, QE),
    num_procs, maxiter, restol, residual_type, predict_type, mssdc_jac, nsweeps(list), initial_guess, dt, finter,
    Rm/Pm optional, do_coll_update, all_to_done"""
    from pySDC.implementations.controller_classes.controller_nonMPI import controller_nonMPI
    from pySDC.implementations.sweeper_classes.generic_implicit import generic_implicit
    from pySDC.implementations.sweeper_classes.imex_1st_order import imex_1st_order
    logging.disable(logging.CRITICAL)
    lv = cfg['levels']
    nl = len(lv)

    def per_level(key, default=None):
        vals = [l.get(key, default) for l in lv]
        return vals if nl > 1 else vals[0]
    if cfg['kind'] == 'GI':
        pclass, sclass = ex.DiagProb, generic_implicit
        pp = {'lam': per_level('lam'), 'c': per_level('c')}
        sp = {'QI': per_level('QI', 'IE')}
    elif cfg['kind'] == 'EXPL':
        from pySDC.implementations.sweeper_classes.explicit import explicit
        pclass, sclass = ex.DiagProb, explicit
        pp = {'lam': per_level('lam'), 'c': per_level('c')}
        sp = {'QE': per_level('QE', 'EE')}
    elif cfg['kind'] == 'MI':
        from pySDC.implementations.sweeper_classes.multi_implicit import multi_implicit
        pclass, sclass = ex.MultiDiagProb, multi_implicit
        pp = {k: per_level(k) for k in ('lam1', 'c1', 'lam2', 'c2')}
        sp = {'Q1': per_level('Q1', 'IE'), 'Q2': per_level('Q2', 'IE')}
    elif cfg['kind'] == 'MASS':
        from pySDC.implementations.sweeper_classes.imex_1st_order_mass import imex_1st_order_mass
        pclass, sclass = ex.MassDiagProb, imex_1st_order_mass
        pp = {k: per_level(k) for k in ('lamI', 'cI', 'lamE', 'muE', 'cE', 'mass')}
        sp = {'QI': per_level('QI', 'IE'), 'QE': per_level('QE', 'EE')}
    else:
        pclass, sclass = ex.ImexDiagProb, imex_1st_order
        pp = {k: per_level(k) for k in ('lamI', 'cI', 'lamE', 'muE', 'cE')}
        sp = {'QI': per_level('QI', 'IE'), 'QE': per_level('QE', 'EE')}
    sp.update({'num_nodes': per_level('num_nodes'), 'quad_type': per_level('quad_type', 'RADAU-RIGHT'),
               'node_type': per_level('node_type', 'LEGENDRE'), 'initial_guess': cfg.get('initial_guess', 'spread'),
               'do_coll_update': cfg.get('do_coll_update', False)})
    desc = dict(problem_class=pclass, problem_params=pp, sweeper_class=sclass, sweeper_params=sp,
                level_params={'dt': float(cfg['dt']), 'restol': cfg.get('restol', -1), 'nsweeps': cfg.get('nsweeps', 1),
                              'residual_type': cfg.get('residual_type', 'full_abs')},
                step_params={'maxiter': cfg.get('maxiter', 5)})
    if nl > 1:
        desc['space_transfer_class'] = ExactSpaceTransfer
        stp = {}
        if cfg.get('Rm') is not None:
            stp['Rm'], stp['Pm'] = cfg['Rm'], cfg['Pm']
        desc['space_transfer_params'] = stp
        desc['base_transfer_params'] = {'finter': cfg.get('finter', False)}
    cp = {'logger_level': 90, 'hook_class': [Recorder] + list(cfg.get('hooks', [])), 'mssdc_jac': cfg.get('mssdc_jac', True),
          'predict_type': cfg.get('predict_type', None), 'all_to_done': cfg.get('all_to_done', False)}
    C = controller_nonMPI(num_procs=cfg.get('num_procs', 1), controller_params=cp, description=desc)
    for S in C.MS:
        for L in S.levels:
            ex.exactify(L, dt=F(cfg['dt']), small=cfg.get('small_tables'))
            L.params.restol = F(cfg['restol']) if cfg.get('restol', -1) not in (-1, None) else L.params.restol
        td = S._Step__transfer_dict
        seen = set()
        for key, meth in td.items():
            bt = meth.__self__
            if id(bt) not in seen:
                seen.add(id(bt))
                if cfg.get('small_tables'):
                    bt.Pcoll = ex.small_rational(bt.Pcoll, cfg['small_tables'])
                    bt.Rcoll = ex.small_rational(bt.Rcoll, cfg['small_tables'])
                else:
                    bt.Pcoll = ex.frac_array(bt.Pcoll)
                    bt.Rcoll = ex.frac_array(bt.Rcoll)
    return C


class RunBudgetExceeded(Exception):
    pass


def run(cfg, u0, t0, Tend, deep=True, budget=30):
    """one exact run of the real controller; raises RunBudgetExceeded after `budget` seconds of wall time
    (exact rationals of a run that does not contract grow without bound)"""
    import signal

    def onalarm(signum, frame):
        raise RunBudgetExceeded('exact run exceeded %ss' % budget)
    C = build_controller(cfg)
    Recorder.log = []
    Recorder.deep = deep
    old = signal.signal(signal.SIGALRM, onalarm)
    signal.setitimer(signal.ITIMER_REAL, budget)
    try:
        uend, stats = C.run(u0=ex.FracVec(u0), t0=F(t0), Tend=F(Tend))
    finally:
        signal.setitimer(signal.ITIMER_REAL, 0)
        signal.signal(signal.SIGALRM, old)
    log = Recorder.log
    Recorder.log = None
    return C, uend, stats, log


# ------------------------------------------------------------------------------------------------ exact oracles

def gauss_solve(A, b):
    n = len(A)
    A = [list(map(F, r)) + [F(x)] for r, x in zip(A, b)]
    for i in range(n):
        p = next(r for r in range(i, n) if A[r][i] != 0)
        A[i], A[p] = A[p], A[i]
        piv = A[i][i]
        A[i] = [x / piv for x in A[i]]
        for r in range(n):
            if r != i and A[r][i] != 0:
                fct = A[r][i]
                A[r] = [x - fct * y for x, y in zip(A[r], A[i])]
    return [A[i][n] for i in range(n)]


def collocation_scalar(Q, nodes, dt, t0, lam, c, u0, tau=None):
    """solve U_m = u0 + dt sum_j Q[m,j] (lam U_j + c t_j) + tau_m  for m=1..M (Q zero-padded (M+1)x(M+1))"""
    M = len(nodes)
    A = [[(F(int(i == j)) - dt * Q[i + 1][j + 1] * lam) for j in range(M)] for i in range(M)]
    b = [u0 + dt * sum(Q[i + 1][j + 1] * c * (t0 + dt * nodes[j]) for j in range(M)) + (tau[i] if tau else 0) for i in range(M)]
    return gauss_solve(A, b)


def inv_norm_inf(Q, M, dt, lam):
    """|| (I - dt*lam*Q)^-1 ||_inf computed exactly"""
    cols = []
    A = [[(F(int(i == j)) - dt * Q[i + 1][j + 1] * lam) for j in range(M)] for i in range(M)]
    for k in range(M):
        cols.append(gauss_solve(A, [F(int(i == k)) for i in range(M)]))
    return max(sum(abs(cols[k][i]) for k in range(M)) for i in range(M))
