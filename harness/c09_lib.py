"""Helpers for C09: scripted fault injection into the REAL controller_nonMPI and trace recording.

`run_scripted(cfg, script)` builds a real `controller_nonMPI` (testequation0d, generic_implicit, single
level, block Gauss-Seidel MSSDC) with the real BasicRestartingNonMPI / SpreadStepSizesBlockwiseNonMPI /
CheckConvergence and (optionally) the real Adaptivity + StepSizeLimiter + StepSizeSlopeLimiter, plus

  * `Scripted`, a ConvergenceController at control_order -60 (after EstimateEmbeddedError at -80, before
    Adaptivity at -50) which at block attempt a, iteration k, slot s overwrites the embedded error
    estimate, optionally sets `dt_new` directly and optionally requests a restart;
  * a recording hook (pre_step / post_step) which snapshots time, dt, restart counter, restart flag,
    error estimate, dt_new and identity tokens of u[0] / uend.

Nothing of pySDC is patched.
"""
import logging

import numpy as np


class Script:
    """Fault script: entries keyed by (attempt, iter, slot).

    entry = dict(restart=bool, err=float|None, dtn=float|None).
    `default_err(attempt, slot)` supplies the final-iteration error estimate where no entry exists."""

    def __init__(self, entries=None, default_err=None):
        self.entries = dict(entries or {})
        self.default_err = default_err if default_err is not None else 1e-9

    def lookup(self, attempt, it, slot):
        e = self.entries.get((attempt, it, slot))
        out = {'restart': False, 'err': self.default_err, 'dtn': None}
        if e:
            out.update({k: v for k, v in e.items() if v is not None or k == 'dtn'})
        return out


def build_controller(cfg, script, rec):
    """Returns (controller, uinit). `rec` is a dict that receives the recorded events."""
    from pySDC.core.convergence_controller import ConvergenceController
    from pySDC.core.hooks import Hooks
    from pySDC.implementations.controller_classes.controller_nonMPI import controller_nonMPI
    from pySDC.implementations.convergence_controller_classes.adaptivity import Adaptivity
    from pySDC.implementations.convergence_controller_classes.basic_restarting import BasicRestarting
    from pySDC.implementations.convergence_controller_classes.spread_step_sizes import SpreadStepSizesBlockwise
    from pySDC.implementations.convergence_controller_classes.step_size_limiter import StepSizeLimiter
    from pySDC.implementations.problem_classes.TestEquation_0D import testequation0d
    from pySDC.implementations.sweeper_classes.generic_implicit import generic_implicit

    adapt = cfg.get('adapt', True)
    tokens = rec.setdefault('tokens', {})
    rec.setdefault('events', [])
    rec['attempt'] = -1

    def tok(u):
        if u is None:
            return -1
        b = np.asarray(u).tobytes()
        if b not in tokens:
            tokens[b] = len(tokens)
        return tokens[b]

    class Scripted(ConvergenceController):
        def setup(self, controller, params, description, **kwargs):
            return {'control_order': -60, **super().setup(controller, params, description, **kwargs)}

        def setup_status_variables(self, controller, **kwargs):
            # present whether or not an error estimator is loaded
            self.add_status_variable_to_level('error_embedded_estimate')

        def reset_status_variables(self, controller, **kwargs):
            rec['attempt'] += 1

        def post_iteration_processing(self, controller, S, **kwargs):
            e = script.lookup(rec['attempt'], S.status.iter, S.status.slot)
            L = S.levels[0]
            L.status.error_embedded_estimate = e['err']
            if e['dtn'] is not None:
                L.status.dt_new = e['dtn']

        def determine_restart(self, controller, S, **kwargs):
            e = script.lookup(rec['attempt'], S.status.iter, S.status.slot)
            if e['restart']:
                S.status.restart = True

    class Recorder(Hooks):
        def pre_step(self, step, level_number):
            super().pre_step(step, level_number)
            L = step.levels[0]
            rec['events'].append(('pre', rec['attempt'], int(step.status.slot), float(L.time), float(L.dt),
                                  int(step.status.restarts_in_a_row), tok(L.u[0]),
                                  bool(step.status.first), bool(step.status.last)))

        def post_step(self, step, level_number):
            super().post_step(step, level_number)
            L = step.levels[0]
            dtn = L.status.dt_new
            rec['events'].append(('post', rec['attempt'], int(step.status.slot), float(L.time), float(L.dt),
                                  int(step.status.iter), bool(step.status.restart),
                                  None if L.status.error_embedded_estimate is None else float(L.status.error_embedded_estimate),
                                  None if dtn is None else float(dtn),
                                  int(step.status.restarts_in_a_row), tok(L.u[0]), tok(L.uend)))

    level_params = {'dt': cfg['dt0'], 'restol': -1.0}
    sweeper_params = {'quad_type': 'RADAU-RIGHT', 'num_nodes': 2, 'QI': 'IE'}
    problem_params = {'lambdas': np.array([complex(cfg.get('lam', -1.0), 0.0)]), 'u0': 1.0 + 0.0j}
    step_params = {'maxiter': cfg['maxiter']}
    cc = {}
    cc[BasicRestarting.get_implementation(useMPI=False)] = {
        'max_restarts': cfg['max_restarts'],
        'crash_after_max_restarts': bool(cfg['crash']),
        'restart_from_first_step': bool(cfg['rffs']),
    }
    if 'overwrite_to_reach_Tend' in cfg:
        cc[SpreadStepSizesBlockwise.get_implementation(useMPI=False)] = {
            'overwrite_to_reach_Tend': bool(cfg['overwrite_to_reach_Tend'])}
    lim = {k: cfg[k] for k in ('dt_min', 'dt_max', 'dt_slope_min', 'dt_slope_max', 'dt_rel_min_slope') if k in cfg}
    if adapt:
        cc[Adaptivity] = {'e_tol': cfg['e_tol'], 'beta': cfg.get('beta', 0.9), **lim}
    elif lim:
        cc[StepSizeLimiter] = dict(lim)
    cc[Scripted] = {}
    controller_params = {'logger_level': 90, 'hook_class': [Recorder], 'mssdc_jac': False, 'dump_setup': False}
    description = {
        'problem_class': testequation0d, 'problem_params': problem_params,
        'sweeper_class': generic_implicit, 'sweeper_params': sweeper_params,
        'level_params': level_params, 'step_params': step_params,
        'convergence_controllers': cc,
    }
    controller = controller_nonMPI(num_procs=cfg['num_procs'], controller_params=controller_params, description=description)
    P = controller.MS[0].levels[0].prob
    return controller, P.u_exact(cfg.get('t0', 0.0))


def control_order_table(controller):
    """[(class name, control_order)] in call order."""
    return [(type(controller.convergence_controllers[i]).__name__,
             int(controller.convergence_controllers[i].params.control_order))
            for i in controller.convergence_controller_order]


def run_scripted(cfg, script, max_attempts=120):
    """Run the real controller under the fault script.  Returns a dict:
    blocks: list of {'pre': [per active slot ...], 'post': [...]}, outcome: 'done' | exception class name,
    order: control-order table, uend token."""
    from pySDC.core.errors import ConvergenceError
    logging.disable(logging.CRITICAL)
    rec = {}
    controller, uinit = build_controller(cfg, script, rec)
    order = control_order_table(controller)

    class TooLong(Exception):
        pass

    # bound the number of attempts (a run that never reaches Tend would otherwise spin)
    orig = script.lookup

    def guarded(attempt, it, slot):
        if attempt >= max_attempts:
            raise TooLong()
        return orig(attempt, it, slot)
    script.lookup = guarded
    outcome = 'done'
    uend_tok = None
    msg = ''
    try:
        uend, stats = controller.run(u0=uinit, t0=cfg.get('t0', 0.0), Tend=cfg['Tend'])
        b = np.asarray(uend).tobytes()
        uend_tok = rec['tokens'].get(b, -2)
    except ConvergenceError as e:
        outcome = 'ConvergenceError'
        msg = str(e)
    except TooLong:
        outcome = 'TooLong'
    except Exception as e:          # anything else the real code raises is reported with this input
        outcome = 'other:' + type(e).__name__
        msg = str(e)[:300]
    finally:
        script.lookup = orig
        logging.disable(logging.NOTSET)
    blocks = {}
    for ev in rec['events']:
        a = ev[1]
        blocks.setdefault(a, {'pre': [], 'post': []})[ev[0]].append(ev[2:])
    nb = (max(blocks) + 1) if blocks else 0
    out = [blocks.get(a, {'pre': [], 'post': []}) for a in range(nb)]
    attempts = rec['attempt'] + 1
    if outcome == 'TooLong':
        attempts = max_attempts      # the truncated last attempt is not part of the compared trace
    return {'blocks': out, 'outcome': outcome, 'msg': msg, 'order': order, 'uend': uend_tok,
            'attempts': attempts}


# ----------------------------------------------------------------------------- Coq side of the tie
import math

STAGE = {'Scripted': 'SScripted', 'Adaptivity': 'SAdapt', 'StepSizeSlopeLimiter': 'SSlope',
         'StepSizeLimiter': 'SLimit', 'BasicRestartingNonMPI': 'SRestart'}
TEN_EPS = 10 * float(np.finfo(float).eps)


def cfloat(x):
    """Coq PrimFloat literal (exact, hexadecimal)."""
    x = float(x)
    if math.isinf(x):
        return 'infinity' if x > 0 else 'neg_infinity'
    if math.isnan(x):
        return 'nan'
    h = x.hex()
    return '(%s)%%float' % h


def copt(x):
    return 'None' if x is None else '(Some %s)' % cfloat(x)


def enc_float(x):
    """(class, mantissa, exponent) exactly as Model.ConvCtrl.f2dy prints a float."""
    x = float(x)
    if math.isnan(x):
        return (3, 0, 0)
    if math.isinf(x):
        return (1, 0, 0) if x > 0 else (2, 0, 0)
    if x == 0.0:
        return (0, 0, 0)
    m, e = math.frexp(x)
    return (0, int(m * 2 ** 53), e - 53)


def dec_float(t):
    c, m, e = t
    if c == 1:
        return math.inf
    if c == 2:
        return -math.inf
    if c == 3:
        return math.nan
    return math.ldexp(m, e)


def pow_factor(cfg, err):
    """(e_tol / e_est) ** (1.0 / order) exactly as AdaptivityBase.compute_optimal_step_size evaluates it
    (Python floats, order = S.status.iter = maxiter)."""
    if not cfg.get('adapt', True) or err is None or err == 0:
        return 1.0
    return (cfg['e_tol'] / err) ** (1.0 / cfg['maxiter'])


def coq_cfg(cfg, order):
    stages = [STAGE[n] for n, _ in order if n in STAGE]
    inf_none = lambda v: None if (v is None or math.isinf(v)) else v
    return ('(Cfg %s %d%%nat %s %s %s %s %s %s %s %s %s %s %s %s %s %s)' % (
        '[' + '; '.join(stages) + ']', cfg['max_restarts'],
        'true' if cfg['crash'] else 'false', 'true' if cfg['rffs'] else 'false',
        cfloat(cfg.get('e_tol', 1.0)), cfloat(cfg.get('beta', 0.9)),
        cfloat(cfg.get('dt_slope_min', 0.0)), copt(inf_none(cfg.get('dt_slope_max'))), cfloat(cfg.get('dt_rel_min_slope', 0.0)),
        cfloat(cfg.get('dt_min', 0.0)), copt(inf_none(cfg.get('dt_max'))),
        'true' if cfg.get('overwrite_to_reach_Tend', True) else 'false',
        cfloat(cfg['Tend']), cfloat(TEN_EPS), cfloat(1e9), cfloat(cfg['dt0'])))


def coq_case(cfg, script, res):
    """Coq term (cfg, t0, np, script) for one scripted run; tokens come from the recorded trace."""
    npr = cfg['num_procs']
    atts = []
    for a in range(res['attempts']):
        passes = []
        for it in range(cfg['maxiter'] + 1):
            row = []
            for s in range(npr):
                e = script.lookup(a, it, s)
                row.append('Inj %s %s %s %s' % ('true' if e['restart'] else 'false', cfloat(e['err']),
                                                cfloat(pow_factor(cfg, e['err'])), copt(e['dtn'])))
            passes.append('[' + '; '.join(row) + ']')
        blk = res['blocks'][a] if a < len(res['blocks']) else {'pre': [], 'post': []}
        u0 = {p[0]: p[8] for p in blk['post']}
        ue = {p[0]: p[9] for p in blk['post']}
        u0s = '[' + '; '.join('(%d)%%Z' % u0.get(s, -1) for s in range(npr)) + ']'
        ues = '[' + '; '.join('(%d)%%Z' % ue.get(s, -1) for s in range(npr)) + ']'
        atts.append('Attempt [%s] %s %s' % ('; '.join(passes), u0s, ues))
    return '(%s, %s, %d%%nat, [%s])' % (coq_cfg(cfg, res['order']), cfloat(cfg.get('t0', 0.0)), npr, ';\n    '.join(atts))


COQ_HEADER = ('From Coq Require Import ZArith List Bool PrimFloat.\n'
              'From PySDC Require Import Model.ConvCtrl.\nImport ListNotations.\n')


def coq_file(cases):
    """cases: list of Coq terms from coq_case."""
    return (COQ_HEADER + 'Definition cases : list (cfg float * float * nat * list (attempt float)) := [\n'
            + ';\n'.join(cases) + '\n].\nEval vm_compute in map run_float cases.\n')


def impl_view(res):
    """The real trace in the shape the model prints: (blocks, outcome)."""
    blocks = []
    nb = len(res['blocks'])
    for a, b in enumerate(res['blocks'][:res['attempts']]):
        pre = [(enc_float(p[1]), enc_float(p[2]), p[3]) for p in sorted(b['pre'])]
        post = [(p[4], (0, (0, 0, 0)) if p[6] is None else (1, enc_float(p[6]))) for p in sorted(b['post'])]
        if a + 1 < nb and res['blocks'][a + 1]['pre']:
            toks = {p[4] for p in res['blocks'][a + 1]['pre']}
            nxt = toks.pop() if len(toks) == 1 else -3
        elif res['outcome'] == 'done':
            nxt = res['uend']
        else:
            nxt = -1
        blocks.append((pre, post, nxt))
    if res['outcome'] == 'done':
        out = (0, res['uend'])
    elif res['outcome'] == 'ConvergenceError':
        out = (1, 0)
    elif res['outcome'] == 'TooLong':
        out = (2, 0)                 # the model runs out of script
    elif res['outcome'].startswith('other:'):
        out = (8, 0)
    else:
        out = (9, 0)
    return blocks, out


def model_view(val):
    """Normalise the parsed Coq value of one run."""
    trs, out = val
    blocks = []
    for ts, ds, rs, post, nxt in trs:      # Coq prints ((a, b, c), d, e) as a flat 5-tuple
        blocks.append(([(tuple(t), tuple(d), r) for (t, d, r) in zip(ts, ds, rs)],
                       [(bool(f), (k, tuple(d))) for (f, (k, d)) in post], nxt))
    return blocks, tuple(out)


def first_difference(impl, model):
    """None if equal, else a description of the first differing position."""
    (ib, io), (mb, mo) = impl, model
    for a in range(max(len(ib), len(mb))):
        if a >= len(ib) or a >= len(mb):
            return {'attempt': a, 'what': 'number of block attempts', 'impl': len(ib), 'model': len(mb)}
        (ipre, ipost, inx), (mpre, mpost, mnx) = ib[a], mb[a]
        if ipre != mpre:
            return {'attempt': a, 'what': 'pre_step (time, dt, restarts_in_a_row) per active slot',
                    'impl': [(dec_float(t), dec_float(d), r) for t, d, r in ipre],
                    'model': [(dec_float(t), dec_float(d), r) for t, d, r in mpre]}
        if io == (1, 0) and a == len(ib) - 1:
            # the real block raised: no post_step events; the model prints an empty post list
            if mpost != [] and mo != (1, 0):
                return {'attempt': a, 'what': 'implementation raised ConvergenceError, model did not'}
            continue
        if ipost != mpost:
            return {'attempt': a, 'what': 'post_step (restart flag, dt_new) per active slot',
                    'impl': [(f, dec_float(d) if k else None) for f, (k, d) in ipost],
                    'model': [(f, dec_float(d) if k else None) for f, (k, d) in mpost]}
        if inx != mnx:
            return {'attempt': a, 'what': 'token of the value the next block starts from', 'impl': inx, 'model': mnx}
    if io != mo:
        return {'attempt': len(ib), 'what': 'outcome', 'impl': io, 'model': mo}
    return None


# ----------------------------------------------------------------------------- implementation-side oracle
def _limit_py(x, dt, restart, P):
    """StepSizeSlopeLimiter then StepSizeLimiter on a proposal, re-evaluated with the operand types of the run."""
    if P.get('has_slope'):
        ratio = x / dt
        if ratio < P.get('dt_slope_min', 0):
            x = dt * P.get('dt_slope_min', 0)
        elif ratio > P.get('dt_slope_max', np.inf):
            x = dt * P.get('dt_slope_max', np.inf)
        elif abs(ratio - 1) < P.get('dt_rel_min_slope', 0) and not restart:
            x = dt
    if P.get('has_limit'):
        if x < P.get('dt_min', 0):
            x = P.get('dt_min', 0)
        elif x > P.get('dt_max', np.inf):
            x = P.get('dt_max', np.inf)
    return x


def oracle(blocks, outcome, uend_tok, P, own=None, proposal=None, requested=None):
    """Evaluate the clauses of C09 on a recorded trace of the real controller (no model involved).

    blocks[a] = {'pre': [(slot, time, dt, riar, u0tok, first, last)],
                 'post': [(slot, time, dt, iter, restart, err, dt_new, riar, u0tok, uendtok)]}
    P: max_restarts, crash, rffs, e_tol (or None), strict (accepted => err < tol, else err <= tol),
       beta, has_slope/has_limit + limiter values.
    own(a, i, post)      -> bool: does step i of attempt a ask for a restart on its own account (None: unknown)
    proposal(a, i, post) -> the unclipped proposal beta*dt*pw for that step, or None if not applicable
    requested(a, i)      -> bool: a restart was injected by a script for that step (not an error-based rejection)
    Returns a list of (clause, detail dict, match dict)."""
    bad = []
    nb = len(blocks)
    streak = 0
    for a, b in enumerate(blocks):
        pre = sorted(b['pre'])
        post = sorted(b['post'])
        if not pre:
            continue
        size = len(pre)
        # ---- D: all steps of a block share one step size
        dts = [p[2] for p in pre]
        if len(set(dts)) > 1:
            prev = sorted(blocks[a - 1]['post']) if a > 0 else []
            pf = [p[4] for p in prev]
            j = pf.index(True) if True in pf else None
            where = 'none' if j is None else ('first' if j == 0 else ('last' if j == len(pf) - 1 else 'middle'))
            bad.append(('block_shares_dt', {'attempt': a, 'times': [p[1] for p in pre], 'dts': dts,
                                            'previous_block_flags': pf, 'previous_block_dt_new': [p[6] for p in prev],
                                            'previous_block_times': [p[1] for p in prev], 'previous_block_dt': [p[2] for p in prev]},
                        {'kind': 'block_shares_dt', 'site': 'SpreadStepSizesBlockwiseNonMPI.prepare_next_block',
                         'restart_at': where}))
        # ---- H: the run never goes back in time
        if a + 1 < nb and blocks[a + 1]['pre']:
            t_next = sorted(blocks[a + 1]['pre'])[0][1]
            if t_next < pre[0][1]:
                bad.append(('progress', {'attempt': a, 'start': pre[0][1], 'next_start': t_next}, {'kind': 'progress'}))
        if len(post) != size:
            if a != nb - 1 or outcome not in ('ConvergenceError', 'TooLong'):
                bad.append(('trace', {'attempt': a, 'pre': size, 'post': len(post)}, {'kind': 'trace-shape'}))
            # the attempt that raised
            if outcome == 'ConvergenceError' and a == nb - 1:
                if not P['crash'] or pre[0][3] < P['max_restarts']:
                    bad.append(('retry_bound', {'attempt': a, 'what': 'ConvergenceError although the budget was not exhausted '
                                                'or crash_after_max_restarts is off', 'restarts_in_a_row': pre[0][3]},
                                {'kind': 'retry_bound', 'sub': 'early-raise'}))
            continue
        flags = [p[4] for p in post]
        exhausted = pre[0][3] >= P['max_restarts']
        # the first step really worked on the value the block was started from (e.g. InterpolateBetweenRestarts
        # must not alter u[0])
        if pre[0][4] != post[0][8]:
            bad.append(('restart_semantics', {'attempt': a, 'what': 'u[0] of the first step changed between pre_step and post_step',
                                              'token_pre': pre[0][4], 'token_post': post[0][8]},
                        {'kind': 'restart_semantics', 'sub': 'u0-modified'}))
        # ---- A: shape of the flags
        if P['rffs']:
            if len(set(flags)) > 1:
                bad.append(('restart_semantics', {'attempt': a, 'flags': flags, 'what': 'restart_from_first_step: flags differ'},
                            {'kind': 'flags', 'mode': 'rffs'}))
        else:
            if any(flags[i] and not flags[i + 1] for i in range(size - 1)):
                bad.append(('restart_semantics', {'attempt': a, 'flags': flags, 'what': 'a step after a restarted step is kept'},
                            {'kind': 'flags', 'mode': 'gs'}))
        # ---- C: retry budget
        if exhausted and any(flags):
            bad.append(('retry_bound', {'attempt': a, 'restarts_in_a_row': pre[0][3], 'flags': flags,
                                        'what': 'restarted although the first step was already restarted max_restarts times'},
                        {'kind': 'retry_bound', 'sub': 'exhausted-restart'}))
        streak = streak + 1 if flags[0] else 0
        if streak > P['max_restarts']:
            bad.append(('retry_bound', {'attempt': a, 'streak': streak, 'max_restarts': P['max_restarts']},
                        {'kind': 'retry_bound', 'sub': 'streak'}))
        # ---- own requests -> flags (restart iff), accepted => error below tolerance
        if own is not None:
            owns = [own(a, i, post[i]) for i in range(size)]
            if None not in owns:
                if exhausted:
                    exp = [False] * size
                elif P['rffs']:
                    exp = [any(owns)] * size
                else:
                    exp = [any(owns[:i + 1]) for i in range(size)]
                if exp != flags:
                    bad.append(('restart_iff', {'attempt': a, 'own_requests': owns, 'flags': flags, 'expected': exp,
                                                'errors': [p[5] for p in post], 'e_tol': P.get('e_tol')},
                                {'kind': 'restart_iff'}))
        if P.get('e_tol') is not None and not exhausted:
            for i, p in enumerate(post):
                if not p[4] and p[5] is not None and p[3] >= P.get('maxiter', 0):
                    over = (p[5] >= P['e_tol']) if P.get('strict', True) else (p[5] > P['e_tol'])
                    if over:
                        bad.append(('accepted_error_le_tol', {'attempt': a, 'slot': i, 'err': float(p[5]), 'e_tol': P['e_tol']},
                                    {'kind': 'accepted_error'}))
        # ---- F: proposal = formula, slope clip, absolute clip
        if proposal is not None:
            for i, p in enumerate(post):
                raw = proposal(a, i, p)
                if raw is None or p[6] is None:
                    continue
                cands = {float(_limit_py(raw, p[2], r, P)) for r in ((True, False) if (p[4] or exhausted) else (False,))}
                if float(p[6]) not in cands:
                    bad.append(('proposal_formula', {'attempt': a, 'slot': i, 'dt': float(p[2]), 'err': None if p[5] is None else float(p[5]),
                                                     'unclipped': float(raw), 'dt_new': float(p[6]), 'expected': sorted(cands)},
                                {'kind': 'proposal'}))
        if P.get('has_limit'):
            lo, hi = P.get('dt_min', 0), P.get('dt_max', np.inf)
            for i, p in enumerate(post):
                if p[6] is not None and lo <= hi and not (lo <= p[6] <= hi):
                    bad.append(('clip_in_range', {'attempt': a, 'slot': i, 'dt_new': float(p[6]), 'dt_min': lo, 'dt_max': hi},
                                {'kind': 'clip'}))
        # ---- B: where and from what the next block starts; counter of the first slot
        j = flags.index(True) if True in flags else None
        if j is None:
            t_exp = post[-1][1] + post[-1][2]
            tok_exp = post[-1][9]
            r_exp = 0
        else:
            t_exp = post[j][1]
            tok_exp = post[j][8]
            r_exp = pre[0][3] + 1 if j == 0 else 1
        if a + 1 < nb and blocks[a + 1]['pre']:
            nxt = sorted(blocks[a + 1]['pre'])
            if nxt[0][1] != t_exp or any(q[4] != tok_exp for q in nxt):
                bad.append(('restart_semantics', {'attempt': a, 'flags': flags, 'first_restarted': j,
                                                  'expected_start': float(t_exp), 'actual_start': float(nxt[0][1]),
                                                  'expected_value_token': tok_exp, 'actual_value_tokens': [q[4] for q in nxt]},
                            {'kind': 'restart_semantics', 'sub': 'next-block-start'}))
            if nxt[0][3] != r_exp:
                bad.append(('retry_bound', {'attempt': a, 'flags': flags, 'counter_before': pre[0][3],
                                            'counter_after': nxt[0][3], 'expected': r_exp},
                            {'kind': 'retry_bound', 'sub': 'counter'}))
            # ---- G: a rejected step is retried with a smaller step
            if j is not None and own is not None and P.get('e_tol') is not None and not P['rffs']:
                pj = post[j]
                by_error = pj[5] is not None and pj[5] >= P['e_tol'] and not (requested and requested(a, j))
                if by_error and pj[6] is not None and P.get('beta', 0.9) < 1:
                    if not nxt[0][2] <= pj[6]:
                        bad.append(('rejected_gets_smaller', {'attempt': a, 'slot': j, 'dt_new': float(pj[6]), 'next_dt': float(nxt[0][2]),
                                                              'what': 'next step size exceeds the proposal of the rejected step'},
                                    {'kind': 'rejected', 'sub': 'spread'}))
                    lower_binds = (P.get('has_limit') and pj[6] == P.get('dt_min', 0)) or \
                                  (P.get('has_slope') and pj[6] == pj[2] * P.get('dt_slope_min', 0))
                    if not (pj[6] < pj[2] or lower_binds):
                        bad.append(('rejected_gets_smaller', {'attempt': a, 'slot': j, 'dt': float(pj[2]), 'dt_new': float(pj[6]),
                                                              'err': float(pj[5])},
                                    {'kind': 'rejected', 'sub': 'proposal'}))
        elif outcome == 'done' and a == nb - 1:
            if uend_tok != tok_exp:
                bad.append(('restart_semantics', {'attempt': a, 'what': 'value returned by run()', 'expected_token': tok_exp,
                                                  'actual': uend_tok}, {'kind': 'restart_semantics', 'sub': 'uend'}))
    return bad


def scripted_oracle(cfg, script, res):
    """The oracle for a scripted run: own requests and proposals are known from the script."""
    adapt = cfg.get('adapt', True)
    maxiter = cfg['maxiter']
    lim = [k for k in ('dt_min', 'dt_max', 'dt_slope_min', 'dt_slope_max', 'dt_rel_min_slope') if k in cfg]
    P = {'max_restarts': cfg['max_restarts'], 'crash': cfg['crash'], 'rffs': cfg['rffs'],
         'e_tol': cfg['e_tol'] if adapt else None, 'strict': True, 'beta': cfg.get('beta', 0.9), 'maxiter': maxiter,
         'has_limit': bool(lim), 'has_slope': any(k.startswith('dt_slope') or k == 'dt_rel_min_slope' for k in lim)}
    P.update({k: cfg[k] for k in lim})

    def requested(a, i):
        return any(script.lookup(a, it, i)['restart'] for it in range(maxiter + 1))

    def own(a, i, p):
        e = script.lookup(a, maxiter, i)
        return requested(a, i) or (adapt and e['err'] >= cfg['e_tol'])

    def proposal(a, i, p):
        if not adapt:
            return None
        e = script.lookup(a, maxiter, i)
        return cfg.get('beta', 0.9) * p[2] * (cfg['e_tol'] / e['err']) ** (1.0 / maxiter)

    blocks = res['blocks'][:res['attempts']] if res['outcome'] == 'TooLong' else res['blocks']
    if res['outcome'].startswith('other:'):
        return [('run_progress', {'what': 'the run raised %s: %s (neither finished nor ConvergenceError)' % (res['outcome'][6:], res['msg'])},
                 {'kind': 'unexpected-exception', 'type': res['outcome'][6:]})]
    bad = oracle(blocks, res['outcome'], res['uend'], P, own=own, proposal=proposal, requested=requested)
    # the raise itself: exactly when the budget is exhausted, crash is on and the first step asks again
    for a, b in enumerate(blocks):
        pre = sorted(b['pre'])
        if not pre:
            continue
        first_asks = own(a, 0, None)
        should = cfg['crash'] and pre[0][3] >= cfg['max_restarts'] and first_asks
        did = (res['outcome'] == 'ConvergenceError' and a == len(blocks) - 1)
        if should != did:
            bad.append(('retry_bound', {'attempt': a, 'restarts_in_a_row': pre[0][3], 'first_step_asks': first_asks,
                                        'raised': did, 'expected_raise': should},
                        {'kind': 'retry_bound', 'sub': 'raise-iff'}))
    # contract of ** used by rejected_gets_smaller
    if adapt:
        for (a, it, s), e in script.entries.items():
            if it == maxiter and e.get('err') is not None and e['err'] >= cfg['e_tol'] and pow_factor(cfg, e['err']) > 1.0:
                bad.append(('pow_contract', {'err': e['err'], 'e_tol': cfg['e_tol'], 'pw': pow_factor(cfg, e['err'])},
                            {'kind': 'pow'}))
    return bad


# ----------------------------------------------------------------------------- real adaptive runs
def run_real(spec, max_attempts=400):
    """Run the real controller_nonMPI with a real adaptive convergence controller and record the trace.

    spec: problem ('vdp' | 'lorenz' | 'test'), sweeper ('sdc' | RK sweeper name), adaptivity (class name),
          adaptivity_params, num_procs, maxiter, dt0, Tend, restol, restarting (params for BasicRestarting)."""
    import pySDC.implementations.convergence_controller_classes.adaptivity as adaptivity_mod
    from pySDC.core.convergence_controller import ConvergenceController
    from pySDC.core.errors import ConvergenceError
    from pySDC.core.hooks import Hooks
    from pySDC.implementations.controller_classes.controller_nonMPI import controller_nonMPI
    from pySDC.implementations.convergence_controller_classes.basic_restarting import BasicRestarting

    rec = {'events': [], 'tokens': {}, 'attempt': -1}
    tokens = rec['tokens']

    class TooLong(Exception):
        pass

    def tok(u):
        if u is None:
            return -1
        b = np.asarray(u).tobytes()
        if b not in tokens:
            tokens[b] = len(tokens)
        return tokens[b]

    class AttemptCounter(ConvergenceController):
        def setup(self, controller, params, description, **kwargs):
            return {'control_order': -500, **super().setup(controller, params, description, **kwargs)}

        def reset_status_variables(self, controller, **kwargs):
            rec['attempt'] += 1
            if rec['attempt'] > max_attempts:
                raise TooLong()

    class ErrProbe(ConvergenceController):
        # sits between the estimators (<= -75) and the adaptivity controllers (-50): remembers the estimate that
        # get_new_step_size sees at iteration maxiter (with avoid_restarts the step may go on iterating afterwards)
        def setup(self, controller, params, description, **kwargs):
            return {'control_order': -55, **super().setup(controller, params, description, **kwargs)}

        def post_iteration_processing(self, controller, S, **kwargs):
            if S.status.iter == S.params.maxiter:
                rec['err_at_maxiter'][(rec['attempt'], int(S.status.slot))] = estimate(S.levels[0])

    rec['err_at_maxiter'] = {}

    def estimate(L_):
        st = L_.status
        for key in spec.get('err_keys', ('error_embedded_estimate',)):
            v = st.get(key)
            if v is not None:
                return v
        return None

    class Recorder(Hooks):
        def pre_step(self, step, level_number):
            super().pre_step(step, level_number)
            L_ = step.levels[0]
            rec['events'].append(('pre', rec['attempt'], int(step.status.slot), L_.time, L_.dt,
                                  int(step.status.restarts_in_a_row), tok(L_.u[0]),
                                  bool(step.status.first), bool(step.status.last)))

        def post_step(self, step, level_number):
            super().post_step(step, level_number)
            L_ = step.levels[0]
            rec['events'].append(('post', rec['attempt'], int(step.status.slot), L_.time, L_.dt,
                                  int(step.status.iter), bool(step.status.restart), estimate(L_), L_.status.dt_new,
                                  int(step.status.restarts_in_a_row), tok(L_.u[0]), tok(L_.uend),
                                  {'residual': L_.status.residual, 'restol': L_.params.restol,
                                   'order': L_.status.get('order_embedded_estimate'),
                                   'force_done': bool(step.status.force_done),
                                   'err_at_maxiter': rec['err_at_maxiter'].get((rec['attempt'], int(step.status.slot)))}))

    if spec['problem'] == 'vdp':
        from pySDC.implementations.problem_classes.Van_der_Pol_implicit import vanderpol as prob
        pp = {'mu': spec.get('mu', 5.0), 'newton_tol': 1e-12, 'newton_maxiter': 99, 'u0': np.array([2.0, 0.0]),
              'crash_at_maxiter': False}
    elif spec['problem'] == 'lorenz':
        from pySDC.implementations.problem_classes.Lorenz import LorenzAttractor as prob
        pp = {'newton_tol': 1e-12, 'newton_maxiter': 99}
    else:
        from pySDC.implementations.problem_classes.TestEquation_0D import testequation0d as prob
        pp = {'lambdas': np.array([complex(spec.get('lam', -5.0), spec.get('lam_im', 0.0))]), 'u0': 1.0 + 0.0j}
    if spec['sweeper'] == 'sdc':
        from pySDC.implementations.sweeper_classes.generic_implicit import generic_implicit as sweeper
        sp = {'quad_type': 'RADAU-RIGHT', 'num_nodes': spec.get('num_nodes', 3), 'QI': spec.get('QI', 'IE')}
    else:
        import pySDC.implementations.sweeper_classes.Runge_Kutta as rk
        sweeper = getattr(rk, spec['sweeper'])
        sp = {}
    acls = getattr(adaptivity_mod, spec['adaptivity'])
    cc = {acls: dict(spec['adaptivity_params']), AttemptCounter: {}, ErrProbe: {}}
    if spec.get('restarting'):
        cc[BasicRestarting.get_implementation(useMPI=False)] = dict(spec['restarting'])
    description = {'problem_class': prob, 'problem_params': pp, 'sweeper_class': sweeper, 'sweeper_params': sp,
                   'level_params': {'dt': spec['dt0'], 'restol': spec.get('restol', -1.0)},
                   'step_params': {'maxiter': spec['maxiter']}, 'convergence_controllers': cc}
    controller_params = {'logger_level': 90, 'hook_class': [Recorder], 'mssdc_jac': False, 'dump_setup': False}
    logging.disable(logging.CRITICAL)
    outcome, msg, uend_tok = 'done', '', None
    info = {}
    try:
        controller = controller_nonMPI(num_procs=spec['num_procs'], controller_params=controller_params, description=description)
        info['order'] = control_order_table(controller)
        for C in controller.convergence_controllers:
            n = type(C).__name__
            if n == 'BasicRestartingNonMPI':
                info['restarting'] = {k: getattr(C.params, k) for k in ('max_restarts', 'crash_after_max_restarts', 'restart_from_first_step')}
            if n == spec['adaptivity']:
                info['adaptivity'] = {k: v for k, v in C.params.__dict__.items() if isinstance(v, (int, float, bool, str)) or v is None}
            if n in ('StepSizeLimiter', 'StepSizeSlopeLimiter'):
                info[n] = {k: v for k, v in C.params.__dict__.items() if k.startswith('dt_')}
        info['num_nodes'] = controller.MS[0].levels[0].sweep.coll.num_nodes
        P_ = controller.MS[0].levels[0].prob
        uend, stats = controller.run(u0=P_.u_exact(0.0), t0=0.0, Tend=spec['Tend'])
        uend_tok = tokens.get(np.asarray(uend).tobytes(), -2)
    except ConvergenceError as e:
        outcome, msg = 'ConvergenceError', str(e)
    except TooLong:
        outcome = 'TooLong'
    except Exception as e:      # e.g. the problem's Newton solver gives up: not a statement about C09
        outcome, msg = 'other:' + type(e).__name__, str(e)[:200]
    finally:
        logging.disable(logging.NOTSET)
    blocks = {}
    for ev in rec['events']:
        blocks.setdefault(ev[1], {'pre': [], 'post': []})[ev[0]].append(ev[2:])
    nb = (max(blocks) + 1) if blocks else 0
    return {'blocks': [blocks.get(a, {'pre': [], 'post': []}) for a in range(nb)], 'outcome': outcome, 'msg': msg,
            'uend': uend_tok, 'info': info, 'attempts': rec['attempt'] + 1}


def real_oracle(spec, res):
    """Clauses of C09 on the trace of a real adaptive run; parameters are read back from the live controller."""
    info = res['info']
    ad = info.get('adaptivity', {})
    rs = info.get('restarting', {})
    ap = spec['adaptivity_params']
    e_tol = ap['e_tol']
    beta = ap.get('beta', 0.9)
    converged_family = spec['adaptivity'] in ('AdaptivityPolynomialError', 'AdaptivityExtrapolationWithinQ')
    # the limits are the ones handed to the adaptivity controller (the documented way of configuring them);
    # AdaptivityBase.dependencies has to turn them into StepSizeLimiter (+ StepSizeSlopeLimiter for slope keys)
    abs_keys = [k for k in ('dt_min', 'dt_max') if k in ap]
    slope_keys = [k for k in ('dt_slope_min', 'dt_slope_max', 'dt_rel_min_slope') if k in ap]
    P = {'max_restarts': rs.get('max_restarts', 10), 'crash': rs.get('crash_after_max_restarts', True),
         'rffs': rs.get('restart_from_first_step', False), 'e_tol': e_tol, 'strict': not converged_family, 'beta': beta,
         'maxiter': 0 if converged_family else spec['maxiter'],
         'has_limit': bool(abs_keys or slope_keys), 'has_slope': bool(slope_keys)}
    P.update({k: ap[k] for k in abs_keys + slope_keys})
    bad0 = []
    names = [n for n, _ in info.get('order', [])]
    want = (['StepSizeLimiter'] if P['has_limit'] else []) + (['StepSizeSlopeLimiter'] if P['has_slope'] else [])
    missing = [n for n in want if n not in names]
    if info.get('order') is not None and missing:
        bad0.append(('clip_in_range', {'what': 'step-size limits were configured on the adaptivity controller but the controller did '
                                       'not load %s' % missing, 'limits': {k: ap[k] for k in abs_keys + slope_keys},
                                       'convergence_controllers': names},
                     {'kind': 'limiter-not-loaded', 'adaptivity': spec['adaptivity']}))
    for n, keys in (('StepSizeLimiter', abs_keys), ('StepSizeSlopeLimiter', slope_keys)):
        live = info.get(n, {})
        wrong = {k: (ap[k], live.get(k)) for k in keys if n in info and live.get(k) != ap[k]}
        if wrong:
            bad0.append(('clip_in_range', {'what': '%s carries other limits than configured' % n, '(configured, live)': wrong},
                         {'kind': 'limiter-params', 'adaptivity': spec['adaptivity']}))
    if names:
        pos = {n: names.index(n) for n in names}
        chain = [n for n in (spec['adaptivity'], 'StepSizeSlopeLimiter', 'StepSizeLimiter', 'BasicRestartingNonMPI') if n in pos]
        if [pos[n] for n in chain] != sorted(pos[n] for n in chain):
            bad0.append(('proposal_formula', {'what': 'call order is not adaptivity, slope limiter, absolute limiter, restarting',
                                              'convergence_controllers': info['order']}, {'kind': 'control_order', 'where': 'real'}))
    factor = ad.get('factor_if_not_converged', 4.0)

    def order_of(p):
        if spec['adaptivity'] == 'Adaptivity':
            return spec['maxiter']      # order = S.status.iter at the moment of the proposal (iter == maxiter)
        if spec['adaptivity'] == 'AdaptivityRK':
            return ad.get('update_order')
        if spec['adaptivity'] == 'AdaptivityPolynomialError':
            return p[10]['order']
        if spec['adaptivity'] == 'AdaptivityExtrapolationWithinQ':
            return info['num_nodes'] + 1 if ad.get('high_Taylor_order') else info['num_nodes']

    def own(a, i, p):
        if converged_family:
            return None
        return p[5] is not None and p[5] >= e_tol

    bad = list(bad0)

    def proposal(a, i, p):
        if p[5] is None or p[6] is None:
            return None
        if not converged_family:
            # Adaptivity / AdaptivityRK propose once, at iteration maxiter, from the estimate of that iteration
            e_m = p[10].get('err_at_maxiter')
            if e_m is None:
                return None
            return beta * p[2] * (e_tol / e_m) ** (1.0 / order_of(p))
        if converged_family and p[10].get('force_done'):
            return p[2] / factor          # trigger_restart_upon_nonconvergence: dt / factor_if_not_converged
        o = order_of(p)
        if o is None:
            return None
        return beta * p[2] * (e_tol / p[5]) ** (1.0 / o)

    blocks = res['blocks']
    if res['outcome'] == 'TooLong':
        blocks = blocks[:-1]
    bad += oracle(blocks, res['outcome'], res['uend'], P, own=own, proposal=proposal)
    # rejected steps of the converged-collocation family: retried with a smaller step as well
    if converged_family:
        for a, b in enumerate(blocks[:-1]):
            post, nxt = sorted(b['post']), sorted(blocks[a + 1]['pre'])
            if post and nxt and post[0][4] and post[0][6] is not None and beta < 1:
                low = (P['has_limit'] and post[0][6] == P.get('dt_min', 0)) or (P['has_slope'] and post[0][6] == post[0][2] * P.get('dt_slope_min', 0))
                if not (nxt[0][2] <= post[0][6] and (post[0][6] < post[0][2] or low)):
                    bad.append(('rejected_gets_smaller', {'attempt': a, 'dt': float(post[0][2]), 'dt_new': float(post[0][6]),
                                                          'next_dt': float(nxt[0][2])}, {'kind': 'rejected', 'sub': 'converged-family'}))
    if res['outcome'] not in ('done', 'ConvergenceError', 'TooLong') and not res['outcome'].startswith('other:'):
        bad.append(('run_progress', {'outcome': res['outcome']}, {'kind': 'progress', 'sub': 'outcome'}))
    return bad


def gen_real_spec(rng, kind):
    tol = 10 ** rng.uniform(-7, -3.5)
    if kind == 'embedded':
        prob = rng.choice(['vdp', 'lorenz', 'test'])
        spec = {'problem': prob, 'sweeper': 'sdc', 'adaptivity': 'Adaptivity', 'num_procs': rng.randint(1, 4),
                'maxiter': rng.randint(2, 4), 'dt0': rng.choice([0.01, 0.02, 0.05]),
                'Tend': {'vdp': rng.choice([0.6, 1.0, 1.5]), 'lorenz': rng.choice([0.3, 0.5]), 'test': rng.choice([1.0, 2.0])}[prob]}
        if prob == 'test':
            spec['lam'] = rng.choice([-1.0, -5.0, -20.0])
            spec['lam_im'] = rng.choice([0.0, 3.0])
        ap = {'e_tol': tol}
    elif kind == 'avoid':
        # Adaptivity(avoid_restarts=True): a step that misses the tolerance at maxiter may go on iterating
        spec = {'problem': 'vdp', 'sweeper': 'sdc', 'adaptivity': 'Adaptivity', 'num_procs': 1, 'maxiter': rng.choice([3, 4]),
                'dt0': rng.choice([0.01, 0.02]), 'num_nodes': rng.choice([3, 4]), 'QI': 'LU', 'mu': rng.choice([2.0, 5.0]),
                'Tend': rng.choice([0.5, 1.0])}
        tol = 10 ** rng.uniform(-8, -6)
        ap = {'e_tol': tol, 'avoid_restarts': True}
    elif kind == 'rk':
        prob = rng.choice(['vdp', 'lorenz'])
        spec = {'problem': prob, 'sweeper': rng.choice(['Cash_Karp', 'DIRK43', 'ESDIRK53', 'Heun_Euler']), 'adaptivity': 'AdaptivityRK',
                'num_procs': 1, 'maxiter': 1, 'dt0': rng.choice([0.01, 0.02]),
                'Tend': {'vdp': rng.choice([0.6, 1.0]), 'lorenz': rng.choice([0.3, 0.5])}[prob]}
        ap = {'e_tol': tol}
    elif kind == 'polynomial':
        prob = rng.choice(['vdp', 'lorenz', 'test'])
        spec = {'problem': prob, 'sweeper': 'sdc', 'adaptivity': 'AdaptivityPolynomialError', 'num_procs': 1, 'maxiter': 30,
                'dt0': rng.choice([0.01, 0.02, 0.05]), 'restol': 1e-8, 'num_nodes': rng.choice([2, 3]), 'QI': 'LU',
                'Tend': {'vdp': 0.6, 'lorenz': 0.3, 'test': 1.0}[prob]}
        ap = {'e_tol': tol, 'restol_rel': None, 'interpolate_between_restarts': rng.random() < 0.5}
    else:
        prob = rng.choice(['vdp', 'lorenz', 'test'])
        spec = {'problem': prob, 'sweeper': 'sdc', 'adaptivity': 'AdaptivityExtrapolationWithinQ', 'num_procs': 1, 'maxiter': 30,
                'dt0': rng.choice([0.01, 0.02, 0.05]), 'restol': 1e-8, 'num_nodes': 3, 'QI': 'LU',
                'err_keys': ('error_extrapolation_estimate',),
                'Tend': {'vdp': 0.6, 'lorenz': 0.3, 'test': 1.0}[prob]}
        ap = {'e_tol': tol, 'interpolate_between_restarts': rng.random() < 0.5}
    if rng.random() < 0.5:
        ap['beta'] = rng.choice([0.8, 0.95, 0.7])
    if rng.random() < 0.6:
        dt0 = spec['dt0']
        for k, f in (('dt_min', lambda: dt0 * rng.choice([0.05, 0.3])), ('dt_max', lambda: dt0 * rng.choice([3, 8])),
                     ('dt_slope_min', lambda: rng.choice([0.3, 0.6])), ('dt_slope_max', lambda: rng.choice([1.5, 3.0])),
                     ('dt_rel_min_slope', lambda: rng.choice([0.05, 0.2]))):
            if rng.random() < 0.4:
                ap[k] = f()
    spec['adaptivity_params'] = ap
    if rng.random() < 0.6:
        spec['restarting'] = {'max_restarts': rng.choice([1, 2, 4]), 'crash_after_max_restarts': rng.random() < 0.5}
        if spec['num_procs'] > 1 and rng.random() < 0.3:
            spec['restarting']['restart_from_first_step'] = True
    return spec


def real_runs(ck, report):
    """Real adaptive runs, checked by the implementation-side oracle only."""
    rng = ck.rng
    thorough = ck.tier == 'thorough'
    plan = [('embedded', 36 if thorough else 12), ('avoid', 10 if thorough else 3), ('rk', 16 if thorough else 5),
            ('polynomial', 16 if thorough else 5), ('extrapolation', 12 if thorough else 4)]
    stats = {}
    # a fixed, unscripted history in which a block is restarted from a middle slot while the Tend cap binds
    pinned = {'problem': 'vdp', 'sweeper': 'sdc', 'adaptivity': 'Adaptivity', 'num_procs': 3, 'maxiter': 3, 'dt0': 0.001,
              'Tend': 2.4735193769657835, 'adaptivity_params': {'e_tol': 1e-06}}
    # fixed histories that go through trigger_restart_upon_nonconvergence (dt / factor_if_not_converged)
    nonconv = [
        {'problem': 'vdp', 'sweeper': 'sdc', 'adaptivity': 'AdaptivityPolynomialError', 'num_procs': 1, 'maxiter': 4, 'dt0': 0.2,
         'restol': 1e-7, 'num_nodes': 3, 'QI': 'IE', 'Tend': 1.0, 'adaptivity_params': {'e_tol': 1e-5}},
        {'problem': 'lorenz', 'sweeper': 'sdc', 'adaptivity': 'AdaptivityPolynomialError', 'num_procs': 1, 'maxiter': 4, 'dt0': 0.1,
         'restol': 1e-7, 'num_nodes': 3, 'QI': 'IE', 'Tend': 0.5, 'adaptivity_params': {'e_tol': 1e-5, 'dt_min': 1e-3}},
        {'problem': 'vdp', 'sweeper': 'sdc', 'adaptivity': 'AdaptivityExtrapolationWithinQ', 'num_procs': 1, 'maxiter': 4, 'dt0': 0.2,
         'restol': 1e-7, 'num_nodes': 3, 'QI': 'IE', 'Tend': 1.0, 'err_keys': ('error_extrapolation_estimate',),
         'adaptivity_params': {'e_tol': 1e-5}}]
    # fixed histories with Adaptivity(avoid_restarts=True) in which steps take two or more extra sweeps
    avoid = [{'problem': 'vdp', 'mu': 5.0, 'sweeper': 'sdc', 'adaptivity': 'Adaptivity', 'num_procs': 1, 'maxiter': 3, 'dt0': 0.01,
              'num_nodes': 4, 'QI': 'LU', 'Tend': 1.0, 'adaptivity_params': {'e_tol': 1e-7, 'avoid_restarts': True}},
             {'problem': 'vdp', 'mu': 2.0, 'sweeper': 'sdc', 'adaptivity': 'Adaptivity', 'num_procs': 1, 'maxiter': 3, 'dt0': 0.01,
              'num_nodes': 4, 'QI': 'LU', 'Tend': 1.0, 'adaptivity_params': {'e_tol': 1e-8, 'avoid_restarts': True}}]
    # fixed histories of the converged-collocation family WITHOUT interpolation between restarts and with limits that bind
    nointerp = [
        {'problem': 'vdp', 'mu': 2.0, 'sweeper': 'sdc', 'adaptivity': 'AdaptivityPolynomialError', 'num_procs': 1, 'maxiter': 30, 'dt0': 0.01,
         'restol': 1e-10, 'num_nodes': 3, 'QI': 'LU', 'Tend': 1.0,
         'adaptivity_params': {'e_tol': 1e-6, 'interpolate_between_restarts': False, 'dt_slope_max': 1.2, 'dt_slope_min': 0.8,
                               'dt_min': 5e-3, 'dt_max': 3e-2}},
        {'problem': 'vdp', 'mu': 2.0, 'sweeper': 'sdc', 'adaptivity': 'AdaptivityExtrapolationWithinQ', 'num_procs': 1, 'maxiter': 30,
         'dt0': 0.01, 'restol': 1e-10, 'num_nodes': 3, 'QI': 'LU', 'Tend': 1.0, 'err_keys': ('error_extrapolation_estimate',),
         'adaptivity_params': {'e_tol': 1e-6, 'interpolate_between_restarts': False, 'dt_max': 2e-2}}]
    todo = [('embedded-pinned', pinned)] + [('nonconvergence-pinned', sp) for sp in nonconv] + \
           [('avoid-restarts-pinned', sp) for sp in avoid] + [('no-interpolation-pinned', sp) for sp in nointerp] + \
           [(kind, None) for kind, n in plan for _ in range(n)]
    for kind, spec in todo:
        if True:
            if spec is None:
                spec = gen_real_spec(rng, kind)
            res = run_real(spec)
            nrej = sum(1 for b in res['blocks'] if any(p[4] for p in b['post']))
            nacc = sum(1 for b in res['blocks'] for p in b['post'] if not p[4])
            st = stats.setdefault(kind, {'runs': 0, 'rejected_blocks': 0, 'accepted_steps': 0, 'outcomes': {}})
            st['runs'] += 1
            st['rejected_blocks'] += nrej
            st['accepted_steps'] += nacc
            st['outcomes'][res['outcome']] = st['outcomes'].get(res['outcome'], 0) + 1
            ck.traces += 1
            ck.case(key=('real', kind, spec['problem'], spec['sweeper'], spec['num_procs'], round(math.log10(spec['adaptivity_params']['e_tol']), 3)),
                    nontrivial=nacc > 0 and not res['outcome'].startswith('other:'),
                    sample={'kind': 'real-' + kind, 'spec': {k: v for k, v in spec.items() if k != 'err_keys'}, 'outcome': res['outcome'],
                            'accepted_steps': nacc, 'rejected_blocks': nrej})
            fails = real_oracle(spec, res)
            report(ck, fails, {'spec': {k: v for k, v in spec.items()}, 'outcome': res['outcome'], 'msg': res['msg'],
                               'how': 'harness.c09_lib.run_real(spec); harness.c09_lib.real_oracle(spec, res)'},
                   prefix='real %s run: ' % kind)
    ck.cov['real_runs'] = stats


# ----------------------------------------------------------------------------- avoid_restarts decision table
def decision_table():
    """Call the REAL AdaptivityBase.determine_restart (Adaptivity with and without avoid_restarts) and the real
    CheckConvergence.check_convergence on a live step whose status is set by hand, over a grid of
    (iteration, error estimate, contraction factor, iterations to convergence).
    Returns (cases, coq_text): cases = [(key dict, (restart, force_continue) of the real code)], and a Coq file that
    evaluates Model.ConvCtrl.adapt_decide / step_done on the same grid."""
    from pySDC.implementations.controller_classes.controller_nonMPI import controller_nonMPI
    from pySDC.implementations.convergence_controller_classes.adaptivity import Adaptivity
    from pySDC.implementations.convergence_controller_classes.check_convergence import CheckConvergence
    from pySDC.implementations.problem_classes.TestEquation_0D import testequation0d
    from pySDC.implementations.sweeper_classes.generic_implicit import generic_implicit
    logging.disable(logging.CRITICAL)
    tol = 1e-4
    maxiter = 3
    cases, coq = [], []
    done_cases, done_coq = [], []
    try:
        for avoid in (True, False):
            description = {'problem_class': testequation0d, 'problem_params': {'lambdas': np.array([-1.0 + 0j]), 'u0': 1.0 + 0j},
                           'sweeper_class': generic_implicit,
                           'sweeper_params': {'quad_type': 'RADAU-RIGHT', 'num_nodes': 3, 'QI': 'IE'},
                           'level_params': {'dt': 0.1, 'restol': -1.0}, 'step_params': {'maxiter': maxiter},
                           'convergence_controllers': {Adaptivity: {'e_tol': tol, 'avoid_restarts': avoid}}}
            controller = controller_nonMPI(num_procs=1, description=description,
                                           controller_params={'logger_level': 90, 'dump_setup': False, 'mssdc_jac': False})
            A = [C for C in controller.convergence_controllers if type(C).__name__ == 'Adaptivity'][0]
            S = controller.MS[0]
            S.status.slot = 0
            L = S.levels[0]
            L.status.time = 0.0
            order = int(L.sweep.coll.order)
            for it in (1, 2, 3, 4, 5, 6):
                for e in (0.5 * tol, tol, 2.0 * tol):
                    for rho in (0.5, 1.0, 1.5):
                        for more in (0, 1, 2, 4):
                            S.status.iter = it
                            S.status.restart = False
                            S.status.force_continue = False
                            L.status.error_embedded_estimate = e
                            L.status.__dict__['contraction_factor'] = rho
                            L.status.__dict__['iter_to_convergence'] = more
                            A.determine_restart(controller, S, MS=[S])
                            got = (bool(S.status.restart), bool(S.status.force_continue))
                            cases.append(({'avoid_restarts': avoid, 'iter': it, 'maxiter': maxiter, 'e_est': e, 'e_tol': tol,
                                           'contraction_factor': rho, 'iter_to_convergence': more, 'coll_order': order}, got))
                            coq.append('(%s, %d%%nat, %d%%nat, %d%%nat, %s, %s)' % ('true' if avoid else 'false', it, more, order,
                                                                                   cfloat(e), cfloat(rho)))
            if avoid:
                for it in (0, 2, 3, 4):
                    for fd in (False, True):
                        for fc in (False, True):
                            S.status.iter = it
                            S.status.force_done = fd
                            S.status.force_continue = fc
                            L.status.residual = 1.0
                            L.status.sweep = 1
                            got = bool(CheckConvergence.check_convergence(S))
                            done_cases.append(({'iter': it, 'maxiter': maxiter, 'force_done': fd, 'force_continue': fc}, got))
                            done_coq.append('(%d%%nat, %s, %s)' % (it, 'true' if fd else 'false', 'true' if fc else 'false'))
                S.status.force_done = False
                S.status.force_continue = False
    finally:
        logging.disable(logging.NOTSET)
    cfg = coq_cfg({'max_restarts': 10, 'crash': True, 'rffs': False, 'e_tol': tol, 'Tend': 1.0, 'dt0': 0.1}, [])
    text = (COQ_HEADER + 'Definition c := %s.\n' % cfg +
            'Definition cases : list (bool * nat * nat * nat * float * float) := [\n' + ';\n'.join(coq) + '].\n'
            "Eval vm_compute in map (fun '(av, it, more, ord, e, rho) => adapt_decide num_float c av it %d more ord e rho false false) cases.\n" % maxiter +
            'Definition dcases : list (nat * bool * bool) := [\n' + ';\n'.join(done_coq) + '].\n'
            "Eval vm_compute in map (fun '(it, fd, fc) => step_done it %d fd fc) dcases.\n" % maxiter)
    return cases, done_cases, text
