"""C02 (extension) — RungeKuttaNystrom (shipped tableaus RKN, Velocity_Verlet) and MultiStep sweepers.

Tie: the REAL classes of pySDC/implementations/sweeper_classes/Runge_Kutta_Nystrom.py and Multistep.py are run in
exact rational arithmetic and every observable is compared EXACTLY by the Coq kernel with the executable models
Model/SweepRKNExec.v / Model/SweepMultistepExec.v (Qc instances of Model/SweepRKN.v / Model/SweepMultistep.v, about
which Proofs/SweepRKNProofs.v / Proofs/SweepMultistepProofs.v prove the stage / multistep forms).

* RungeKuttaNystrom: the real `particles`, `fields`, `acceleration` data types (get_full_f accepts nothing else) with
  dtype=object arrays of fractions.Fraction; a small particle problem whose eval_f / build_f / boris_solver are
  rational functions sensitive to every argument — including the charges q and masses m of the particle OBJECT
  they are handed (per particle different, != 1) — and to both times the sweeper passes; the node objects are
  either arbitrary particles with their own q, m or come from the real predict() (unit-charge zero particles, as
  in every controller run); q and m of every node and of uend are observables; the sweeper's float tables
  (coll.nodes, QI = coll.Qmat, Qx = coll_bar.Qmat) are replaced by their exact Fraction images (or, for the
  explicit branch, by injected full random rational matrices: entries on/above the diagonal must not be read).
  Classes: the shipped RKN and Velocity_Verlet and seeded subclasses of RungeKuttaNystrom with random dyadic
  tableaus (explicit and implicit, globally stiffly accurate or not, 2..5 nodes).
* MultiStep: harness/exact.py's FracVec / DiagProb; alpha / beta replaced (on the instance) by the exact Fraction
  images of the class's floats; the four shipped methods and seeded subclasses (1..3 steps, with / without the
  trapezoidal starter of AdamsMoultonImplicit2Step); driven step by step the way the controller does (level reset,
  predict, update_nodes, compute_residual, compute_end_point) with variable dyadic step sizes, and single bare
  update_nodes() calls on arbitrary (inconsistent) cache contents.
Oracle (independent of the Coq model): the stage form / multistep formula of the theorems evaluated in Fractions on
the real outputs.
"""
import concurrent.futures as cf
import logging
from fractions import Fraction as F

import numpy as np

from pySDC.core.problem import Problem

from harness.common import coq_list, coq_bool, zlit, parse_coq_value, eval_outputs
from harness import exact as ex


# ----------------------------------------------------------------------------------------- small helpers

def qc(x):
    x = F(x)
    return '(q %s %d)' % (zlit(x.numerator), x.denominator)


def qcl(xs):
    return coq_list([qc(x) for x in xs])


def qcm(rows):
    return coq_list([qcl(r) for r in rows])


def rfrac(rng, lo=-4, hi=4, dens=(1, 2, 3, 4, 5)):
    return F(rng.randint(lo, hi), rng.choice(dens))


class Inexact(Exception):
    pass


def fx(x):
    """exact value of an entry the real code produced; a float means exactness was lost somewhere"""
    if isinstance(x, (F, int)):
        return F(x)
    if isinstance(x, (float, np.floating)) and float(x) == 0.0:
        return F(0)
    raise Inexact('non-exact value %r of type %s in the output of the real sweeper' % (x, type(x).__name__))


def fxl(a):
    return [fx(x) for x in a]


def fql(a):
    """charges / masses of a particle object: predict() creates float arrays (q = m = 1.0); exact images"""
    return [x if isinstance(x, F) else F(float(x)) for x in a]


def eval_cases(ck, name, imports, ctype, checker, cases, chunk=40, workers=4):
    """compile the generated case files; returns list of kernel verdicts (-1 = agree) or None"""
    files = []
    for ci in range(0, len(cases), chunk):
        body = ['From Coq Require Import List ZArith QArith Qcanon.', 'From PySDC Require Import %s.' % imports, 'Import ListNotations.',
                'Definition cases : list (%s * list Qc) := [' % ctype, ';\n'.join(cases[ci:ci + chunk]), '].',
                'Eval vm_compute in map %s cases.' % checker]
        files.append(ck.write_gen('%s_%03d.v' % (name, ci // chunk), '\n'.join(body) + '\n'))
    with cf.ThreadPoolExecutor(max_workers=workers) as pool:
        outs = list(pool.map(lambda f: ck.coqc(f, timeout=900), files))
    results = []
    for f, (rc, out) in zip(files, outs):
        if rc != 0:
            ck.obligation('%s model evaluation %s' % (name, f.split('/')[-1]), False, out[-800:])
            ck.violation('generated %s correspondence cases do not compile/evaluate' % name, {'file': f, 'log': out[-3000:]},
                         match={'kind': 'gen', 'part': name}, no_input=True)
            return None
        results += parse_coq_value(eval_outputs(out)[0])
    return results


# ========================================================================================= RungeKuttaNystrom

PAR_KEYS = ('lamE', 'kE', 'cE', 'bB', 'cB', 'g', 'd', 's', 'r')


def p_eval(par, qm, pos, vel, t):
    """fields of the test problem: (elec, magn); qm = (charges, masses) of the particle object handed over"""
    return ([q * (l * p + k * v) + m * c * t for l, k, c, p, v, q, m in zip(par['lamE'], par['kE'], par['cE'], pos, vel, qm[0], qm[1])],
            [b + c * t for b, c in zip(par['bB'], par['cB'])])


def p_build(par, fld, qm, vel, t):
    return [q / m * (e + g * v * b) + d * t for e, b, g, d, v, q, m in zip(fld[0], fld[1], par['g'], par['d'], vel, qm[0], qm[1])]


def p_boris(par, c, dt, fo, fn, qm, p0, v0):
    return [v + q / m * dt * (eo * F(1, 4) + en * F(3, 4)) + cc + s * dt * v * (bo - 2 * bn) + r * dt * p
            for v, p, eo, en, bo, bn, cc, s, r, q, m in zip(v0, p0, fo[0], fn[0], fo[1], fn[1], c, par['s'], par['r'], qm[0], qm[1])]


def _ptypes():
    from pySDC.implementations.datatype_classes.particles import particles, fields, acceleration
    return particles, fields, acceleration


class ParticleProb(Problem):
    """dim one-dimensional 'particles' on the REAL particles/fields/acceleration types holding Fractions."""

    def __init__(self, dim, **par):
        particles, fields, acceleration = _ptypes()
        type(self).dtype_u = particles
        type(self).dtype_f = fields
        super().__init__(init=((dim,), None, np.dtype('O')))
        self.dim = dim
        self.par = {k: [F(x) for x in par[k]] for k in PAR_KEYS}
        self.calls = []

    def mk_u(self, pos, vel, q, m):
        particles, _, _ = _ptypes()
        u = particles(self.init, val=None)
        u.pos[:] = [F(x) for x in pos]
        u.vel[:] = [F(x) for x in vel]
        u.q = np.array([F(x) for x in q], dtype=object)
        u.m = np.array([F(x) for x in m], dtype=object)
        return u

    def mk_f(self, fld):
        _, fields, _ = _ptypes()
        f = fields(self.init, val=None)
        f.elec[:] = [F(x) for x in fld[0]]
        f.magn[:] = [F(x) for x in fld[1]]
        return f

    def eval_f(self, u, t):
        self.calls.append(('eval_f', F(t)))
        return self.mk_f(p_eval(self.par, (fql(u.q), fql(u.m)), fxl(u.pos), fxl(u.vel), F(t)))

    def build_f(self, f, part, t):
        _, _, acceleration = _ptypes()
        a = acceleration(self.init)
        a[:] = p_build(self.par, (fxl(f.elec), fxl(f.magn)), (fql(part.q), fql(part.m)), fxl(part.vel), F(t))
        return a

    def boris_solver(self, c, dt, old_fields, new_fields, old_parts):
        particles, _, _ = _ptypes()
        vel = particles.velocity(self.init)
        vel[:] = p_boris(self.par, fxl(c), F(dt), (fxl(old_fields.elec), fxl(old_fields.magn)),
                         (fxl(new_fields.elec), fxl(new_fields.magn)), (fql(old_parts.q), fql(old_parts.m)), fxl(old_parts.pos), fxl(old_parts.vel))
        return vel


def random_rkn_class(rng, implicit, gsa, stages):
    """seeded subclass of RungeKuttaNystrom with a random dyadic (float-exact) tableau"""
    from pySDC.implementations.sweeper_classes.Runge_Kutta_Nystrom import RungeKuttaNystrom
    s = stages

    def dy(lo=-6, hi=8):
        return F(rng.randint(lo, hi), 8)

    def lower():
        A = [[F(0)] * s for _ in range(s)]
        for i in range(s):
            for j in range(i):
                A[i][j] = dy() if rng.random() < 0.8 else F(0)
        return A
    A, Ab = lower(), lower()
    if implicit:
        k = rng.randrange(s)
        A[k][k] = F(rng.randint(1, 8), 8)
    if gsa:       # last row = weights, for both tableaus (otherwise QI and Qx get different shapes)
        if all(a == 0 for a in A[-1]):
            A[-1][0] = F(1, 2)
        if all(a == 0 for a in Ab[-1]):
            Ab[-1][0] = F(1, 4)
        w, wb = list(A[-1]), list(Ab[-1])
    else:
        w = [dy(0, 8) for _ in range(s)]
        wb = [dy(0, 8) for _ in range(s)]
        if w[0] == A[-1][0]:
            w[0] += F(1, 2)
        if wb[0] == Ab[-1][0]:
            wb[0] += F(1, 2)
    nodes = [dy(0, 8) for _ in range(s)]
    if rng.random() < 0.5:
        nodes[-1] = F(1)
    arr = lambda x: np.array([[float(v) for v in row] for row in x]) if isinstance(x[0], list) else np.array([float(v) for v in x])
    return type('SeededRKN', (RungeKuttaNystrom,), {'nodes': arr(nodes), 'weights': arr(w), 'matrix': arr(A),
                                                    'weights_bar': arr(wb), 'matrix_bar': arr(Ab)})


def build_rkn_case(rng, which):
    import pySDC.implementations.sweeper_classes.Runge_Kutta_Nystrom as R
    dim = rng.randint(1, 3)
    tab = {}
    if which == 'RKN':
        cls = R.RKN
    elif which == 'Velocity_Verlet':
        cls = R.Velocity_Verlet
    else:
        implicit = (which == 'seeded-implicit')
        gsa = rng.random() < 0.3
        stages = rng.choice([2, 2, 3, 3, 4]) if not implicit else rng.choice([2, 2, 3, 4])
        if implicit and stages + (0 if gsa else 1) < 3:      # the implicit branch writes L.f[3]
            gsa = False
        cls = random_rkn_class(rng, implicit, gsa, stages)
    dt = F(rng.randint(1, 8), rng.choice([4, 8, 10, 16]))
    t0 = rfrac(rng, -3, 3)
    zero_kE = rng.random() < 0.5
    pp = {k: [rfrac(rng, -3, 3) for _ in range(dim)] for k in PAR_KEYS}
    if zero_kE:
        pp['kE'] = [F(0)] * dim
    L = ex.make_level(cls, {}, ParticleProb, dict(dim=dim, **pp), dt)
    sw = L.sweep
    M = sw.coll.num_nodes
    tab['float_QI'] = np.array(sw.QI, dtype=float)
    tab['float_Qx'] = np.array(sw.Qx, dtype=float)
    tab['float_nodes'] = np.array(sw.coll.nodes, dtype=float)
    tab['shape_ok'] = (tab['float_QI'].shape == (M + 1, M + 1) and tab['float_Qx'].shape == (M + 1, M + 1) and len(sw.coll.nodes) == M + 1
                       and sw.QI is sw.coll.Qmat)
    inject = which == 'seeded-explicit' and rng.random() < 0.4
    if inject:       # full random matrices: the sweeper may only read the strictly lower part of rows 1..M, columns 1..M-1
        sw.QI = np.array([[rfrac(rng, -2, 3) for _ in range(M + 1)] for _ in range(M + 1)], dtype=object)
        sw.Qx = np.array([[rfrac(rng, -2, 3) for _ in range(M + 1)] for _ in range(M + 1)], dtype=object)
        sw.coll.nodes = np.array([rfrac(rng, 0, 4) for _ in range(M + 1)], dtype=object)
    else:
        sw.QI = ex.frac_array(sw.QI)
        sw.Qx = ex.frac_array(sw.Qx)
        sw.coll.nodes = ex.frac_array(sw.coll.nodes)
    sw.coll.Qmat = sw.QI
    L.params.dt = dt
    L.status.time = t0
    L.status.unlocked = True
    L.status.sweep = rng.choice([0, 1])
    P = L.prob
    rq = lambda: [F(rng.choice([-3, -2, -1, 2, 3, 4]), rng.choice([1, 2, 3])) for _ in range(dim)]      # charges: per particle different, != 1 mostly
    rm = lambda: [F(rng.choice([1, 2, 3, 4, 5]), rng.choice([1, 2, 3])) for _ in range(dim)]             # masses: positive
    from_predict = rng.random() < 0.5
    for m in range(M + 1):
        L.u[m] = P.mk_u([rfrac(rng, -5, 5) for _ in range(dim)], [rfrac(rng, -5, 5) for _ in range(dim)], rq(), rm())
        L.f[m] = P.mk_f(([rfrac(rng, -5, 5) for _ in range(dim)], [rfrac(rng, -5, 5) for _ in range(dim)]))
    if from_predict:      # node objects as in every controller run: the REAL predict() (zero particles with q = m = 1)
        sw.predict()
    meta = dict(part='RKN', which=which, cls=cls.__name__, M=M, dim=dim, implicit=bool(sw.coll.implicit), inject=inject,
                gsa=bool(sw.coll.globally_stiffly_accurate), dt=str(dt), t0=str(t0), zero_kE=zero_kE, sweep=L.status.sweep, nodes_from_predict=from_predict)
    return L, pp, tab, meta


def rkn_snapshot(L):
    M = L.sweep.coll.num_nodes
    return dict(p=[fxl(L.u[m].pos) for m in range(M + 1)], v=[fxl(L.u[m].vel) for m in range(M + 1)],
                q=[fql(L.u[m].q) for m in range(M + 1)], m=[fql(L.u[m].m) for m in range(M + 1)],
                fe=[fxl(L.f[m].elec) for m in range(M + 1)], fm=[fxl(L.f[m].magn) for m in range(M + 1)])


def rkn_run_real(L):
    sw = L.sweep
    sw.update_nodes()
    sw.compute_end_point()
    after = rkn_snapshot(L)
    after['uend'] = (fxl(L.uend.pos), fxl(L.uend.vel))
    after['uend_qm'] = (fql(L.uend.q), fql(L.uend.m))
    after['uend_is_last'] = L.uend is L.u[-1]
    after['updated'] = L.status.updated
    M = sw.coll.num_nodes
    out = sum(after['p'][1:], []) + sum(after['v'][1:], [])
    for m in range(M + 1):
        out += after['q'][m] + after['m'][m]
    for m in range(M + 1):
        out += after['fe'][m] + after['fm'][m]
    out += after['uend'][0] + after['uend'][1] + after['uend_qm'][0] + after['uend_qm'][1]
    return out, after


def rkn_coq_case(L, pp, meta, before, expected):
    sw = L.sweep
    fields = ['k_M := %d%%nat' % meta['M'], 'k_dt := %s' % qc(L.params.dt), 'k_t0 := %s' % qc(L.status.time),
              'k_nodes := %s' % qcl(list(sw.coll.nodes)), 'k_QI := %s' % qcm(sw.QI.tolist()), 'k_Qx := %s' % qcm(sw.Qx.tolist()),
              'k_impl := %s' % coq_bool(bool(sw.coll.implicit)), 'k_dim := %d%%nat' % meta['dim']]
    fields += ['k_%s := %s' % (k, qcl(pp[k])) for k in PAR_KEYS]
    fields += ['k_p := %s' % qcm(before['p']), 'k_v := %s' % qcm(before['v']), 'k_q := %s' % qcm(before['q']), 'k_m := %s' % qcm(before['m']), 'k_fe := %s' % qcm(before['fe']), 'k_fm := %s' % qcm(before['fm'])]
    return '({| %s |}, %s)' % ('; '.join(fields), qcl(expected))


def rkn_oracle(L, pp, tab, meta, before, after):
    """stage form of the theorems in Fractions on the real outputs; returns the list of failures"""
    sw = L.sweep
    cls = type(sw)
    par = {k: [F(x) for x in pp[k]] for k in PAR_KEYS}
    M, dim = meta['M'], meta['dim']
    dt, t0 = L.params.dt, L.status.time
    c = list(sw.coll.nodes)
    QI, Qx = sw.QI, sw.Qx
    fails = []
    xn, vn = after['p'], after['v']
    fn = [(after['fe'][m], after['fm'][m]) for m in range(M + 1)]
    fo = [(before['fe'][m], before['fm'][m]) for m in range(M + 1)]
    x0, v0 = before['p'][0], before['v'][0]
    qm0 = (before['q'][0], before['m'][0])
    if xn[0] != x0 or vn[0] != v0 or (after['q'][0], after['m'][0]) != qm0:
        fails.append(('u0_changed',))
    # every stage and the end value carry the charges / masses of u0 (the node OBJECT is replaced by the copy of u[0]),
    # and the stage form below is evaluated with them
    for m in range(1, M + 1):
        if (after['q'][m], after['m'][m]) != qm0:
            fails.append(('stage_attributes', m))
    if after['uend_qm'] != qm0:
        fails.append(('uend_attributes',))
    if not tab['shape_ok']:
        fails.append(('table_shape',))
    if not after['updated']:
        fails.append(('status_updated',))
    tn = lambda j: t0 + dt * c[j]
    if not meta['implicit']:
        acc = [None] + [p_build(par, fn[j], qm0, vn[j], tn(j)) for j in range(1, M + 1)]
        for m in range(1, M + 1):
            for x in range(dim):
                if xn[m][x] != x0[x] + dt * c[m] * v0[x] + dt * dt * sum(Qx[m, j] * acc[j][x] for j in range(1, m)):
                    fails.append(('stage_position', m, x))
                if vn[m][x] != v0[x] + dt * sum(QI[m, j] * acc[j][x] for j in range(1, m)):
                    fails.append(('stage_velocity', m, x))
            if m < M:
                if fn[m] != p_eval(par, qm0, xn[m], vn[m], tn(m)):       # the stage is evaluated at its own node time, with u0's q, m
                    fails.append(('stage_fields_own_time' if fn[m] == p_eval(par, qm0, xn[m], vn[m], tn(m - 1)) else 'stage_fields', m))
        if fn[M] != fo[M]:
            fails.append(('last_fields_touched',))
        if fn[0] != fo[0]:
            fails.append(('f0_changed',))
        if not meta['inject']:
            # table hypotheses of rkn_end_point_form on the real (float) tables + the Nystrom update
            w, wb = np.asarray(cls.weights, dtype=float), np.asarray(cls.weights_bar, dtype=float)
            if not meta['gsa']:
                tab_ok = (tab['float_nodes'][M] == 1.0 and list(tab['float_QI'][M, 1:M]) == list(w) and list(tab['float_Qx'][M, 1:M]) == list(wb)
                          and len(w) == M - 1)
                if not tab_ok:
                    fails.append(('table_last_row',))
                else:
                    for x in range(dim):
                        if after['uend'][0][x] != x0[x] + dt * v0[x] + dt * dt * sum(F(float(wb[j - 1])) * acc[j][x] for j in range(1, M)):
                            fails.append(('end_position', x))
                        if after['uend'][1][x] != v0[x] + dt * sum(F(float(w[j - 1])) * acc[j][x] for j in range(1, M)):
                            fails.append(('end_velocity', x))
    else:
        F0 = p_eval(par, qm0, x0, v0, t0)
        for m in range(0, M + 1):       # L.f[0] is re-evaluated and copied to every node; L.f[3] is scratch space of later stages when M > 3
            if fn[m] != F0 and (m != 3 or M == 3):
                fails.append(('implicit_fields', m))
        if M == 3:
            tend = t0 + dt
            z = [F(0)] * dim
            x1 = [x0[x] + dt * c[1] * v0[x] for x in range(dim)]
            a1 = p_build(par, F0, qm0, v0, tn(1))
            x2 = [x0[x] + dt * c[2] * v0[x] + dt * dt * Qx[2, 1] * a1[x] for x in range(dim)]
            v2 = p_boris(par, z, dt, F0, p_eval(par, qm0, x2, v0, tend), qm0, x0, v0)
            a2 = p_build(par, F0, qm0, v2, tn(2))
            x3a = [x0[x] + dt * c[3] * v0[x] + dt * dt * Qx[3, 1] * a1[x] for x in range(dim)]
            v3a = p_boris(par, z, dt, F0, p_eval(par, qm0, x3a, v0, tend), qm0, x0, v0)
            x3 = [x3a[x] + dt * dt * Qx[3, 2] * a2[x] for x in range(dim)]
            v3 = p_boris(par, z, dt, F0, p_eval(par, qm0, x3, v3a, tend), qm0, x0, v0)
            want = [(x0, v0), (x1, v0), (x2, v2), (x3, v3)]
            for m in range(1, 4):
                if (xn[m], vn[m]) != want[m]:
                    fails.append(('implicit_node', m))
            if cls.__name__ == 'Velocity_Verlet':
                shape = (tab['float_nodes'].tolist() == [0.0, 1.0, 1.0, 1.0] and tab['float_Qx'][2, 1] == 0.0 and tab['float_Qx'][3, 2] == 0.0
                         and tab['float_Qx'][3, 1] == 0.5)
                if not shape:
                    fails.append(('velocity_verlet_table',))
                elif meta['zero_kE']:
                    # velocity-Verlet form (rkn_velocity_verlet_form): fields independent of the velocity
                    a = p_build(par, F0, qm0, v0, t0 + dt)
                    xe = [x0[x] + dt * v0[x] + dt * dt * F(1, 2) * a[x] for x in range(dim)]
                    ve = p_boris(par, z, dt, F0, p_eval(par, qm0, xe, v0, tend), qm0, x0, v0)
                    if after['uend'] != (xe, ve):
                        fails.append(('velocity_verlet_form',))
    if after['uend'] != (xn[M], vn[M]) or not after['uend_is_last']:
        fails.append(('uend_not_last_node',))
    return fails


def get_full_f_check(ck):
    """get_full_f: identity on particles / fields / acceleration, NotImplementedError on everything else"""
    import pySDC.implementations.sweeper_classes.Runge_Kutta_Nystrom as R
    particles, fields, acceleration = _ptypes()
    pp = {k: [F(1)] for k in PAR_KEYS}
    L = ex.make_level(R.RKN, {}, ParticleProb, dict(dim=1, **pp), F(1, 4))
    sw, P = L.sweep, L.prob
    a = acceleration(P.init)
    bad = []
    for obj in (P.mk_u([1], [2], [3], [4]), P.mk_f(([1], [2])), a):
        try:
            if sw.get_full_f(obj) is not obj:
                bad.append('not identity on ' + type(obj).__name__)
        except Exception as e:
            bad.append('raised %s on %s' % (type(e).__name__, type(obj).__name__))
    from pySDC.implementations.datatype_classes.mesh import mesh
    for obj in (ex.FracVec([1]), mesh(((1,), None, np.dtype('float64'))), None, 1.0):
        try:
            sw.get_full_f(obj)
            bad.append('accepted ' + type(obj).__name__)
        except NotImplementedError:
            pass
        except Exception as e:
            bad.append('raised %s instead of NotImplementedError on %s' % (type(e).__name__, type(obj).__name__))
    ck.case(key=('RKN', 'get_full_f'), sample=None)
    ck.obligation('RungeKuttaNystrom.get_full_f: identity on the three particle types, NotImplementedError otherwise', not bad, '; '.join(bad), kind='oracle')
    if bad:
        ck.violation('RungeKuttaNystrom.get_full_f does not behave as the type filter the model assumes: ' + bad[0], {'failures': bad},
                     match={'kind': 'rkn-get_full_f'})


def rkn_part(ck, rng, thorough):
    n = 480 if thorough else 72
    plan = ['RKN', 'Velocity_Verlet', 'seeded-explicit', 'seeded-implicit', 'seeded-explicit', 'RKN']
    cases, metas = [], []
    for i in range(n):
        which = plan[i % len(plan)]
        try:
            L, pp, tab, meta = build_rkn_case(rng, which)
            before = rkn_snapshot(L)
            expected, after = rkn_run_real(L)
        except Inexact as e:
            ck.violation('RungeKuttaNystrom: exact run lost exactness (%s)' % e, {'which': which}, match={'kind': 'rkn-inexact', 'class': which})
            continue
        except (IndexError, ZeroDivisionError) as e:
            ck.cov['rkn_rejected'] = ck.cov.get('rkn_rejected', 0) + 1
            continue
        except Exception as e:
            ck.violation('real RungeKuttaNystrom sweeper raised %s: %s' % (type(e).__name__, e), {'which': which}, match={'kind': 'raise', 'sweeper': 'RKN', 'class': which})
            continue
        key = ('RKN', meta['cls'] if which in ('RKN', 'Velocity_Verlet') else which, meta['M'], meta['dim'], meta['implicit'], meta['gsa'], meta['inject'], meta['zero_kE'],
               meta['nodes_from_predict'])
        ck.case(key=key, nontrivial=True, sample=meta)
        fails = rkn_oracle(L, pp, tab, meta, before, after)
        replay = {'meta': meta, 'problem': {k: [str(v) for v in pp[k]] for k in PAR_KEYS}, 'nodes': [str(v) for v in L.sweep.coll.nodes],
                  'QI': [[str(v) for v in r] for r in L.sweep.QI.tolist()], 'Qx': [[str(v) for v in r] for r in L.sweep.Qx.tolist()],
                  'before': {k: [[str(v) for v in r] for r in before[k]] for k in before}}
        if fails:
            ck.violation('%s: RungeKuttaNystrom.update_nodes / compute_end_point violates its stage form (%s)' % (meta['cls'], fails[0][0]),
                         dict(replay, failures=fails[:10]), match={'kind': 'rkn-' + fails[0][0], 'class': which})
        cases.append(rkn_coq_case(L, pp, meta, before, expected))
        metas.append((meta, bool(fails), replay))
    res = eval_cases(ck, 'RKNCases', 'Model.Sweep Model.SweepExec Model.SweepRKN Model.SweepRKNExec', 'rkncase', 'check_rkn_case', cases)
    if res is not None:
        nb = 0
        for (meta, oracle_failed, replay), r in zip(metas, res):
            ck.traces += 1
            if r != -1:
                nb += 1
                ck.violation('RungeKuttaNystrom model and real sweeper %s differ at observable #%d' % (meta['cls'], r),
                             dict(replay, correspondence='Model/SweepRKNExec.run_rkn vs RungeKuttaNystrom.update_nodes/compute_end_point', first_differing_observable=r),
                             match={'kind': 'rkn-correspondence', 'class': meta['which']}, no_input=not oracle_failed)
        ck.obligation('exact correspondence RungeKuttaNystrom model = implementation on %d sweeps' % len(res), nb == 0)
    get_full_f_check(ck)


# ========================================================================================= MultiStep

class GuessProb(ex.DiagProb):
    """DiagProb whose solve adds gam*guess: gam = 0 is the exact solve (solver contract), gam != 0 makes the guess observable"""

    def __init__(self, lam, c, gam):
        super().__init__(lam, c)
        self.gam = [F(x) for x in gam]

    def solve_system(self, rhs, factor, u0, t):
        w = super().solve_system(rhs, factor, u0, t)
        return ex.FracVec([a + g * b for a, g, b in zip(w.v, self.gam, u0.v)])


def ms_shipped():
    import pySDC.implementations.sweeper_classes.Multistep as MS
    return [MS.AdamsBashforthExplicit1Step, MS.BackwardEuler, MS.AdamsMoultonImplicit1Step, MS.AdamsMoultonImplicit2Step]


def random_ms_class(rng, steps, trap):
    import pySDC.implementations.sweeper_classes.Multistep as MS
    base = MS.AdamsMoultonImplicit2Step if trap else MS.MultiStep
    al = [float(F(rng.randint(-8, 8), 8)) for _ in range(steps)]
    be = [float(F(rng.randint(-8, 8), 8)) for _ in range(steps + 1)]
    return type('SeededMultiStep', (base,), {'alpha': al, 'beta': be})


def ms_dump_cache(sw):
    out, struct = [], []
    for t, u, f in zip(sw.cache.t, sw.cache.u, sw.cache.f):
        if t is None:
            out.append(F(0))
            struct.append(None)
        else:
            out += [F(1), fx(t)] + fxl(u.v) + fxl(f.v)
            struct.append((fx(t), fxl(u.v), fxl(f.v)))
    return out, struct


def ms_formula_fails(al, be, lam, c, gam, dim, before_cache, t0, dt, u0, f0, trap, u1, f1, cache_after):
    """the statements of ms_update_full_form / ms_update_start_form in Fractions (w = the solver's exact solution: u1 minus
    gam * the guess the theorems name — the newest cache entry, resp. u[0] for the starter)"""
    fails = []
    time = t0 + dt
    if f1 != [lam[x] * u1[x] + c[x] * time for x in range(dim)]:
        fails.append(('f_consistent',))
    s = len(al)
    if all(e is not None for e in before_cache):
        ts = [e[0] for e in before_cache]
        dts = [ts[i + 1] - ts[i] for i in range(s - 1)] + [time - ts[-1]]
        for x in range(dim):
            w = u1[x] - gam[x] * before_cache[-1][1][x]
            lhs = w + sum(al[i] * before_cache[i][1][x] for i in range(s)) - dt * be[-1] * (lam[x] * w + c[x] * time)
            rhs = sum(dts[i] * be[i] * before_cache[i][2][x] for i in range(s))
            if lhs != rhs:
                fails.append(('multistep_formula', x))
    elif trap and f0 is not None:
        for x in range(dim):
            w = u1[x] - gam[x] * u0[x]
            if w - dt / 2 * (lam[x] * w + c[x] * time) != u0[x] + dt / 2 * f0[x]:
                fails.append(('trapezoid_start', x))
    else:
        fails.append(('should_have_raised',))
    if cache_after != list(before_cache[1:]) + [(time, u1, f1)]:
        fails.append(('cache_shift',))
    return fails


def build_ms_case(rng, i, thorough):
    shipped = ms_shipped()
    single = (i % 3 == 2)
    r = rng.random()
    if r < 0.55:
        cls = shipped[i % 4]
        which = cls.__name__
    else:
        steps = rng.choice([1, 2, 2, 3])
        trap = rng.random() < 0.6
        cls = random_ms_class(rng, steps, trap)
        which = 'seeded-%d-step-%s' % (steps, 'trapezoid' if trap else 'nostarter')
    import pySDC.implementations.sweeper_classes.Multistep as MS
    trap = issubclass(cls, MS.AdamsMoultonImplicit2Step)
    dim = rng.randint(1, 2)
    lam = [rfrac(rng, -3, 2) for _ in range(dim)]
    c = [rfrac(rng, -3, 3) for _ in range(dim)]
    rdt = lambda: F(rng.randint(1, 8), rng.choice([8, 16]))       # dyadic: `lvl.dt / 2.0` stays exact
    gam = [F(0)] * dim if rng.random() < 0.5 else [rfrac(rng, -2, 2) for _ in range(dim)]
    L = ex.make_level(cls, {}, GuessProb, {'lam': lam, 'c': c, 'gam': gam}, rdt())
    sw = L.sweep
    sw.alpha = [F(float(a)) for a in cls.alpha]        # exact images of the class's floats (instance attributes shadow the class's)
    sw.beta = [F(float(b)) for b in cls.beta]
    steps = sw.steps
    t0 = F(rng.randint(-8, 8), 4)
    u0 = [rfrac(rng, -5, 5) for _ in range(dim)]
    meta = dict(part='MultiStep', which=which, cls=cls.__name__, steps=steps, trapezoid_starter=trap, dim=dim, single=single, t0=str(t0),
                exact_solve=not any(gam))
    rv = lambda: [rfrac(rng, -5, 5) for _ in range(dim)]
    cache0 = [None] * steps
    f0 = None
    if single:
        mode = rng.choice(['full', 'full', 'partial', 'empty'])
        ts = sorted(set(F(rng.randint(-16, 16), 8) for _ in range(steps + 2)))[:steps]
        while len(ts) < steps:
            ts.append(ts[-1] + F(1, 8))
        for k in range(steps):
            if mode == 'full' or (mode == 'partial' and rng.random() < 0.5):
                cache0[k] = (ts[k], rv(), rv())
        f0 = rv() if rng.random() < 0.7 else None
        dts = [rdt()]
        meta['cache_mode'] = mode
        meta['predict'] = rng.random() < 0.5
    else:
        uniform = rng.random() < 0.3
        nst = rng.randint(1, 5 if thorough else 4)
        d0 = rdt()
        dts = [d0 if uniform else rdt() for _ in range(nst)]
        meta['uniform_dt'] = uniform
    meta['dts'] = [str(d) for d in dts]
    return L, lam, c, cache0, t0, u0, f0, dts, meta


def ms_run_real(L, cache0, t0, u0, f0, dts, meta):
    """drive the real sweeper; returns (flattened observables, list of oracle failures)"""
    sw = L.sweep
    P = L.prob
    al, be = list(sw.alpha), list(sw.beta)
    dim = meta['dim']
    lam, c, gam = P.lam, P.c, P.gam
    out, fails = [], []
    for k, e in enumerate(cache0):
        if e is not None:
            sw.cache.t[k], sw.cache.u[k], sw.cache.f[k] = e[0], ex.FracVec(e[1]), ex.FracVec(e[2])
    err = 0
    if meta['single']:
        dt = dts[0]
        L.params.dt = dt
        L.status.time = t0
        L.u[0] = ex.FracVec(u0)
        L.f[0] = None if f0 is None else ex.FracVec(f0)
        if meta['predict']:
            _, c_pre = ms_dump_cache(sw)
            sw.predict()
            _, c_post = ms_dump_cache(sw)
            if all(e is None for e in c_pre):
                f0 = [lam[x] * u0[x] + c[x] * t0 for x in range(dim)]
                if c_post != c_pre[1:] + [(t0, list(u0), f0)] or L.f[0] is None or fxl(L.f[0].v) != f0:
                    fails.append(('predict_fills_cache',))
            elif c_post != c_pre or (L.f[0] is None) != (f0 is None) or (f0 is not None and fxl(L.f[0].v) != f0):
                fails.append(('predict_touched_nonempty_cache',))
        _, before_cache = ms_dump_cache(sw)
        try:
            sw.update_nodes()
            sw.compute_end_point()
            u1, f1 = fxl(L.u[1].v), fxl(L.f[1].v)
            dump, after_cache = ms_dump_cache(sw)
            out += u1 + f1 + dump
            fails += ms_formula_fails(al, be, lam, c, gam, dim, before_cache, t0, dt, u0, f0, meta['trapezoid_starter'], u1, f1, after_cache)
            if fxl(L.uend.v) != u1:
                fails.append(('uend',))
        except NotImplementedError:
            err = 1
        except TypeError:
            err = 2
        if err:
            dump, after_cache = ms_dump_cache(sw)
            out += dump
            if after_cache != before_cache:
                fails.append(('cache_changed_on_error',))
            full = all(e is not None for e in before_cache)
            if full or (err == 1 and meta['trapezoid_starter']) or (err == 2 and not (meta['trapezoid_starter'] and L.f[0] is None)):
                fails.append(('unexpected_error', err))
        out.append(F(err))
        return out, fails
    t, u = t0, list(u0)
    for n, dt in enumerate(dts):
        L.reset_level(reset_status=True)            # what the controller's restart_block / step reset does between steps
        L.params.dt = dt
        L.status.time = t
        L.u[0] = ex.FracVec(u)
        was_empty = all(x is None for x in sw.cache.t)
        try:
            sw.predict()
            if was_empty:
                f0n = [lam[x] * u[x] + c[x] * t for x in range(dim)]
                if L.f[0] is None or fxl(L.f[0].v) != f0n or sw.cache.t[-1] != t or fxl(sw.cache.u[-1].v) != u or fxl(sw.cache.f[-1].v) != f0n:
                    fails.append(('predict_fills_cache', n))
            elif L.f[0] is not None:
                fails.append(('predict_touched_f0', n))
            if not (L.status.unlocked and L.status.updated):
                fails.append(('predict_status', n))
            _, before_cache = ms_dump_cache(sw)
            f0n = None if L.f[0] is None else fxl(L.f[0].v)
            sw.update_nodes()
            sw.compute_residual()
            sw.compute_end_point()
        except NotImplementedError:
            err = 1
            break
        except TypeError:
            err = 2
            break
        u1, f1 = fxl(L.u[1].v), fxl(L.f[1].v)
        _, after_cache = ms_dump_cache(sw)
        fails += [fl + (n,) for fl in ms_formula_fails(al, be, lam, c, gam, dim, before_cache, t, dt, u, f0n, meta['trapezoid_starter'], u1, f1, after_cache)]
        if L.status.residual != 0.0 or L.status.updated is not False:
            fails.append(('residual', n))
        if fxl(L.uend.v) != u1:
            fails.append(('uend', n))
        out += [t + dt] + u1 + f1
        t, u = t + dt, u1
    if err:
        # the only legitimate failures: no starter (NotImplementedError at the first step of a method with >= 2 steps) and the
        # starter's use of lvl.f[0] = None at a start step after the first one (TypeError; methods with >= 3 steps)
        steps = meta['steps']
        ok = (err == 1 and not meta['trapezoid_starter'] and steps >= 2 and n == 0) or (err == 2 and meta['trapezoid_starter'] and steps >= 3 and n == 1)
        if not ok:
            fails.append(('unexpected_error', err, n))
    dump, _ = ms_dump_cache(sw)
    out += dump + [F(err)]
    return out, fails


def ms_coq_case(L, lam, c, cache0, t0, u0, f0, dts, meta, expected):
    sw = L.sweep
    slots = ['None' if e is None else '(Some (%s, %s, %s))' % (qc(e[0]), qcl(e[1]), qcl(e[2])) for e in cache0]
    fields = ['s_dim := %d%%nat' % meta['dim'], 's_lam := %s' % qcl(lam), 's_c := %s' % qcl(c), 's_gam := %s' % qcl(L.prob.gam), 's_alpha := %s' % qcl(sw.alpha),
              's_beta := %s' % qcl(sw.beta), 's_trap := %s' % coq_bool(meta['trapezoid_starter']), 's_cache := %s' % coq_list(slots),
              's_t0 := %s' % qc(t0), 's_u0 := %s' % qcl(u0), 's_single := %s' % coq_bool(meta['single']),
              's_f0 := %s' % ('None' if f0 is None else '(Some %s)' % qcl(f0)), 's_predict := %s' % coq_bool(bool(meta.get('predict'))),
              's_dts := %s' % qcl(dts)]
    return '({| %s |}, %s)' % ('; '.join(fields), qcl(expected))


def ms_part(ck, rng, thorough):
    n = 600 if thorough else 90
    cases, metas = [], []
    for i in range(n):
        try:
            L, lam, c, cache0, t0, u0, f0, dts, meta = build_ms_case(rng, i, thorough)
            expected, fails = ms_run_real(L, cache0, t0, u0, f0, dts, meta)
        except ZeroDivisionError:
            continue            # singular 1 - a*lam for this draw
        except Inexact as e:
            ck.violation('MultiStep: exact run lost exactness (%s)' % e, {'case': i}, match={'kind': 'ms-inexact'})
            continue
        except Exception as e:
            ck.violation('real MultiStep sweeper raised %s: %s' % (type(e).__name__, e), {'case': i}, match={'kind': 'raise', 'sweeper': 'MultiStep'})
            continue
        key = ('MS', meta['which'], meta['dim'], meta['single'], meta.get('cache_mode'), meta.get('predict'), len(dts), meta.get('uniform_dt'), meta['exact_solve'])
        ck.case(key=key, nontrivial=True, sample=meta)
        replay = {'meta': meta, 'lam': [str(v) for v in lam], 'c': [str(v) for v in c], 'gam': [str(v) for v in L.prob.gam], 'alpha': [str(v) for v in L.sweep.alpha],
                  'beta': [str(v) for v in L.sweep.beta], 'u0': [str(v) for v in u0], 'f0': None if f0 is None else [str(v) for v in f0],
                  'cache': [None if e is None else [str(e[0]), [str(v) for v in e[1]], [str(v) for v in e[2]]] for e in cache0]}
        if fails:
            ck.violation('%s: MultiStep sweeper violates its multistep form (%s)' % (meta['cls'], fails[0][0]), dict(replay, failures=fails[:10]),
                         match={'kind': 'ms-' + fails[0][0], 'class': meta['which']})
        cases.append(ms_coq_case(L, lam, c, cache0, t0, u0, f0, dts, meta, expected))
        metas.append((meta, bool(fails), replay))
    res = eval_cases(ck, 'MSCases', 'Model.Sweep Model.SweepExec Model.SweepMultistep Model.SweepMultistepExec', 'mscase', 'check_ms_case', cases)
    if res is not None:
        nb = 0
        for (meta, oracle_failed, replay), r in zip(metas, res):
            ck.traces += 1
            if r != -1:
                nb += 1
                ck.violation('MultiStep model and real sweeper %s differ at observable #%d' % (meta['cls'], r),
                             dict(replay, correspondence='Model/SweepMultistepExec.run_ms vs MultiStep.predict/update_nodes/compute_end_point', first_differing_observable=r),
                             match={'kind': 'ms-correspondence', 'class': meta['which']}, no_input=not oracle_failed)
        ck.obligation('exact correspondence MultiStep model = implementation on %d runs' % len(res), nb == 0)


# ========================================================================================= entry points

def run_part(ck, rng, thorough):
    logging.disable(logging.CRITICAL)
    rkn_part(ck, rng, thorough)
    ms_part(ck, rng, thorough)


def main():
    """development driver:  python -m harness.c02_rkn [--tier quick|thorough] [--seed N]   (writes no evidence)"""
    import argparse
    import shutil
    import time
    from harness.common import Check
    ap = argparse.ArgumentParser()
    ap.add_argument('--tier', default='quick', choices=['quick', 'thorough'])
    ap.add_argument('--seed', type=int, default=0)
    a = ap.parse_args()
    ck = Check('C02', a.tier, a.seed)
    t0 = time.time()
    run_part(ck, ck.rng, a.tier == 'thorough')
    for o in ck.obligations:
        print('obligation %-100s %s %s' % (o['name'][:100], 'ok' if o['ok'] else 'FAILED', '' if o['ok'] else o['detail'][:300]))
    for v in ck.violations:
        print('VIOLATION %s%s\n   replay=%s' % (v['what'], ' [no failing input]' if v['no_input'] else '', v['path']))
    print('cases %d (%d distinct), traces %d, violations %d, %.1fs' % (ck.evaluations, len(ck.distinct), ck.traces, len(ck.violations), time.time() - t0))
    if not ck.violations:
        shutil.rmtree(ck.gen, ignore_errors=True)
    return 1 if ck.violations else 0


if __name__ == '__main__':
    import sys
    sys.exit(main())
