"""C02 (extension) — boris_2nd_order: one sweep = the position/velocity node-to-node block form.

Tie: the REAL class pySDC/implementations/sweeper_classes/boris_2nd_order.py (from $VERIF_REPO on PYTHONPATH) is run
in exact rational arithmetic: an exact particle data type (EParticles: pos, vel as Fraction vectors, q, m) and fields
type (EFields: elec, magn), an exact problem (LinTrap: linear E field incl. particle coupling, position dependent B
field; build_f = q/m (E + v x B) (+ t g_t); boris_solver = PenningTrap_3D.boris_solver transliterated to Fractions —
the Boris rotation is rational), and the sweeper's tables replaced by the exact Fraction images of the floats it
computed or by injected random rational tables.  Every observable (integrate(), new positions / velocities / fields,
residual particles, end point, whether update_nodes raised) is compared exactly by the Coq kernel with the executable
model Model/BorisExec.v (Qc instance of Model/Boris.v, about which Proofs/BorisProofs.v proves the block forms).
Oracle (independent of the model): the block-form identities, the solver contract of the exact problem's boris_solver,
integrate / residual / end-point formulas evaluated in Fractions on the real outputs; the table facts the 0-to-node
corollaries assume (S, ST, Sx = row differences of Q, QT, Qx; SQ = S Q; QQ = Q Q; qQ = w Q; trapezoid rows) are
checked on the float tables of the real sweeper against an exact recomputation (relative 1e-13).

Development driver:  python -m harness.c02_boris [--tier quick|thorough] [--seed N]   (writes no evidence)
"""
import concurrent.futures as cf
import copy
import logging
import time
from fractions import Fraction as F

import numpy as np

from harness.common import coq_list, zlit, parse_coq_value, eval_outputs
from harness import exact as ex


# ----------------------------------------------------------------------------------------- Coq literals

def qc(x):
    x = F(x)
    return '(q %s %d)' % (zlit(x.numerator), x.denominator)


def qcl(xs):
    return coq_list([qc(x) for x in xs])


def qcm(rows):
    return coq_list([qcl(r) for r in rows])


def rfrac(rng, lo=-4, hi=4, dens=(1, 2, 3, 4, 5)):
    return F(rng.randint(lo, hi), rng.choice(dens))


# ----------------------------------------------------------------------------------------- exact data types

class EVec(ex.FracVec):
    """positions / velocities / accelerations / field values of N particles, flat index 3*n + axis"""


class EParticles:
    """the interface of pySDC.implementations.datatype_classes.particles.particles the sweeper touches"""
    __array_ufunc__ = None

    def __init__(self, init=None, val=None):
        from pySDC.core.errors import DataError
        if isinstance(init, EParticles):
            self.pos, self.vel = EVec(init.pos), EVec(init.vel)
            self.q, self.m = list(init.q), list(init.m)
        elif isinstance(init, int):
            v = 0 if val is None else val
            self.pos, self.vel = EVec(3 * init, v), EVec(3 * init, v)
            self.q, self.m = [F(1)] * init, [F(1)] * init
        else:
            raise DataError('something went wrong during %s initialization' % type(self))

    def __add__(self, other):
        from pySDC.core.errors import DataError
        if not isinstance(other, EParticles):
            raise DataError('Type error: cannot add %s to %s' % (type(other), type(self)))
        p = EParticles(self)
        p.pos, p.vel = self.pos + other.pos, self.vel + other.vel
        return p

    def __sub__(self, other):
        from pySDC.core.errors import DataError
        if not isinstance(other, EParticles):
            raise DataError('Type error: cannot subtract %s from %s' % (type(other), type(self)))
        p = EParticles(self)
        p.pos, p.vel = self.pos - other.pos, self.vel - other.vel
        return p

    def __rmul__(self, c):
        p = EParticles(self)
        p.pos, p.vel = c * self.pos, c * self.vel
        return p

    def __abs__(self):
        return max(abs(self.pos), abs(self.vel))


class EFields:
    __array_ufunc__ = None

    def __init__(self, init=None, val=None):
        if isinstance(init, EFields):
            self.elec, self.magn = EVec(init.elec), EVec(init.magn)
        else:
            v = 0 if val is None else val
            self.elec, self.magn = EVec(3 * init, v), EVec(3 * init, v)

    def __add__(self, o):
        p = EFields(self); p.elec, p.magn = self.elec + o.elec, self.magn + o.magn; return p

    def __sub__(self, o):
        p = EFields(self); p.elec, p.magn = self.elec - o.elec, self.magn - o.magn; return p


def cross(u, w):
    return [u[1] * w[2] - u[2] * w[1], u[2] * w[0] - u[0] * w[2], u[0] * w[1] - u[1] * w[0]]


class LinTrap(ex.Problem):
    """N particles; elec_n = Emat pos_n + kv vel_n + t e_t + cpl sum_k (pos_n - pos_k) + m_n e_m;  magn_n = B0 + Bmat pos_n;
    build_f = q/m (E + v x B) + t g_t  (g_t = 0: exactly PenningTrap_3D.build_f);  boris_solver as in PenningTrap_3D."""
    dtype_u = EParticles
    dtype_f = EFields

    def __init__(self, N, Emat, et, kv, cpl, em, B0, Bmat, gt):
        super().__init__(init=N)
        self.N, self.Emat, self.et, self.kv, self.cpl, self.em, self.B0, self.Bmat, self.gt = N, Emat, et, kv, cpl, em, B0, Bmat, gt
        self.calls = []

    def eval_f(self, part, t):
        t = F(t)
        N = self.N
        f = EFields(N)
        e, b = [], []
        for n in range(N):
            x = part.pos.v[3 * n:3 * n + 3]
            for i in range(3):
                val = sum(self.Emat[i][k] * x[k] for k in range(3)) + self.kv * part.vel.v[3 * n + i] + t * self.et[i]
                val += self.cpl * sum(part.pos.v[3 * n + i] - part.pos.v[3 * k + i] for k in range(N)) + part.m[n] * self.em[i]
                e.append(val)
                b.append(self.B0[i] + sum(self.Bmat[i][k] * x[k] for k in range(3)))
        f.elec, f.magn = EVec(e), EVec(b)
        return f

    def force(self, f, vel, q, m):
        """G(fields, velocity, attributes) = q/m (E + v x B)"""
        out = []
        for n in range(self.N):
            c = cross(vel.v[3 * n:3 * n + 3], f.magn.v[3 * n:3 * n + 3])
            out += [q[n] / m[n] * (f.elec.v[3 * n + i] + c[i]) for i in range(3)]
        return EVec(out)

    def build_f(self, f, part, t):
        from pySDC.core.errors import ProblemError
        if not isinstance(part, EParticles):
            raise ProblemError('something is wrong during build_f, got %s' % type(part))
        t = F(t)
        g = self.force(f, part.vel, part.q, part.m)
        return EVec([g.v[3 * n + i] + t * self.gt[i] for n in range(self.N) for i in range(3)])

    def boris_solver(self, c, dt, old_fields, new_fields, old_parts):
        dt = F(dt)
        self.calls.append(dt)
        out = []
        half = F(1, 2)
        for n in range(self.N):
            sl = slice(3 * n, 3 * n + 3)
            a = old_parts.q[n] / old_parts.m[n]
            emean = [half * (x + y) for x, y in zip(old_fields.elec.v[sl], new_fields.elec.v[sl])]
            dB = [x - y for x, y in zip(old_fields.magn.v[sl], new_fields.magn.v[sl])]
            vo = old_parts.vel.v[sl]
            cn = [x + dt / 2 * a * y for x, y in zip(c.v[sl], cross(vo, dB))]
            vm = [vo[i] + dt / 2 * a * emean[i] + cn[i] / 2 for i in range(3)]
            t = [dt / 2 * a * x for x in new_fields.magn.v[sl]]
            s = [2 * x / (1 + sum(y * y for y in t)) for x in t]
            vmt = [x + y for x, y in zip(vm, cross(vm, t))]
            vp = [x + y for x, y in zip(vm, cross(vmt, s))]
            out += [vp[i] + dt / 2 * a * emean[i] + cn[i] / 2 for i in range(3)]
        return EVec(out)


# ----------------------------------------------------------------------------------------- tables

TABLES = ('S', 'ST', 'SQ', 'Sx', 'QQ', 'QI', 'QT', 'Qx')

# candidate defect of the pinned tree (documented in docs/C02_boris.md): for QI != IE or QE != EE the tables ST/QT no longer describe the
# velocity update.  Recorded in the coverage data on every run; reported as a violation only when this is switched on (the
# orchestrator decides between a fix and a known-findings entry matching {'kind': 'boris-nondefault-QI-QE'}).
REPORT_NONDEFAULT_QD_DEFECT = True


def exact_tables(QI, QE, Q, w):
    """__get_Qd recomputed exactly from Fraction matrices QI, QE, Qmat (object arrays) and weights"""
    n = Q.shape[0]
    half = F(1, 2)
    QT = half * (QI + QE)
    Qx = np.dot(QE, QT) + half * QE * QE
    Sx, ST, S = Qx.copy(), QT.copy(), Q.copy()
    for m in range(1, n):
        Sx[m, :] = Qx[m, :] - Qx[m - 1, :]
        ST[m, :] = QT[m, :] - QT[m - 1, :]
        S[m, :] = Q[m, :] - Q[m - 1, :]
    return dict(S=S, ST=ST, SQ=np.dot(S, Q), Sx=Sx, QQ=np.dot(Q, Q), QI=QI, QT=QT, Qx=Qx, qQ=np.dot(w, Q[1:, 1:]))


def check_tables(ck, sw, cfg):
    """the float tables of the real sweeper against the exact recomputation from the images of QI, QE, Qmat, weights"""
    QIf = sw.QI
    QEf = sw.get_Qdelta_explicit(qd_type=sw.params.QE)
    want = exact_tables(ex.frac_array(QIf), ex.frac_array(QEf), ex.frac_array(sw.coll.Qmat), ex.frac_array(sw.coll.weights))
    worst = 0.0
    bad = None
    for name in TABLES + ('qQ',):
        have = ex.frac_array(getattr(sw, name))
        if have.shape != want[name].shape:
            bad = (name, 'shape')
            break
        scale = max([abs(x) for x in want[name].flat] + [F(1, 10)])
        err = max(abs(a - b) for a, b in zip(have.flat, want[name].flat)) / scale
        worst = max(worst, float(err))
        if err > F(1, 10 ** 13):
            bad = (name, float(err))
            break
    if sw.Q is not sw.coll.Qmat and not np.array_equal(sw.Q, sw.coll.Qmat):
        bad = ('Q', 'not coll.Qmat')
    # node distances used for the position drift  dt*delta_m*v0  = row sums of S
    M = sw.coll.num_nodes
    for m in range(M):
        rs = sum(want['S'][m + 1, j] for j in range(M + 1))
        if abs(F(float(sw.coll.delta_m[m])) - rs) > F(1, 10 ** 13):
            bad = ('delta_m', m)
    ck.cov['boris_table_max_rel_err'] = max(ck.cov.get('boris_table_max_rel_err', 0.0), worst)
    if bad:
        ck.violation('boris_2nd_order table %s is not what __get_Qd promises (S, ST, Sx = row differences of Q, QT, Qx; SQ = S Q; QQ = Q Q; qQ = w Q)' % bad[0],
                     {'config': cfg, 'table': bad[0], 'detail': bad[1]}, match={'kind': 'boris-table', 'table': bad[0]})
    # trapezoid rows: the velocity update hard-wires  dt*QI[m,m]/2 (F_{m-1} + F_m); this is the ST (= row differences of QT) part of the
    # iteration only if ST[m, m-1] = ST[m, m] = QI[m,m]/2 and ST[m, j] = 0 otherwise -- true for QI = IE, QE = EE, NOT for other choices
    # (candidate defect: with e.g. QI = LU the sweep converges to something that is not the collocation solution; docs/C02_boris.md)
    trap = True
    for m in range(1, M + 1):
        for j in range(M + 1):
            e = want['QI'][m, m] / 2 if j in (m - 1, m) else F(0)
            if abs(want['ST'][m, j] - e) > F(1, 10 ** 13):
                trap = False
    d = ck.cov.setdefault('boris_trapezoid_rows_by_QI_QE', {})
    d['%s/%s' % (cfg['QI'], cfg['QE'])] = d.get('%s/%s' % (cfg['QI'], cfg['QE']), True) and trap
    if not trap and cfg['QI'] == 'IE' and cfg['QE'] == 'EE':
        ck.violation('boris_2nd_order: ST rows are not the trapezoid rows dt*QI[m,m]/2 at columns m-1, m (IE/EE)',
                     {'config': cfg}, match={'kind': 'boris-table', 'table': 'ST-trapezoid'})
    elif not trap and REPORT_NONDEFAULT_QD_DEFECT:
        ck.violation('boris_2nd_order accepts QI=%s, QE=%s but its velocity update hard-wires the IE/EE trapezoid: the sweep is not the QT-preconditioned iteration '
                     '(fixed point is not the collocation solution)' % (cfg['QI'], cfg['QE']), {'config': cfg},
                     match={'kind': 'boris-nondefault-QI-QE', 'QI': cfg['QI'], 'QE': cfg['QE']})
    return bad is None


# ----------------------------------------------------------------------------------------- one case

DENS = (1, 1, 2, 2, 4)      # dyadic data keep the exact rationals (and the kernel's gcds) small


def rand_table(rng, n, lower=False):
    T = [[F(0)] * n for _ in range(n)]
    for i in range(1, n):
        for j in range(0, (i + 1) if lower else n):
            T[i][j] = rfrac(rng, -2, 3, DENS) if rng.random() < 0.85 else F(0)
    return np.array(T, dtype=object)


def build_case(ck, rng, thorough, idx):
    from pySDC.implementations.sweeper_classes.boris_2nd_order import boris_2nd_order
    mode = ['inject', 'inject', 'image', 'consistent'][idx % 4]
    M = rng.choice([1, 2, 2, 3, 3, 4] if mode != 'image' else [1, 2, 2])
    quad = rng.choice(['RADAU-RIGHT', 'LOBATTO', 'GAUSS', 'RADAU-LEFT'])
    if quad in ('LOBATTO', 'RADAU-LEFT') and M < 2:
        M = 2
    ntype = rng.choice(['LEGENDRE', 'LEGENDRE', 'EQUID', 'CHEBY-1'])
    N = rng.choice([1, 1, 2]) if mode != 'image' else 1
    if mode == 'consistent' or rng.random() < 0.5:
        QIn, QEn = 'IE', 'EE'
    else:
        QIn, QEn = rng.choice(['IE', 'LU', 'MIN']), rng.choice(['EE', 'PIC'])
    dt = F(rng.choice([1, 1, 3]), rng.choice([1, 2, 4, 8]))
    t0 = rfrac(rng, -2, 2, DENS)
    sp = {'num_nodes': M, 'quad_type': quad, 'node_type': ntype, 'QI': QIn, 'QE': QEn, 'do_coll_update': rng.random() < 0.5}
    cfg = dict(mode=mode, M=M, quad=quad, node_type=ntype, N=N, QI=QIn, QE=QEn, dt=str(dt), t0=str(t0), do_coll_update=sp['do_coll_update'])
    pd = (1,) if mode == 'image' else (1, 1, 2)
    vec3 = lambda lo=-2, hi=2: [rfrac(rng, lo, hi, pd) for _ in range(3)]
    mat3 = lambda: [vec3() for _ in range(3)]
    z3 = [F(0)] * 3
    with_time_force = rng.random() < 0.3
    # a position dependent B field makes the Boris rotation's denominators 1 + |t|^2 compound from node to node: only sometimes, small M
    pos_dep_B = mode != 'image' and M <= 2 and rng.random() < 0.5
    pp = dict(N=N, Emat=mat3(), et=vec3(), kv=rfrac(rng, -1, 1, pd), cpl=rfrac(rng, -1, 1, pd), em=vec3(), B0=vec3(-3, 3),
              Bmat=mat3() if pos_dep_B else [z3] * 3, gt=vec3() if with_time_force else z3)
    cfg['time_dependent_build_f'] = with_time_force
    L = ex.make_level(boris_2nd_order, sp, LinTrap, pp, dt)
    sw = L.sweep
    tables_ok = check_tables(ck, sw, cfg)
    n = M + 1
    if mode == 'image':
        for a in TABLES + ('qQ',):
            setattr(sw, a, ex.frac_array(getattr(sw, a)))
        sw.coll.Qmat = ex.frac_array(sw.coll.Qmat)
        sw.coll.weights, sw.coll.nodes, sw.coll.delta_m = ex.frac_array(sw.coll.weights), ex.frac_array(sw.coll.nodes), ex.frac_array(sw.coll.delta_m)
    elif mode == 'inject':          # arbitrary, mutually unrelated tables: the node-to-node theorems hold for all of them
        for a in ('S', 'ST', 'SQ', 'Sx', 'QQ', 'QT', 'Qx'):
            setattr(sw, a, rand_table(rng, n))
        sw.QI = rand_table(rng, n, lower=True)
        sw.coll.Qmat = rand_table(rng, n)
        sw.qQ = np.array([rfrac(rng, -1, 2, DENS) for _ in range(M)], dtype=object)
        sw.coll.weights = np.array([rfrac(rng, 0, 3, DENS) for _ in range(M)], dtype=object)
        sw.coll.nodes = np.array(sorted(F(rng.randint(0, 8), 8) for _ in range(M)), dtype=object)
        sw.coll.delta_m = np.array([rfrac(rng, 0, 3, DENS) for _ in range(M)], dtype=object)
    else:                           # small rational Q, IE/EE-like QI, QE; all other tables as __get_Qd defines them (exactly)
        nodes = sorted(rng.sample(range(1, 9), M))
        nodes = [F(x, 8) for x in nodes]
        Qm = rand_table(rng, n)
        Qm[:, 0] = F(0)
        QI = np.array([[F(0)] * n for _ in range(n)], dtype=object)
        QE = np.array([[F(0)] * n for _ in range(n)], dtype=object)
        dl = [nodes[0]] + [nodes[m] - nodes[m - 1] for m in range(1, M)]
        for i in range(1, n):
            for j in range(1, i + 1):
                QI[i, j] = dl[j - 1]
            for j in range(0, i):
                QE[i, j] = dl[j]
        w = np.array([rfrac(rng, 0, 3, DENS) for _ in range(M)], dtype=object)
        T = exact_tables(QI, QE, Qm, w)
        for a in TABLES + ('qQ',):
            setattr(sw, a, T[a])
        sw.coll.Qmat = Qm
        sw.coll.weights, sw.coll.nodes, sw.coll.delta_m = w, np.array(nodes, dtype=object), np.array(dl, dtype=object)
    sw.Q = sw.coll.Qmat
    L.params.dt = dt
    L.status.time = t0
    L.status.unlocked = True
    L.status.sweep = 1
    P = L.prob
    uniform_attr = rng.random() < 0.7
    q0 = [F(rng.choice([-2, -1, 1, 2, 3])) for _ in range(N)]
    m0 = [F(rng.choice([1, 2, 4]), rng.choice([1, 2])) for _ in range(N)]
    for m in range(M + 1):
        u = EParticles(N)
        u.pos = EVec([rfrac(rng, -3, 3, pd) for _ in range(3 * N)])
        u.vel = EVec([rfrac(rng, -3, 3, pd) for _ in range(3 * N)])
        if uniform_attr:
            u.q, u.m = list(q0), list(m0)
        else:
            u.q = [F(rng.choice([-2, -1, 1, 2, 3])) for _ in range(N)]
            u.m = [F(rng.choice([1, 2, 4]), rng.choice([1, 2])) for _ in range(N)]
        L.u[m] = u
    consistent_f = rng.random() < 0.6
    for m in range(M + 1):
        tm = t0 if m == 0 else t0 + dt * sw.coll.nodes[m - 1]
        fm = P.eval_f(L.u[m], tm)
        if not consistent_f:
            fm.elec = EVec([rfrac(rng, -3, 3, pd) for _ in range(3 * N)])
            fm.magn = EVec([rfrac(rng, -3, 3, pd) for _ in range(3 * N)])
        L.f[m] = fm
    tau_mode = rng.choice(['none', 'all', 'all', 'some'])
    for m in range(M):
        if tau_mode == 'all' or (tau_mode == 'some' and rng.random() < 0.6):
            t = EParticles(N)
            t.pos = EVec([rfrac(rng, -2, 2, pd) for _ in range(3 * N)])
            t.vel = EVec([rfrac(rng, -2, 2, pd) for _ in range(3 * N)])
            L.tau[m] = t
    cfg.update(uniform_attr=uniform_attr, consistent_f=consistent_f, tau=tau_mode, tables_ok=tables_ok)
    return L, pp, cfg


def snapshot(L):
    M = L.sweep.coll.num_nodes
    return dict(p=[list(L.u[m].pos.v) for m in range(M + 1)], v=[list(L.u[m].vel.v) for m in range(M + 1)],
                q=[list(L.u[m].q) for m in range(M + 1)], m=[list(L.u[m].m) for m in range(M + 1)],
                fe=[list(L.f[m].elec.v) for m in range(M + 1)], fm=[list(L.f[m].magn.v) for m in range(M + 1)],
                tau=[None if t is None else (list(t.pos.v), list(t.vel.v)) for t in L.tau])


def run_real(L):
    """observables in the order of BorisExec.run_boris; None when update_nodes raised"""
    from pySDC.core.errors import DataError
    sw = L.sweep
    M = sw.coll.num_nodes
    ints = sw.integrate()
    try:
        sw.update_nodes()
    except (DataError, TypeError, AttributeError) as e:
        return None, dict(raised=type(e).__name__, ints=ints)
    sw.compute_residual()
    res = [EParticles(r) for r in L.residual]
    sw.compute_end_point()
    out = []
    for r in ints:
        out += r.pos.v
    for r in ints:
        out += r.vel.v
    for m in range(1, M + 1):
        out += L.u[m].pos.v
    for m in range(1, M + 1):
        out += L.u[m].vel.v
    for m in range(1, M + 1):
        out += L.f[m].elec.v
    for m in range(1, M + 1):
        out += L.f[m].magn.v
    for r in res:
        out += r.pos.v
    for r in res:
        out += r.vel.v
    out += L.uend.pos.v + L.uend.vel.v
    return out, dict(raised=None, ints=ints, res=res, residual=L.status.residual)


def coq_case(L, pp, before, expected):
    sw = L.sweep
    M = sw.coll.num_nodes
    prob = ('{| bp_N := %d%%nat; bp_Emat := %s; bp_et := %s; bp_kv := %s; bp_cpl := %s; bp_em := %s; bp_B0 := %s; bp_Bmat := %s; bp_gt := %s |}'
            % (pp['N'], qcm(pp['Emat']), qcl(pp['et']), qc(pp['kv']), qc(pp['cpl']), qcl(pp['em']), qcl(pp['B0']), qcm(pp['Bmat']), qcl(pp['gt'])))
    taus = ['None'] + [('None' if t is None else '(Some (%s, %s))' % (qcl(t[0]), qcl(t[1]))) for t in before['tau']]
    fields = [
        'b_M := %d%%nat' % M, 'b_dt := %s' % qc(L.params.dt), 'b_t0 := %s' % qc(L.status.time),
        'b_nodes := %s' % qcl([0] + list(sw.coll.nodes)), 'b_delta := %s' % qcl([0] + list(sw.coll.delta_m)),
        'b_Q := %s' % qcm(sw.coll.Qmat.tolist()), 'b_QQ := %s' % qcm(sw.QQ.tolist()), 'b_S := %s' % qcm(sw.S.tolist()),
        'b_ST := %s' % qcm(sw.ST.tolist()), 'b_SQ := %s' % qcm(sw.SQ.tolist()), 'b_Sx := %s' % qcm(sw.Sx.tolist()),
        'b_QId := %s' % qcl(list(np.diag(sw.QI))), 'b_w := %s' % qcl([0] + list(sw.coll.weights)), 'b_qQ := %s' % qcl([0] + list(sw.qQ)),
        'b_prob := %s' % prob, 'b_p := %s' % qcm(before['p']), 'b_v := %s' % qcm(before['v']),
        'b_fe := %s' % qcm(before['fe']), 'b_fm := %s' % qcm(before['fm']), 'b_q := %s' % qcm(before['q']), 'b_m := %s' % qcm(before['m']),
        'b_tau := %s' % coq_list(taus),
    ]
    return '({| %s |}, %s)' % ('; '.join(fields), 'None' if expected is None else '(Some %s)' % qcl(expected))


def oracle(L, pp, cfg, before, after):
    """the block-form identities evaluated on the real outputs in Fractions; returns the list of failures"""
    sw = L.sweep
    P = L.prob
    M, N = cfg['M'], cfg['N']
    D = 3 * N
    dt, t0 = L.params.dt, L.status.time
    nodes = list(sw.coll.nodes)
    Q, QQ, S, ST, SQ, Sx = sw.coll.Qmat, sw.QQ, sw.S, sw.ST, sw.SQ, sw.Sx
    QId = np.diag(sw.QI)
    w, qQ, delta = sw.coll.weights, sw.qQ, sw.coll.delta_m
    fails = []
    tau = [None] + before['tau']                      # 1-based
    should_raise = any(tau[m] is not None and tau[m - 1] is None for m in range(2, M + 1))
    if (after['raised'] is not None) != should_raise:
        return [('raise', after['raised'], should_raise)]

    def part(p, v, q, m):
        u = EParticles(N); u.pos, u.vel, u.q, u.m = EVec(p), EVec(v), list(q), list(m); return u

    def fld(e, b):
        f = EFields(N); f.elec, f.magn = EVec(e), EVec(b); return f

    tn = lambda m: t0 + dt * nodes[m - 1]
    tb = lambda j: t0 + dt * nodes[j - 1]            # j = 0: nodes[-1], the last node (as the code does)
    Fo = [P.build_f(fld(before['fe'][j], before['fm'][j]), part(before['p'][j], before['v'][j], before['q'][j], before['m'][j]), tb(j)).v for j in range(M + 1)]
    # integrate() of the old state
    v0 = before['v'][0]
    for m in range(1, M + 1):
        for x in range(D):
            ip = dt * dt * sum(QQ[m, j] * Fo[j][x] for j in range(1, M + 1)) + dt * sum(Q[m, j] for j in range(1, M + 1)) * v0[x]
            iv = dt * sum(Q[m, j] * Fo[j][x] for j in range(1, M + 1))
            if after['ints'][m - 1].pos.v[x] != ip or after['ints'][m - 1].vel.v[x] != iv:
                fails.append(('integrate', m, x))
    if should_raise:
        now = snapshot(L)
        if any(now[k] != before[k] for k in ('p', 'v', 'q', 'm', 'fe', 'fm')):
            fails.append(('raise_changed_state',))
        return fails
    now = snapshot(L)
    pn, vn = now['p'], now['v']
    if now['q'] != before['q'] or now['m'] != before['m']:
        fails.append(('attributes_changed',))
    if pn[0] != before['p'][0] or vn[0] != before['v'][0] or now['fe'][0] != before['fe'][0] or now['fm'][0] != before['fm'][0]:
        fails.append(('node0_changed',))
    Fn = [P.build_f(fld(now['fe'][j], now['fm'][j]), part(pn[j], vn[j], now['q'][j], now['m'][j]), tb(j)).v for j in range(M + 1)]

    def tauN(m, k, x):
        if tau[m] is None:
            return F(0)
        return tau[m][k][x] - (tau[m - 1][k][x] if m > 1 else 0)

    for m in range(1, M + 1):
        # stored fields = eval_f at the node's time, NEW position, OLD velocity
        fe = P.eval_f(part(pn[m], before['v'][m], now['q'][m], now['m'][m]), tn(m))
        if list(fe.elec.v) != now['fe'][m] or list(fe.magn.v) != now['fm'][m]:
            fails.append(('fields', m))
        for x in range(D):
            lhs = pn[m][x] - pn[m - 1][x] - dt * dt * sum(Sx[m, j] * Fn[j][x] for j in range(0, m))
            rhs = dt * delta[m - 1] * v0[x] + dt * dt * sum((SQ[m, j] - Sx[m, j]) * Fo[j][x] for j in range(M + 1)) + tauN(m, 0, x)
            if lhs != rhs:
                fails.append(('position', m, x))
        if not cfg['time_dependent_build_f']:
            # velocities: the solver contract with the attributes of node m-1 (= block form when attributes are uniform)
            a = dt * QId[m]
            Go = P.force(fld(now['fe'][m - 1], now['fm'][m - 1]), EVec(vn[m - 1]), now['q'][m - 1], now['m'][m - 1]).v
            Gn = P.force(fld(now['fe'][m], now['fm'][m]), EVec(vn[m]), now['q'][m - 1], now['m'][m - 1]).v
            for x in range(D):
                c = dt * sum((S[m, j] - ST[m, j]) * Fo[j][x] for j in range(M + 1)) + tauN(m, 1, x)
                if vn[m][x] != vn[m - 1][x] + c + a / 2 * (Go[x] + Gn[x]):
                    fails.append(('velocity', m, x))
                if cfg['uniform_attr'] and vn[m][x] - vn[m - 1][x] - a / 2 * (Fn[m - 1][x] + Fn[m][x]) != c:
                    fails.append(('velocity_block', m, x))
    # residual particles and their norm
    for m in range(1, M + 1):
        tm = tau[m] or ([F(0)] * D, [F(0)] * D)
        for x in range(D):
            rp = before['p'][0][x] + dt * sum(Q[m, j] for j in range(1, M + 1)) * v0[x] + dt * dt * sum(QQ[m, j] * Fn[j][x] for j in range(1, M + 1)) + tm[0][x] - pn[m][x]
            rv = v0[x] + dt * sum(Q[m, j] * Fn[j][x] for j in range(1, M + 1)) + tm[1][x] - vn[m][x]
            if after['res'][m - 1].pos.v[x] != rp or after['res'][m - 1].vel.v[x] != rv:
                fails.append(('residual', m, x))
    if after['residual'] != max(abs(r) for r in after['res']):
        fails.append(('residual_norm',))
    # end point: always the quadrature
    tM = tau[M] or ([F(0)] * D, [F(0)] * D)
    for x in range(D):
        ep = before['p'][0][x] + dt * sum(w[m - 1] for m in range(1, M + 1)) * v0[x] + dt * dt * sum(qQ[m - 1] * Fn[m][x] for m in range(1, M + 1)) + tM[0][x]
        ev = v0[x] + dt * sum(w[m - 1] * Fn[m][x] for m in range(1, M + 1)) + tM[1][x]
        if L.uend.pos.v[x] != ep or L.uend.vel.v[x] != ev:
            fails.append(('end_point', x))
    if list(L.uend.q) != before['q'][0] or list(L.uend.m) != before['m'][0]:
        fails.append(('end_point_attributes',))
    # 0-to-node form (tables as __get_Qd defines them, IE/EE, all tau present or none, uniform attributes, PenningTrap-like build_f)
    if cfg['mode'] == 'consistent' and cfg['tau'] in ('none', 'all') and cfg['uniform_attr'] and not cfg['time_dependent_build_f']:
        QT, Qx = sw.QT, sw.Qx
        for m in range(1, M + 1):
            tm = tau[m] or ([F(0)] * D, [F(0)] * D)
            for x in range(D):
                lhs = pn[m][x] - dt * dt * sum(Qx[m, j] * Fn[j][x] for j in range(0, m))
                rhs = before['p'][0][x] + dt * nodes[m - 1] * v0[x] + dt * dt * sum((QQ[m, j] - Qx[m, j]) * Fo[j][x] for j in range(M + 1)) + tm[0][x]
                if lhs != rhs:
                    fails.append(('position_0_to_node', m, x))
                lhs = vn[m][x] - dt * sum(QT[m, j] * Fn[j][x] for j in range(0, m + 1))
                rhs = v0[x] + dt * sum((Q[m, j] - QT[m, j]) * Fo[j][x] for j in range(M + 1)) + tm[1][x]
                if lhs != rhs:
                    fails.append(('velocity_0_to_node', m, x))
    return fails


def solver_contract_oracle(ck, rng, n):
    """LinTrap.boris_solver (the PenningTrap_3D algorithm in Fractions) solves  v = vo + c + a/2 (G(fo, vo) + G(fn, v))  exactly"""
    bad = 0
    for _ in range(n):
        N = rng.choice([1, 2])
        z3 = [F(0)] * 3
        P = LinTrap(N, [z3] * 3, z3, F(0), F(0), z3, z3, [z3] * 3, z3)
        rv = lambda: EVec([rfrac(rng, -3, 3) for _ in range(3 * N)])
        fo, fn = EFields(N), EFields(N)
        fo.elec, fo.magn, fn.elec, fn.magn = rv(), rv(), rv(), rv()
        old = EParticles(N)
        old.pos, old.vel = rv(), rv()
        old.q = [F(rng.choice([-2, -1, 1, 3]), 2) for _ in range(N)]
        old.m = [F(rng.randint(1, 4), 3) for _ in range(N)]
        c = rv()
        a = rfrac(rng, -2, 2)
        v = P.boris_solver(EVec(c), a, fo, fn, old)
        Go, Gn = P.force(fo, old.vel, old.q, old.m).v, P.force(fn, v, old.q, old.m).v
        if any(v.v[x] != old.vel.v[x] + c.v[x] + a / 2 * (Go[x] + Gn[x]) for x in range(3 * N)):
            bad += 1
    ck.obligation('exact problem: boris_solver satisfies the solver contract on %d random calls' % n, bad == 0)
    if bad:
        ck.violation('harness: the exact boris_solver does not satisfy the contract', {'bad': bad}, match={'kind': 'boris-harness'}, no_input=True)


# ----------------------------------------------------------------------------------------- entry point

def run_part(ck, rng, thorough):
    logging.disable(logging.CRITICAL)
    t_start = time.time()
    n_cases = 400 if thorough else 48
    solver_contract_oracle(ck, rng, 40 if thorough else 10)
    cases = []
    hist = {}
    bit_budget = 700 if thorough else 400
    over_budget = maxbits = 0
    for i in range(n_cases):
        try:
            L, pp, cfg = build_case(ck, rng, thorough, i)
        except Exception as e:      # configuration the collocation class does not offer
            from pySDC.core.errors import CollocationError
            if isinstance(e, (CollocationError, NotImplementedError)) or (isinstance(e, ValueError) and 'NaN' in str(e)):
                ck.cov.setdefault('boris_configurations_rejected_by_code', {}).setdefault(str(e)[:60], 0)
                ck.cov['boris_configurations_rejected_by_code'][str(e)[:60]] += 1
                continue
            ck.violation('boris_2nd_order could not be set up: %s: %s' % (type(e).__name__, e), {'case': i}, match={'kind': 'boris-raise', 'where': 'setup'})
            continue
        before = snapshot(L)
        try:
            expected, after = run_real(L)
        except ZeroDivisionError:
            continue
        except Exception as e:
            ck.violation('real boris_2nd_order raised %s: %s' % (type(e).__name__, e), {'config': cfg, 'before': before},
                         match={'kind': 'boris-raise', 'where': 'run'})
            continue
        key = ('BORIS', cfg['mode'], cfg['M'], cfg['N'], cfg['quad'], cfg['node_type'], cfg['QI'], cfg['QE'], cfg['tau'], cfg['uniform_attr'],
               cfg['consistent_f'], cfg['time_dependent_build_f'], expected is None)
        ck.case(key=key, nontrivial=(cfg['M'] >= 2 or cfg['tau'] != 'none'), sample=dict(cfg, sweeper='boris_2nd_order'))
        hist['%s/M=%d/N=%d' % (cfg['mode'], cfg['M'], cfg['N'])] = hist.get('%s/M=%d/N=%d' % (cfg['mode'], cfg['M'], cfg['N']), 0) + 1
        fails = oracle(L, pp, cfg, before, after)
        if fails:
            ck.violation('boris_2nd_order: real sweeper output violates the block form of the property (%s)' % fails[0][0],
                         {'config': cfg, 'problem': pp, 'before': before, 'failures': fails[:10]},
                         match={'kind': 'boris-oracle-' + str(fails[0][0])})
        bits = max((x.numerator.bit_length() + x.denominator.bit_length() for x in (expected or [])), default=0)
        maxbits = max(maxbits, bits)
        if bits > bit_budget:       # the kernel's rational arithmetic (gcd) is quadratic in the size: such cases are checked by the oracle only
            over_budget += 1
            continue
        cases.append((cfg, coq_case(L, pp, before, expected), bool(fails), before, pp))
    ck.cov['boris_histogram'] = dict(sorted(hist.items()))
    ck.cov['boris_cases_oracle_only_over_bit_budget'] = over_budget
    ck.cov['boris_max_bits'] = maxbits
    ck.cov['boris_cases_raising'] = sum(1 for c in cases if c[1].endswith('None)'))

    chunk = 12
    files = []
    for ci in range(0, len(cases), chunk):
        body = ['From Coq Require Import List ZArith QArith Qcanon.', 'From PySDC Require Import Model.Sweep Model.SweepExec Model.Boris Model.BorisExec.',
                'Import ListNotations.', 'Definition cases : list (bcase * option (list Qc)) := [',
                ';\n'.join(c[1] for c in cases[ci:ci + chunk]), '].', 'Eval vm_compute in map check_boris_case cases.']
        files.append(ck.write_gen('BorisCases_%03d.v' % (ci // chunk), '\n'.join(body) + '\n'))
    with cf.ThreadPoolExecutor(max_workers=4) as pool:
        outs = list(pool.map(lambda f: ck.coqc(f, timeout=900), files))
    results = []
    for f, (rc, out) in zip(files, outs):
        if rc != 0:
            ck.obligation('boris model evaluation ' + f.split('/')[-1], False, out[-800:])
            ck.violation('generated boris correspondence cases do not compile/evaluate', {'file': f, 'log': out[-3000:]},
                         match={'kind': 'gen', 'part': 'boris'}, no_input=True)
            return
        results += parse_coq_value(eval_outputs(out)[0])
    assert len(results) == len(cases)
    ndiff = 0
    for (cfg, _, oracle_failed, before, pp), r in zip(cases, results):
        ck.traces += 1
        if r != -1:
            ndiff += 1
            what = ('model and real boris_2nd_order disagree on whether update_nodes raises' if r == -2
                    else 'model and real boris_2nd_order differ at observable #%d' % r)
            ck.violation(what, {'correspondence': 'Model/BorisExec.run_boris vs real boris_2nd_order', 'config': cfg, 'problem': pp, 'before': before,
                                'first_differing_observable': r}, match={'kind': 'boris-correspondence'}, no_input=not oracle_failed)
    ck.obligation('exact correspondence boris model = implementation on %d sweeps' % len(cases), ndiff == 0)
    ck.cov['boris_part_seconds'] = round(time.time() - t_start, 1)


def main():
    import argparse
    import os
    from harness.common import Check
    ap = argparse.ArgumentParser()
    ap.add_argument('--tier', default='quick', choices=['quick', 'thorough'])
    ap.add_argument('--seed', type=int, default=int(os.environ.get('VERIF_SEED', '0') or 0))
    a = ap.parse_args()
    ck = Check('C02', a.tier, a.seed)
    run_part(ck, ck.rng, a.tier == 'thorough')
    # development driver: report, but write no evidence
    bad = [o for o in ck.obligations if not o['ok']]
    for o in ck.obligations:
        print('obligation %-90s %s' % (o['name'][:90], 'ok' if o['ok'] else 'FAILED ' + o['detail'][:300]))
    for v in ck.violations:
        print('VIOLATION property=C02 replay=%s%s\n   %s' % (v['path'], ' no-failing-input-found' if v['no_input'] else '', v['what']))
    print('cases %d (%d distinct non-trivial), traces %d, violations %d, failed obligations %d, %.1fs; cov %s'
          % (ck.evaluations, len(ck.distinct), ck.traces, len(ck.violations), len(bad), time.time() - ck.t0,
             {k: v for k, v in ck.cov.items() if k.startswith('boris')}))
    if not ck.violations:
        import shutil
        shutil.rmtree(ck.gen, ignore_errors=True)
    raise SystemExit(1 if (ck.violations or bad) else 0)


if __name__ == '__main__':
    main()
