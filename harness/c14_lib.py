"""Helpers of the C14 check (statistics records): Coq literals for Entry/kwargs/dicts, synthetic
dictionary generators, an independent specification of filter_stats (oracle), an independent recording
hook + call-counting problem wrapper + scripted restart controller for real controller_nonMPI runs."""
from fractions import Fraction

from harness.common import float_to_dy, zlit, coq_list

FIELDS = ['process', 'process_sweeper', 'time', 'level', 'iter', 'sweep', 'type', 'num_restarts']
COQ_FIELD = {f: 'F_' + f for f in FIELDS}

HEADER = '''From Coq Require Import ZArith List Bool String.
From PySDC Require Import Model.Stats.
Import ListNotations.
Open Scope Z_scope.
Open Scope string_scope.
Notation N := None (only parsing).
Definition J (z : Z) : option Z := Some z.
Definition T (m e : Z) : option Z := Some (tz m e).
Definition Y (s : string) : option string := Some s.
Definition E := Entry.
'''


# ----------------------------------------------------------------------------- literals

def time_lit(x):
    if x is None:
        return 'N'
    m, e = float_to_dy(float(x))
    assert e >= -1074
    return '(T %s %s)' % (zlit(m), zlit(e))


def oz_lit(x):
    if x is None:
        return 'N'
    assert isinstance(x, (int,)) or (hasattr(x, 'dtype') and x.dtype.kind in 'iu'), repr(x)
    return '(J %s)' % zlit(int(x))


def str_lit(s):
    if s is None:
        return 'N'
    assert '"' not in s and all(32 <= ord(c) < 127 for c in s), s
    return '(Y "%s")' % s


def entry_lit(k):
    """k: anything with the eight Entry attributes (namedtuple) or a dict."""
    g = (lambda f: k.get(f)) if isinstance(k, dict) else (lambda f: getattr(k, f))
    return '(E %s %s %s %s %s %s %s %s)' % (oz_lit(g('process')), oz_lit(g('process_sweeper')), time_lit(g('time')),
                                          oz_lit(g('level')), oz_lit(g('iter')), oz_lit(g('sweep')), str_lit(g('type')),
                                          oz_lit(g('num_restarts')))


def kwargs_lit(kw):
    """kw: dict of keyword arguments as passed to filter_stats (may hold None values and unknown names)."""
    known = {f: kw.get(f) for f in FIELDS}
    unknown = any(k not in FIELDS and v is not None for k, v in kw.items())
    return '(KW %s %s)' % (entry_lit(known), 'true' if unknown else 'false')


def dict_lit(items):
    """items: list of (key, int value)."""
    return coq_list(['(%s, %s)' % (entry_lit(k), zlit(int(v))) for k, v in items])


def item_lit(x):
    if x is None:
        return 'INone'
    if isinstance(x, str):
        return '(IS "%s")' % x
    if isinstance(x, float):
        m, e = float_to_dy(x)
        return '(IZ (tz %s %s))' % (zlit(m), zlit(e))
    return '(IZ %s)' % zlit(int(x))


def recomputed_lit(r):
    return 'N' if r is None else ('(Some true)' if r else '(Some false)')


# ----------------------------------------------------------------------------- independent specification (oracle)

def spec_matches(k, kw):
    """Entry k matches the keyword arguments: every keyword given with a non-None value names a field of k
    holding an equal value."""
    for name, want in kw.items():
        if want is None:
            continue
        if name not in FIELDS:
            return False
        have = getattr(k, name)
        if have is None or have != want:
            return False
    return True


def spec_filter_regular(items, kw, recomputed):
    """Set-level specification of filter_stats on *regular* dictionaries (every time, type, num_restarts is not
    None, restart counts >= 0): an entry is returned iff it matches, carries the largest restart count among the matching
    entries of its (time, type) group, and — unless type='_recomputed' was asked for — its time is not the
    time of a truthy '_recomputed' marker that carries the largest restart count among the markers of that time
    (markers taken from the whole dictionary).  Mirrors StatsProofs.filter_stats_regular_spec."""
    sel = [(k, v) for k, v in items if spec_matches(k, kw)]
    if recomputed is None:
        return sel
    best = {}
    for k, v in sel:
        g = (k.time, k.type)
        best[g] = max(best.get(g, k.num_restarts), k.num_restarts)
    out = [(k, v) for k, v in sel if k.num_restarts == best[(k.time, k.type)]]
    if kw.get('type') != '_recomputed':
        mk = [(k, v) for k, v in items if k.type == '_recomputed']
        mbest = {}
        for k, v in mk:
            mbest[k.time] = max(mbest.get(k.time, k.num_restarts), k.num_restarts)
        bad = {k.time for k, v in mk if v and k.num_restarts == mbest[k.time]}
        out = [(k, v) for k, v in out if k.time not in bad]
    return out


def is_regular(items):
    return all(k.time is not None and k.type is not None and k.num_restarts is not None and k.num_restarts >= 0 for k, _ in items)


# ----------------------------------------------------------------------------- synthetic dictionaries

TIMES = [0.0, 0.1, 0.25, 0.3, 0.1 + 0.2, 1.0, 0.028729953641797177, 2.5, -1.0]
TYPES = ['niter', 'u', '_recomputed', 'dt', 'work_rhs', 'restart']


def gen_entry_fields(rng, flavour):
    none_p = 0.0 if flavour == 'regular' else (0.12 if flavour == 'nones' else 0.03)

    def pick(vals, allow_none=True):
        if allow_none and rng.random() < none_p:
            return None
        return rng.choice(vals)
    nt = 3 if flavour != 'wide' else len(TIMES)
    return dict(process=pick([0, 1, -1]), process_sweeper=pick([None, 0, -1], False), time=pick(TIMES[:nt] if rng.random() < 0.8 else TIMES),
                level=pick([-1, 0, 1]), iter=pick([-1, 1, 2]), sweep=pick([1, -1]),
                type=pick(TYPES[:3] if rng.random() < 0.7 else TYPES),
                num_restarts=pick([0, 0, 1, 1, 2, 3] + ([-1] if flavour == 'nones' else [])))


def gen_dict(rng, Entry, flavour, n):
    d = {}
    for _ in range(n):
        f = gen_entry_fields(rng, flavour)
        k = Entry(**f)
        if f['type'] == '_recomputed':
            v = rng.choice([True, False, False])
        else:
            v = rng.randint(0, 9)
        d[k] = v      # later duplicates overwrite (dict semantics) — position of the first insertion kept
    return d


def gen_runlike_dict(rng, Entry, aliased):
    """Dictionary shaped like the stats of a run with restarts: blocks of steps, start-time keyed 'niter',
    end-time keyed 'u', '_recomputed' markers at both ends, restart counters either lineage-true or scrambled."""
    d = {}
    nproc = rng.randint(1, 3)
    t = 0.0
    dt = rng.choice([0.5, 0.25, 0.1])
    cnt = [0] * nproc
    for block in range(rng.randint(2, 5)):
        flags = []
        rfrom = rng.choice([None, None] + list(range(nproc))) if block < 4 else None
        times = [t + i * dt for i in range(nproc)]
        for s in range(nproc):
            restart = rfrom is not None and s >= rfrom
            flags.append(restart)
            c = cnt[s]
            d[Entry(process=s, process_sweeper=None, time=times[s], level=-1, iter=2, sweep=1, type='niter', num_restarts=c)] = 2
            d[Entry(process=s, process_sweeper=None, time=times[s] + dt, level=0, iter=2, sweep=1, type='u', num_restarts=c)] = rng.randint(1, 9)
            for tt in (times[s], times[s] + dt):
                d[Entry(process=-1, process_sweeper=-1, time=tt, level=-1, iter=-1, sweep=-1, type='_recomputed', num_restarts=c)] = restart
        if rfrom is None:
            t = times[-1] + dt
            cnt = [0] * nproc
        else:
            t = times[rfrom]
            new = [cnt[s] + 1 for s in range(rfrom, nproc)] + [0] * rfrom
            if aliased:
                new = [rng.choice([c, max(c - 1, 0), c + 1]) for c in new]
            cnt = new
            if rng.random() < 0.6:
                dt = dt * rng.choice([0.5, 0.75])
    return d


def gen_kwargs(rng, d):
    kw = {}
    ks = list(d.keys())
    for f in FIELDS:
        if rng.random() < 0.22:
            r = rng.random()
            if r < 0.25:
                kw[f] = None
            elif ks and r < 0.9:
                kw[f] = getattr(rng.choice(ks), f)
            else:
                kw[f] = {'time': 0.7, 'type': 'nope'}.get(f, 7)
    if rng.random() < 0.06:
        kw['bogus'] = rng.choice([None, 3])
    return kw


# ----------------------------------------------------------------------------- synthetic cases -> Coq

SORT_FIELDS = ['time', 'time', 'time', 'num_restarts', 'process', 'type', 'iter', 'level', 'sweep', 'process_sweeper']


def run_helpers(stats_helper, d, kw, recomputed, sortby):
    """Run the real helpers on d; returns dict(filter=items|None(raised), sorted=list|None, types=list, err=...,
    raised=[(call, 'Class: msg')] for exceptions other than the TypeErrors Python semantics prescribe,
    mutated=[call, ...] for helper calls that changed (or handed out) the caller's dictionary).
    d is restored to its original content before returning."""
    out = {'err': None, 'raised': [], 'mutated': []}
    pristine = list(d.items())

    def guard(call, fn, *a, **k):
        """call a helper; returns (result, exception-or-None); checks that d is untouched and not aliased"""
        res, exc = None, None
        try:
            res = fn(*a, **k)
        except Exception as e:
            exc = e
            if not isinstance(e, TypeError):
                out['raised'].append((call, '%s: %s' % (type(e).__name__, e)))
        if res is d:
            out['mutated'].append(call + ' returns the caller\'s dictionary itself')
        if list(d.items()) != pristine:
            out['mutated'].append(call + ' changed the caller\'s dictionary (%d -> %d entries)' % (len(pristine), len(d)))
            d.clear()
            d.update(pristine)
        return res, exc

    kws = dict(kw)
    if recomputed is not None:
        kws['recomputed'] = recomputed
    r, exc = guard('filter_stats(stats, **%r)' % (kws,), stats_helper.filter_stats, d, **kws)
    if exc is not None:
        out['filter'] = None
        out['err'] = 'filter: ' + type(exc).__name__
        r = None
    else:
        out['filter'] = list(r.items())
        r = dict(out['filter'])      # a private copy for the sort calls
    out['sorted'] = None
    if r is not None:
        s, exc = guard('sort_stats(filtered, sortby=%r)' % sortby, stats_helper.sort_stats, r, sortby=sortby)
        if exc is not None:
            out['err'] = 'sort: ' + type(exc).__name__
        else:
            out['sorted'] = [(a.item() if hasattr(a, 'item') else a, b) for a, b in s]
            # get_sorted must be the composition
            g, exc = guard('get_sorted(stats, sortby=%r, **%r)' % (sortby, kws), stats_helper.get_sorted, d, sortby=sortby, **kws)
            out['get_sorted_same'] = exc is None and (list(g) == list(s))
    t, exc = guard('get_list_of_types(stats)', stats_helper.get_list_of_types, d)
    out['types'] = t if exc is None else None
    # key-less calls (no oracle on the value here: that is what the drawn case does when its kwargs are empty)
    guard('filter_stats(stats)', stats_helper.filter_stats, d)
    guard('filter_stats(stats, recomputed=False)', stats_helper.filter_stats, d, recomputed=False)
    guard('filter_stats(stats, recomputed=True)', stats_helper.filter_stats, d, recomputed=True)
    guard('get_sorted(stats, recomputed=False, sortby=%r)' % sortby, stats_helper.get_sorted, d, recomputed=False, sortby=sortby)
    return out


def case_coq(idx, d_items, kw, recomputed, sortby, res):
    """Coq text evaluating the model on one case and comparing with the implementation's results."""
    L = []
    L.append('Definition d%d : dict Z := %s.' % (idx, dict_lit(d_items)))
    exp_f = 'N' if res['filter'] is None else '(Some %s)' % dict_lit(res['filter'])
    exp_s = 'N' if res['sorted'] is None else '(Some %s)' % coq_list(['(%s, %s)' % (item_lit(a), zlit(int(b))) for a, b in res['sorted']])
    exp_t = coq_list([str_lit(t) for t in (res['types'] or [])])
    L.append('Definition c%d : bool * bool * bool :=' % idx)
    L.append('  let f := filter_stats ztruthy d%d %s %s in' % (idx, kwargs_lit(kw), recomputed_lit(recomputed)))
    L.append('  (match f, %s with Some a, Some b => dict_eqb a b | None, None => true | _, _ => false end,' % exp_f)
    if res['filter'] is None:
        L.append('   true,')
    else:
        L.append('   match get_sorted ztruthy d%d %s %s %s, %s with Some a, Some b => items_eqb a b | None, None => true | _, _ => false end,'
                 % (idx, COQ_FIELD[sortby], kwargs_lit(kw), recomputed_lit(recomputed), exp_s))
    L.append('   types_eqb (get_list_of_types d%d) %s).' % (idx, exp_t))
    return '\n'.join(L)


# ----------------------------------------------------------------------------- real runs: recorder, counting problem, scripted restarts

def make_run_tools():
    """Build (lazily, so that PYTHONPATH decides which pySDC is imported) the classes used for real runs."""
    from pySDC.core.hooks import Hooks
    from pySDC.core.convergence_controller import ConvergenceController

    class Recorder(Hooks):
        """Independent record of the callbacks of a run.  Calls the base class everywhere (does not write stats)."""
        events = []
        counts = None      # callable: problem -> dict of independent call counts

        def _ev(self, name, step, level_number):
            L = step.levels[level_number]
            P = step.levels[0].prob
            Recorder.events.append(dict(
                cb=name, slot=step.status.slot, level=level_number, level_index=L.level_index, time=L.time, dt=L.dt,
                iter=step.status.iter, sweep=L.status.sweep, restart=bool(step.status.get('restart')),
                nr=step.status.get('restarts_in_a_row'), rank=L.sweep.rank, est=bool(L.status.get('error_embedded_estimate')),
                calls=dict(getattr(P, 'c14_calls', {})), nlev=len(step.levels), last=bool(step.status.last)))

        def pre_step(self, step, level_number):
            super().pre_step(step, level_number)
            self._ev('pre_step', step, level_number)

        def post_step(self, step, level_number):
            super().post_step(step, level_number)
            self._ev('post_step', step, level_number)

        def pre_iteration(self, step, level_number):
            super().pre_iteration(step, level_number)
            self._ev('pre_iteration', step, level_number)

        def post_iteration(self, step, level_number):
            super().post_iteration(step, level_number)
            self._ev('post_iteration', step, level_number)

        def post_run(self, step, level_number):
            super().post_run(step, level_number)
            self._ev('post_run', step, level_number)

    class ScriptedRestarts(ConvergenceController):
        """Requests a restart of the step in slot s of block b for every (b, s) in params['script'] (blocks are
        counted from 0; a block = one pass of the controller's main loop).  Step sizes are left alone."""
        block = 0

        def setup(self, controller, params, description, **kwargs):
            ScriptedRestarts.block = 0
            return {'control_order': -60, 'script': [], **super().setup(controller, params, description, **kwargs)}

        def determine_restart(self, controller, S, **kwargs):
            if S.status.iter >= S.params.maxiter or S.status.done or True:
                if (ScriptedRestarts.block, S.status.slot) in self.params.script and S.status.iter >= S.params.maxiter:
                    S.status.restart = True

        def prepare_next_block(self, controller, S, size, time, Tend, **kwargs):
            if S is controller.MS[0]:
                ScriptedRestarts.block += 1

    return Recorder, ScriptedRestarts


def counting_problem(base):
    """Subclass of a pySDC problem class that counts calls of eval_f / solve_system / solve_jacobian itself."""
    class Counting(base):
        def __init__(self, *a, **kw):
            super().__init__(*a, **kw)
            self.c14_calls = {'eval_f': 0, 'solve_system': 0, 'solve_jacobian': 0}

        def eval_f(self, *a, **kw):
            self.c14_calls['eval_f'] += 1
            return super().eval_f(*a, **kw)

        def solve_system(self, *a, **kw):
            self.c14_calls['solve_system'] += 1
            return super().solve_system(*a, **kw)

    if hasattr(base, 'solve_jacobian'):
        def solve_jacobian(self, *a, **kw):
            self.c14_calls['solve_jacobian'] += 1
            return base.solve_jacobian(self, *a, **kw)
        Counting.solve_jacobian = solve_jacobian
    Counting.__name__ = 'Counting_' + base.__name__
    return Counting


# which independent call count a work counter must equal
WORK_KEY = {'rhs': 'eval_f', 'newton': 'solve_jacobian', 'jacobian_solves': 'solve_jacobian'}


def run_config(cfg):
    """Run controller_nonMPI for a configuration dict; returns dict(stats, events, hooks, t0, Tend, error)."""
    import numpy as np
    from pySDC.implementations.controller_classes.controller_nonMPI import controller_nonMPI
    from pySDC.implementations.sweeper_classes.generic_implicit import generic_implicit
    from pySDC.implementations.hooks.log_work import LogWork, LogSDCIterations
    from pySDC.implementations.hooks.log_solution import LogSolution
    from pySDC.implementations.hooks.log_restarts import LogRestarts
    from pySDC.implementations.hooks.log_step_size import LogStepSize
    from pySDC.implementations.hooks.log_embedded_error_estimate import LogEmbeddedErrorEstimate
    from pySDC.implementations.hooks.log_errors import LogGlobalErrorPostStep, LogLocalErrorPostStep, LogGlobalErrorPostRun
    from pySDC.implementations.convergence_controller_classes.adaptivity import Adaptivity
    Recorder, ScriptedRestarts = make_run_tools()
    Recorder.events = []

    if cfg['problem'] == 'test':
        from pySDC.implementations.problem_classes.TestEquation_0D import testequation0d as base
        pparams = {'lambdas': np.array([cfg['lam']]), 'u0': 1.0}
    else:
        from pySDC.implementations.problem_classes.Van_der_Pol_implicit import vanderpol as base
        pparams = {'mu': cfg['lam'], 'newton_tol': 1e-9, 'newton_maxiter': 50, 'u0': np.array([2.0, 0.0]), 'crash_at_maxiter': False}
    prob = counting_problem(base)
    nlev = cfg['levels']
    desc = dict(problem_class=prob, problem_params=pparams, sweeper_class=generic_implicit,
                sweeper_params={'num_nodes': ([3, 2] if nlev == 2 else 3), 'quad_type': 'RADAU-RIGHT', 'QI': 'IE'},
                level_params={'dt': cfg['dt'], 'restol': cfg.get('restol', -1)}, step_params={'maxiter': cfg['maxiter']})
    if nlev == 2:
        from pySDC.implementations.transfer_classes.TransferMesh_NoCoarse import mesh_to_mesh
        desc['space_transfer_class'] = mesh_to_mesh
    cc = {}
    if cfg.get('e_tol') is not None:
        cc[Adaptivity] = {'e_tol': cfg['e_tol']}
    if cfg.get('script'):
        cc[ScriptedRestarts] = {'script': [tuple(x) for x in cfg['script']]}
    desc['convergence_controllers'] = cc
    hooks = [Recorder, LogWork, LogSolution, LogSDCIterations, LogGlobalErrorPostStep, LogGlobalErrorPostRun]
    if not cfg.get('lean_hooks'):
        hooks += [LogRestarts, LogStepSize]          # otherwise left to the convergence controllers that add them
    if cfg['problem'] == 'test':
        hooks.append(LogLocalErrorPostStep)
    if cfg.get('e_tol') is not None and not cfg.get('lean_hooks'):
        hooks.append(LogEmbeddedErrorEstimate)
    if cfg.get('post_iter_hook'):
        # a shipped subclass of a hook that the error estimator adds itself (writes a different record type)
        from pySDC.implementations.hooks.log_embedded_error_estimate import LogEmbeddedErrorEstimatePostIter
        hooks.insert(1, LogEmbeddedErrorEstimatePostIter)
    cp = {'logger_level': 40, 'hook_class': hooks, 'mssdc_jac': bool(cfg.get('jac', False))}
    out = {'error': None, 't0': 0.0, 'Tend': cfg['Tend']}
    # independent record of which hook classes are asked for (user list and convergence controllers alike)
    from pySDC.core.controller import Controller
    requested = []
    orig_add_hook = Controller.add_hook

    def spy(self, hook):
        requested.append(hook)
        return orig_add_hook(self, hook)
    try:
        Controller.add_hook = spy
        try:
            c = controller_nonMPI(num_procs=cfg['procs'], controller_params=cp, description=desc)
        finally:
            Controller.add_hook = orig_add_hook
        out['requested_hooks'] = [h.__name__ for h in requested]
        out['registered_hooks'] = [type(h).__name__ for h in c.hooks]
        out['registered_exact'] = [sum(1 for h in c.hooks if type(h) is r) for r in requested]
        P = c.MS[0].levels[0].prob
        u0 = P.u_exact(0.0)
        uend, stats = c.run(u0, 0.0, cfg['Tend'])
        out['stats'] = stats
        out['per_hook'] = [(type(h).__name__, dict(h.return_stats())) for h in c.hooks]
    except Exception as e:   # ConvergenceError after too many restarts etc. is a legitimate outcome
        out['error'] = '%s: %s' % (type(e).__name__, e)
        out['stats'] = None
    out['events'] = list(Recorder.events)
    return out


# ----------------------------------------------------------------------------- oracle on real runs

# per-step record types: type -> (time convention, level, iter convention, has process_sweeper)
#   time: 's' start of the step, 'e' end (the float L.time + L.dt); level: 'L' level index (0), -1
#   iter: 'k' iteration count of the step, -1
STEP_TYPES = {
    'niter': ('s', -1, 'k', True), 'residual_post_step': ('s', 'L', -1, True),
    'u': ('e', 'L', 'k', False), 'restart': ('s', 'L', 'k', True), 'dt': ('s', 'L', 'k', False),
    'k': ('e', 'L', 'k', True), 'e_global_post_step': ('e', 'L', 'k', True), 'e_global_rel_post_step': ('e', 'L', 'k', True),
    'e_local_post_step': ('e', 'L', 'k', True), 'error_embedded_estimate': ('e', 'L', 'k', True),
    'work_rhs': ('e', 'L', 'k', True), 'work_newton': ('e', 'L', 'k', True), 'work_jacobian_solves': ('e', 'L', 'k', True),
    'timing_step': ('s', 'L', 'k', True),
}
HOOK_OF = {'niter': 'DefaultHooks', 'residual_post_step': 'DefaultHooks', 'u': 'LogSolution', 'restart': 'LogRestarts',
           'dt': 'LogStepSize', 'k': 'LogSDCIterations', 'e_global_post_step': 'LogGlobalErrorPostStep',
           'e_global_rel_post_step': 'LogGlobalErrorPostStep', 'e_local_post_step': 'LogLocalErrorPostStep',
           'error_embedded_estimate': 'LogEmbeddedErrorEstimate', 'work_rhs': 'LogWork', 'work_newton': 'LogWork',
           'work_jacobian_solves': 'LogWork', 'timing_step': 'CPUTimings'}


# record types a hook promises for every step (inverse of HOOK_OF); error_embedded_estimate only when an estimate exists
PROMISES = {}
for _ty, _h in HOOK_OF.items():
    if _ty not in ('work_newton', 'work_jacobian_solves'):
        PROMISES.setdefault(_h, []).append(_ty)


def attempts_of(events):
    """Group the recorder's events into step attempts (one per post_step on level 0), in callback order.
    Each attempt: dict(slot, time, dt, tend, iter, sweep, restart, nr, rank, n_pre_it, n_post_it, calls (delta), block)."""
    open_ = {}
    atts = []
    block = 0
    last_slot = None
    for ev in events:
        s = ev['slot']
        if ev['cb'] == 'pre_step':
            open_[s] = dict(pre=ev, n_pre_it=0, n_post_it=0)
        elif ev['cb'] == 'pre_iteration' and s in open_:
            open_[s]['n_pre_it'] += 1
        elif ev['cb'] == 'post_iteration' and s in open_:
            open_[s]['n_post_it'] += 1
        elif ev['cb'] == 'post_step':
            o = open_.pop(s, None)
            if last_slot is not None and s <= last_slot:
                block += 1
            last_slot = s
            a = dict(slot=s, time=ev['time'], dt=ev['dt'], tend=ev['time'] + ev['dt'], iter=ev['iter'], sweep=ev['sweep'],
                     restart=ev['restart'], nr=ev['nr'], rank=ev['rank'], block=block, level_index=ev['level_index'], est=ev.get('est', False),
                     n_pre_it=None if o is None else o['n_pre_it'], n_post_it=None if o is None else o['n_post_it'],
                     calls=None if o is None else {k: ev['calls'].get(k, 0) - o['pre']['calls'].get(k, 0) for k in ev['calls']})
            atts.append(a)
    return atts


def lineage_counts(atts):
    """Restart counts each attempt should carry if every step took its count along when it moves to an earlier slot
    (+1 per restart) — what BasicRestartingMPI computes.  Returns list aligned with atts."""
    blocks = {}
    for i, a in enumerate(atts):
        blocks.setdefault(a['block'], []).append(i)
    exp = [None] * len(atts)
    prev = None
    for b in sorted(blocks):
        idx = blocks[b]
        if prev is None:
            cur = [0] * len(idx)
        else:
            pidx, pcnt = prev
            flags = [atts[i]['restart'] for i in pidx]
            n = len(pidx)
            rf = min([s for s in range(n) if flags[s]] + [n - 1])
            new = [(pcnt[s] + 1 if flags[s] else 0) for s in range(rf, n)] + [0] * rf
            cur = (new + [0] * len(idx))[:len(idx)]
        for i, c in zip(idx, cur):
            exp[i] = c
        prev = (idx, cur)
    return exp


def expected_key_fields(a, ty):
    tconv, lev, itc, has_ps = STEP_TYPES[ty]
    return dict(process=a['slot'], process_sweeper=(a['rank'] if has_ps else None), time=(a['time'] if tconv == 's' else a['tend']),
                level=(a['level_index'] if lev == 'L' else -1), iter=(a['iter'] if itc == 'k' else -1), sweep=a['sweep'], type=ty,
                num_restarts=a['nr'])


def check_run(run, stats_helper, Entry):
    """Implementation-side oracle on one real run.  Returns (findings, info): findings = list of dicts with
    kind / cause / what / detail (each is a violation of the property on this run)."""
    F = []
    info = {}
    stats = run['stats']
    atts = attempts_of(run['events'])
    info['attempts'] = len(atts)
    acc = [a for a in atts if not a['restart']]
    sup = [a for a in atts if a['restart']]
    info['accepted'] = len(acc)
    info['superseded'] = len(sup)
    info['blocks'] = (atts[-1]['block'] + 1) if atts else 0
    exp_nr = lineage_counts(atts)
    alias = [(i, a['nr'], e) for i, (a, e) in enumerate(zip(atts, exp_nr)) if a['nr'] != e]
    info['aliased_counters'] = len(alias)
    aliased_times = set()
    for i, got, e in alias:
        aliased_times.add(atts[i]['time'])
        aliased_times.add(atts[i]['tend'])
    # repeated restarts of one step / restart at later slot (coverage)
    info['max_nr'] = max([a['nr'] for a in atts] + [0])
    info['restart_slots'] = sorted({a['slot'] for a in sup})

    def add(kind, what, cause=None, **detail):
        F.append(dict(kind=kind, cause=cause, what=what, detail=detail))

    # O1: the accepted steps tile [t0, Tend]
    t = run['t0']
    for a in acc:
        if a['time'] != t:
            add('accepted_steps_do_not_tile', 'accepted step starts at %r, previous accepted step ended at %r' % (a['time'], t), slot=a['slot'])
            break
        t = a['tend']
    else:
        if acc and t < run['Tend'] - 1e-9:
            add('accepted_steps_do_not_tile', 'accepted steps end at %r < Tend %r' % (t, run['Tend']))

    # every helper call below goes through a proxy that checks that the run's statistics are left alone
    pristine = [(k, id(v)) for k, v in stats.items()]
    real_helpers = stats_helper

    class _Guarded(object):
        def __getattr__(self, name):
            fn = getattr(real_helpers, name)

            def wrapped(d, *a, **k):
                call = '%s(stats%s)' % (name, ''.join(', %s=%r' % kv for kv in k.items()))
                res = None
                try:
                    res = fn(d, *a, **k)
                finally:
                    if d is stats:
                        if res is stats:
                            add('helper_mutates_stats', "%s returns the caller's dictionary itself" % call, helper=name, call=call)
                        if [(k_, id(v_)) for k_, v_ in stats.items()] != pristine:
                            add('helper_mutates_stats', "%s changed the statistics of the run (%d -> %d entries)" % (call, len(pristine), len(stats)),
                                helper=name, call=call)
                            stats.clear()
                            stats.update(orig_items)
                return res
            return wrapped
    orig_items = list(stats.items())
    stats_helper = _Guarded()

    types_present = stats_helper.get_list_of_types(stats)
    info['types'] = sorted(x for x in types_present)
    # key-less calls: plain copy; with `recomputed` the records that are neither outnumbered nor at a marked time
    try:
        allrec = stats_helper.filter_stats(stats)
        if list(allrec.keys()) != [k for k, _ in orig_items]:
            add('filter_keyless', 'filter_stats(stats) is not a copy of the statistics')
        for flag in (False, True):
            got = stats_helper.filter_stats(stats, recomputed=flag)
            if is_regular(orig_items):
                want = [k for k, _ in spec_filter_regular(orig_items, {}, flag)]
                if list(got.keys()) != want:
                    add('filter_keyless', 'filter_stats(stats, recomputed=%r) returns %d records, specification %d' % (flag, len(got), len(want)))
        stats_helper.get_sorted(stats, recomputed=False, sortby='num_restarts')   # (times may be None: timing_run of idle steps)
    except Exception as e:
        add('helper_raises', 'key-less helper call raised %s: %s' % (type(e).__name__, e), helper='filter_stats')
    raw_by_type = {}
    for k, v in stats.items():
        raw_by_type.setdefault(k.type, []).append((k, v))

    # O5: iteration callbacks
    for a in atts:
        if a['n_pre_it'] is None:
            add('post_step_without_pre_step', 'post_step of slot %d at t=%r had no pre_step' % (a['slot'], a['time']))
        elif not (a['n_pre_it'] == a['iter'] == a['n_post_it']):
            add('niter_callbacks', 'step at t=%r: status.iter=%d but %d pre_iteration / %d post_iteration callbacks'
                % (a['time'], a['iter'], a['n_pre_it'], a['n_post_it']), slot=a['slot'])

    # hooks asked for must be registered (exact class), once
    req = run.get('requested_hooks') or []
    for name, n in zip(req, run.get('registered_exact') or []):
        if n != 1 and name not in [r for r in req[:req.index(name)]]:
            add('hook_not_registered' if n == 0 else 'hook_registered_twice',
                'hook class %s was passed to Controller.add_hook but the controller holds %d instance(s) of exactly that class (hooks: %s)'
                % (name, n, run.get('registered_hooks')), hook=name)
    promised = {ty for h in req for ty in PROMISES.get(h, [])}
    info['promised_types'] = sorted(promised)
    for ty in STEP_TYPES:
        if ty not in raw_by_type and ty not in promised:
            continue
        raw = dict(raw_by_type.get(ty, []))
        # times at which a record of this type is keyed with a restart count other than its step's (stale hook counter)
        stale_times = set()
        for a in atts:
            kf = expected_key_fields(a, ty)
            if Entry(**kf) not in raw and any(all(getattr(k, f) == kf[f] for f in FIELDS if f != 'num_restarts') for k in raw):
                stale_times.add(kf['time'])
        # O3/O4: every accepted step has exactly one record under its true key
        want = {}
        for a in acc:
            kf = expected_key_fields(a, ty)
            key = Entry(**kf)
            if key in want:
                add('accepted_keys_collide', 'two accepted steps share the %s key %s' % (ty, key), type=ty)
            want[key] = a
            if key not in raw:
                if ty == 'error_embedded_estimate' and not a['est']:
                    continue   # only recorded when an estimate exists (truthy)
                near = [k for k in raw if all(getattr(k, f) == kf[f] for f in FIELDS if f != 'num_restarts')]
                if near:
                    add('key_num_restarts_stale', '%s record of the accepted step at t=%r (slot %d) is keyed with num_restarts=%s, '
                        'the step status says %s' % (ty, a['time'], a['slot'], [k.num_restarts for k in near], a['nr']),
                        hook=HOOK_OF.get(ty), type=ty, step_time=a['time'], slot=a['slot'], block=a['block'])
                else:
                    add('record_missing', 'no %s record for the accepted step at t=%r (slot %d); expected key %s' % (ty, a['time'], a['slot'], key),
                        hook=HOOK_OF.get(ty), type=ty, step_time=a['time'], slot=a['slot'])
        if not raw:
            continue          # nothing of this type at all: reported above, once per accepted step
        # values
        for key, a in want.items():
            if key not in raw:
                continue
            v = raw[key]
            if ty in ('niter', 'k') and v != a['iter']:
                add('value', '%s value %r != iteration count %d' % (ty, v, a['iter']), type=ty)
            if ty == 'niter' and a['n_pre_it'] is not None and v != a['n_pre_it']:
                add('niter_callbacks', 'niter record %r != number of pre_iteration callbacks %d (t=%r)' % (v, a['n_pre_it'], a['time']), type=ty)
            if ty == 'restart' and v != 0:
                add('value', "'restart' record of an accepted step is %r" % (v,), type=ty)
            if ty == 'dt' and v != a['dt']:
                add('value', "'dt' record %r != step size %r" % (v, a['dt']), type=ty)
            if ty.startswith('work_') and a['calls'] is not None:
                mine = a['calls'].get(WORK_KEY[ty[5:]])
                if v != mine:
                    add('work_counter', '%s record %r != %d calls counted independently (step at t=%r, slot %d)' % (ty, v, mine, a['time'], a['slot']),
                        type=ty, step_time=a['time'], slot=a['slot'])
        # O2: filter_stats(type=ty, recomputed=False) = records of accepted steps
        try:
            flt = stats_helper.filter_stats(stats, type=ty, recomputed=False)
        except Exception as e:
            add('filter_raises', 'filter_stats(type=%r, recomputed=False) raised %s: %s' % (ty, type(e).__name__, e), type=ty)
            continue
        # the records of accepted steps as actually present in the stats (key fields except the restart count)
        def ident(k):
            return (k.process, k.time, k.level, k.iter, k.sweep)
        acc_ids = {}
        for a in acc:
            kf = expected_key_fields(a, ty)
            acc_ids[(kf['process'], kf['time'], kf['level'], kf['iter'], kf['sweep'])] = a
        sup_ids = {}
        for a in sup:
            kf = expected_key_fields(a, ty)
            sup_ids.setdefault((kf['process'], kf['time'], kf['level'], kf['iter'], kf['sweep'], a['nr']), a)
        got_acc = {}
        for k in flt:
            a = acc_ids.get(ident(k))
            if a is not None and (k.num_restarts == a['nr'] or (ident(k) + (k.num_restarts,)) not in sup_ids):
                got_acc.setdefault(ident(k), []).append(k)
            else:
                # a record that belongs to no accepted step survived
                s = sup_ids.get(ident(k) + (k.num_restarts,))
                cause = 'unknown'
                if k.time in aliased_times:
                    cause = 'restart_counter_aliasing'
                elif k.time in stale_times:
                    cause = 'stale_hook_counter'
                add('recomputed_filter_keeps_superseded', 'filter_stats(type=%r, recomputed=False) returns a record of a superseded step: %s' % (ty, k),
                    cause=cause, type=ty, hook=HOOK_OF.get(ty), key=str(k))
        for idn, a in acc_ids.items():
            if ty == 'error_embedded_estimate' and not a['est']:
                continue
            n = len(got_acc.get(idn, []))
            if n == 0:
                cause = 'unknown'
                if a['time'] in aliased_times or a['tend'] in aliased_times:
                    cause = 'restart_counter_aliasing'
                elif expected_key_fields(a, ty)['time'] in stale_times:
                    cause = 'stale_hook_counter'
                add('recomputed_filter_drops_accepted', 'filter_stats(type=%r, recomputed=False) drops the record of the accepted step at t=%r '
                    '(slot %d, restart count %s): %d records for %d accepted steps' % (ty, a['time'], a['slot'], a['nr'], len(flt), len(acc)),
                    cause=cause, type=ty, hook=HOOK_OF.get(ty), step_time=a['time'], slot=a['slot'], nr=a['nr'])
            elif n > 1:
                add('duplicate_record', '%d %s records for the accepted step at t=%r' % (n, ty, a['time']), type=ty)
        # O7: sorting
        try:
            srt = stats_helper.get_sorted(stats, type=ty, recomputed=False, sortby='time')
        except Exception as e:
            add('sort_raises', 'get_sorted(type=%r, recomputed=False, sortby=time) raised %s: %s' % (ty, type(e).__name__, e), type=ty)
            continue
        ts = [x[0] for x in srt]
        if any(ts[i] > ts[i + 1] for i in range(len(ts) - 1)):
            add('sort_not_ascending', 'get_sorted(type=%r, sortby=time) is not ascending' % ty, type=ty)
        if sorted(map(repr, srt)) != sorted(repr((k.time, v)) for k, v in flt.items()):
            add('sort_not_permutation', 'get_sorted(type=%r) is not a permutation of the filtered records' % ty, type=ty)

    # O9: iteration-level records of accepted steps after filtering
    for ty in ('residual_post_iteration',):
        if ty in raw_by_type:
            try:
                flt = stats_helper.filter_stats(stats, type=ty, recomputed=False)
            except Exception as e:
                add('filter_raises', 'filter_stats(type=%r, recomputed=False) raised %s' % (ty, type(e).__name__), type=ty)
                continue
            want = sorted((a['slot'], a['time'], it) for a in acc for it in range(1, a['iter'] + 1))
            got = sorted((k.process, k.time, k.iter) for k in flt)
            if want != got:
                missing = [w for w in want if w not in got]
                extra = [g for g in got if g not in want]
                tm = {w[1] for w in missing} | {g[1] for g in extra}
                cause = 'restart_counter_aliasing' if tm & aliased_times else 'unknown'
                add('recomputed_filter_drops_accepted' if missing else 'recomputed_filter_keeps_superseded',
                    'filter_stats(type=%r, recomputed=False): %d per-iteration records missing, %d extra' % (ty, len(missing), len(extra)),
                    cause=cause, type=ty, hook='DefaultHooks', missing=missing[:4], extra=extra[:4])

    # O10: records written after the run.  (a) CPUTimings.post_run: one 'timing_run' record per step object, keyed by the
    # state of that step as the recorder saw it in post_run; (b) LogGlobalErrorPostRun: exactly one 'e_global_post_run' and one
    # 'e_global_rel_post_run' record, keyed by the final step: its slot, END time, level, iteration, sweep and the restart count it
    # was accepted with (not the counter that prepare_next_block has reset in the meantime); value = error of that step
    post_run = [ev for ev in run['events'] if ev['cb'] == 'post_run']
    if 'timing_run' in raw_by_type and post_run:
        want = {Entry(process=ev['slot'], process_sweeper=ev['rank'], time=ev['time'], level=ev['level_index'], iter=ev['iter'], sweep=ev['sweep'],
                      type='timing_run', num_restarts=ev['nr']) for ev in post_run}
        got = {k for k, _ in raw_by_type['timing_run']}
        if want != got:
            add('post_run_key', "'timing_run' keys are not the states of the steps at post_run: missing %s, unexpected %s"
                % ([str(k) for k in want - got][:2], [str(k) for k in got - want][:2]), hook='CPUTimings', type='timing_run')
    if 'LogGlobalErrorPostRun' in (run.get('requested_hooks') or []) and atts:
        af = atts[-1]
        for ty in ('e_global_post_run', 'e_global_rel_post_run'):
            recs = raw_by_type.get(ty, [])
            want = Entry(process=af['slot'], process_sweeper=af['rank'], time=af['tend'], level=af['level_index'], iter=af['iter'], sweep=af['sweep'],
                         type=ty, num_restarts=af['nr'])
            keys_ = [k for k, _ in recs]
            near = []
            if want not in keys_:
                near = [k for k in keys_ if all(getattr(k, f) == getattr(want, f) for f in FIELDS if f != 'num_restarts')]
                if near:
                    add('key_num_restarts_stale', '%s record of the final step (ends t=%r, slot %d) is keyed with num_restarts=%s, the step was accepted '
                        'with restart count %s' % (ty, af['tend'], af['slot'], [k.num_restarts for k in near], af['nr']),
                        hook='LogGlobalErrorPostRun', type=ty, step_time=af['time'], slot=af['slot'], final_step_restart_count=af['nr'])
                else:
                    add('record_missing', 'no %s record under the key of the final step %s; present: %s' % (ty, want, [str(k) for k in keys_][:3]),
                        hook='LogGlobalErrorPostRun', type=ty)
            extra = [k for k in keys_ if k != want and k not in near]
            if extra:
                final_slots = {a['slot'] for a in atts if a['block'] == af['block']}
                stale = all(any(ev['slot'] == k.process and ev['last'] for ev in post_run) and k.process not in final_slots for k in extra)
                vals = dict(recs)
                add('post_run_record_extra', '%d %s record(s) besides the one of the final step (slot %d, ends t=%r): %s with value(s) %s (final step: %s); '
                    '(slot, status.last) seen at post_run: %s; steps of the final block: slots %s'
                    % (len(extra), ty, af['slot'], af['tend'], [str(k) for k in extra][:2], [vals[k] for k in extra][:2], vals.get(want),
                       [(ev['slot'], ev['last']) for ev in post_run], sorted(final_slots)),
                    cause='stale_status_last' if stale else 'unknown', hook='LogGlobalErrorPostRun', type=ty)
            if ty == 'e_global_post_run' and 'e_global_post_step' in raw_by_type:
                ref = [v for k, v in raw_by_type['e_global_post_step'] if k.process == af['slot'] and k.time == af['tend'] and k.num_restarts == af['nr']]
                bad = [v for k, v in recs if k == want and ref and not (abs(v - ref[-1]) == 0)]
                if bad:
                    add('value', 'e_global_post_run = %r but the error of the final step recorded at post_step is %r' % (bad[0], ref[-1]),
                        hook='LogGlobalErrorPostRun', type=ty)

    # O8: merged stats = union of the hooks' dictionaries, nothing lost or overwritten across hooks
    merged = {}
    owners = {}
    for name, d in run.get('per_hook', []):
        for k, v in d.items():
            if k in owners and owners[k] != name:
                add('hooks_collide', 'hooks %s and %s write the same key %s' % (owners[k], name, k))
            owners[k] = name
            merged[k] = v
    if run.get('per_hook') is not None:
        if set(merged) != set(stats) or any(merged[k] is not stats[k] for k in merged):
            add('merge', 'Controller.return_stats is not the union of the hooks dictionaries')
        if list(stats.keys()) != list(merged.keys()):
            add('merge_order', 'Controller.return_stats does not keep the hook-by-hook insertion order')
    return F, info


def run_config_guarded(cfg, seconds):
    """run_config under an alarm (main thread only): a run that does not come back is skipped, not judged."""
    import signal

    class _Timeout(BaseException):
        pass

    def handler(signum, frame):
        raise _Timeout()
    old = signal.signal(signal.SIGALRM, handler)
    signal.alarm(int(seconds))
    try:
        return run_config(cfg)
    except _Timeout:
        return {'error': 'timeout', 'stats': None, 'events': []}
    finally:
        signal.alarm(0)
        signal.signal(signal.SIGALRM, old)
