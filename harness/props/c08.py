"""C08 — MPI-parallel variants equal their serial counterparts under every schedule.

What runs on every check:
  * the REAL controller_MPI / generic_implicit_MPI / imex_1st_order_MPI / base_transfer_MPI and the MPI flavours of
    the convergence controllers are executed on `harness/simmpi` (a deterministic simulated mpi4py: ranks = threads
    under a scheduler that switches at every communication call) for many schedules per configuration
    (extreme policies, seeded random, enumerated for small cases; standard sends buffered / rendezvous);
  * oracle (implementation side): per-rank results of every schedule are compared with controller_nonMPI +
    serial sweeper/transfer (step times, dt, iteration counts, restarts, values at the nodes and end point,
    residuals, gathered stats) and with each other (bit-exact between schedules); the simulator's monitors
    report deadlocks, unmatched sends/receives, collective mismatches, send buffers modified before completion
    and request handles dropped while the operation is incomplete;
  * tie to the Coq model: event logs of the simulated runs are replayed by the kernel through
    `MPI.replay` (every event must be an enabled transition of the LTS, the simulator's matching must be the
    model's matching, delivered payload hashes must be the sent ones, send buffers unchanged at completion) and
    `MPI.skeleton_ok` checks the premises of the confluence theorems on the extracted per-rank programs
    (no Test; wildcard receives cannot even be expressed); per-rank projections of all logs of one configuration
    must coincide (the skeleton is schedule independent).
"""
import concurrent.futures
import json
import os
import subprocess

import numpy as np

from harness.common import VERIF, REPO, PY, eval_outputs, parse_coq_value
from harness.simmpi import SHIM_DIR
from harness.simmpi.logfmt import to_coq

LEVEL = 'proof'

# Tolerances serial <-> MPI (between schedules everything must be bit-identical).  Step times are computed as
# t0 + sum(dt[:rank]) by controller_MPI and by chained additions by controller_nonMPI ("up to rounding"); with
# adaptive step sizes that rounding difference is amplified by the step-size controller (dt_new divides by an
# error estimate that is a difference of close numbers).  Observed maxima are recorded in cov per class.
TOL = {
    'fixed':    {'time': 1e-13, 'val': 1e-13, 'dt_new': 1e-9},     # observed: time 2.2e-16, values/residuals 5.8e-16, dt_new 0
    'adaptive': {'time': 1e-9, 'val': 1e-7, 'dt_new': 1e-6},       # observed: time 7.6e-13, values 1.0e-10, dt_new 1.8e-10
}


def tol_class(cfg):
    return 'adaptive' if (cfg.get('adaptivity') or cfg.get('art_dt')) else 'fixed'


# ----------------------------------------------------------------------------- worker

def run_jobs(jobs, timeout=900):
    env = dict(os.environ, PYTHONPATH=os.pathsep.join([VERIF, REPO, SHIM_DIR]), PYTHONHASHSEED='0',
               OMP_NUM_THREADS='1', OPENBLAS_NUM_THREADS='1', MKL_NUM_THREADS='1')
    try:
        p = subprocess.run([PY, '-m', 'harness.simmpi.runner'], input=json.dumps({'jobs': jobs}), text=True,
                           capture_output=True, env=env, cwd=VERIF, timeout=timeout)
    except subprocess.TimeoutExpired:
        return None, 'TIMEOUT worker wall-clock limit %ss' % timeout
    if p.returncode != 0:
        return None, p.stderr[-3000:]
    try:
        return json.loads(p.stdout)['results'], None
    except Exception as e:  # noqa
        return None, 'cannot parse worker output: %s: %s' % (type(e).__name__, p.stdout[-500:])


def run_jobs_parallel(jobs, nworkers=12, timeout=900):
    """One worker subprocess per job, `nworkers` at a time, biggest jobs first; returns a list aligned with
    jobs of (result | None, err)."""
    out = [None] * len(jobs)

    def cost(j):
        c = j['cfg']
        n = {'time': c.get('P', 1), 'node': c.get('M', 3), 'both': c.get('P', 1) * c.get('M', 3)}[c['kind']]
        return -n * c.get('nlev', 1) * len(j['schedules'])

    order = sorted(range(len(jobs)), key=lambda i: cost(jobs[i]))

    def one(i):
        res, err = run_jobs([jobs[i]], timeout)
        return i, ((res[0], None) if res is not None else (None, err))

    with concurrent.futures.ThreadPoolExecutor(max(1, min(nworkers, len(jobs)))) as ex:
        for i, r in ex.map(one, order):
            out[i] = r
    return out


# ----------------------------------------------------------------------------- comparison

def unhx(s):
    dt, h = s.split(':')
    return np.frombuffer(bytes.fromhex(h), dtype=np.dtype(dt))


def close(a, b, rtol):
    a, b = np.asarray(a), np.asarray(b)
    if a.shape != b.shape:
        return False, float('inf')
    if a.size == 0:
        return True, 0.0
    if not (np.all(np.isfinite(a)) and np.all(np.isfinite(b))):
        same = bool(np.array_equal(a, b, equal_nan=True))
        return same, 0.0 if same else float('inf')
    scale = max(1.0, float(np.max(np.abs(a))), float(np.max(np.abs(b))))
    d = float(np.max(np.abs(a - b))) / scale
    return d <= rtol, d


def merge_mpi(cfg, m):
    """per (block, slot) records of one simulated run, merged over ranks"""
    kind = cfg['kind']
    M = cfg.get('M', 3)
    steps = {}
    pre = {}
    its = {}
    problems = []
    for w, r in enumerate(m['ranks']):
        if r is None:
            continue
        for rec in r['recs']:
            if kind == 'node':
                slot = 0
            else:
                slot = rec['slot']
            key = (rec['block'], slot)
            if rec['ev'] == 'pre':
                old = pre.get(key)
                if old is not None:
                    for f in ('time', 'dt', 'ria', 'u0'):
                        if old[f] != rec[f]:
                            problems.append(('node ranks of one step disagree on %s' % f, key))
                pre[key] = rec
            elif rec['ev'] == 'it':
                its.setdefault(key, {}).setdefault(rec['iter'], []).append(rec['res'])
            elif rec['ev'] == 'post':
                old = steps.get(key)
                if old is None:
                    steps[key] = dict(rec)
                    steps[key]['nodes'] = ({int(k): v for k, v in rec['nodes'].items()} if isinstance(rec['nodes'], dict)
                                           else rec['nodes'])
                else:
                    for f in ('time', 'dt', 'iter', 'restart', 'uend', 'res', 'dt_new'):
                        if old[f] != rec[f]:
                            problems.append(('node ranks of one step disagree on %s' % f, key))
                    old['nodes'].update({int(k): v for k, v in rec['nodes'].items()})
    for key, s in steps.items():
        if isinstance(s['nodes'], dict):
            if sorted(s['nodes']) != list(range(M)):
                problems.append(('node values missing', key))
                s['nodes'] = None
            else:
                s['nodes'] = [s['nodes'][k] for k in sorted(s['nodes'])]
    return steps, pre, its, problems


def merge_serial(ser):
    steps, pre, its = {}, {}, {}
    for rec in ser['recs']:
        key = (rec['block'], rec['slot'])
        if rec['ev'] == 'pre':
            pre[key] = rec
        elif rec['ev'] == 'post':
            steps[key] = rec
        else:
            its.setdefault(key, {}).setdefault(rec['iter'], []).append(rec['res'])
    return steps, pre, its


def compare(cfg, ser, m, stats):
    """-> list of (what, detail dict) discrepancies between the serial emulation and one simulated MPI run"""
    bad = []
    kind = cfg['kind']
    cls = tol_class(cfg)
    vtol, TIME_RTOL, DTNEW_RTOL = TOL[cls]['val'], TOL[cls]['time'], TOL[cls]['dt_new']
    stats = stats.setdefault(cls, {})
    if ser['outcome'] != 'ok':
        # the serial counterpart raised: the MPI variant must fail as well (some rank raises the same class)
        classes = sorted({e[0] for e in m['errors'] if e and e[0] != 'Aborted'})
        if 'SimError' in classes:
            return bad      # MPI misuse detected by the simulator: reported precisely by the caller
        if m['abort'] is None or ser['outcome'] not in classes:
            bad.append(('outcome', {'serial': ser['outcome'], 'mpi_abort': m['abort'], 'mpi_errors': classes}))
        return bad
    if m['abort'] is not None:
        errs = [e[:2] for e in m['errors'] if e and e[0] != 'Aborted']
        bad.append(('deadlock' if m['abort'] == 'deadlock' else 'mpi-run-failed',
                    {'abort': m['abort'], 'errors': errs, 'blocked': m.get('deadlock')}))
        return bad
    steps, pre, its, problems = merge_mpi(cfg, m)
    for what, key in problems:
        bad.append(('rank-dependent', {'what': what, 'step': key}))
    ssteps, spre, sits = merge_serial(ser)
    steps_differ = sorted(steps) != sorted(ssteps)

    def num(field, a, b, key, tol):
        if a is None or b is None:
            if a != b:
                bad.append((field, {'step': key, 'serial': a, 'mpi': b}))
            return
        ok, d = close(a, b, tol)
        stats[field] = max(stats.get(field, 0.0), d)
        if not ok:
            bad.append((field, {'step': key, 'serial': np.asarray(a).tolist(), 'mpi': np.asarray(b).tolist(), 'reldiff': d}))

    # (when the sets of steps differ the common steps are still compared in order, so that the FIRST differing
    # quantity - the root - is reported rather than its consequence "different number of steps")
    for key in sorted(k for k in ssteps if k in steps):
        s, p = ssteps[key], steps[key]
        num('time', s['time'], p['time'], key, TIME_RTOL)
        num('dt', s['dt'], p['dt'], key, TIME_RTOL)
        if s['iter'] != p['iter']:
            bad.append(('niter', {'step': key, 'serial': s['iter'], 'mpi': p['iter']}))
        if s['restart'] != p['restart']:
            bad.append(('restart', {'step': key, 'serial': s['restart'], 'mpi': p['restart']}))
        num('dt_new', s['dt_new'], p['dt_new'], key, DTNEW_RTOL)
        num('residual', s['res'], p['res'], key, max(vtol, 0.0))
        if s['uend'] is None or p['uend'] is None:
            if s['uend'] != p['uend']:
                bad.append(('uend', {'step': key, 'serial': s['uend'], 'mpi': p['uend']}))
        else:
            num('uend', unhx(s['uend']), unhx(p['uend']), key, vtol)
        if p['nodes'] is not None:
            for mi, (a, b) in enumerate(zip(s['nodes'], p['nodes'])):
                num('node_value', unhx(a), unhx(b), key + (mi,), vtol)
        sp, pp = spre.get(key), pre.get(key)
        if sp and pp:
            if sp['ria'] != pp['ria']:
                bad.append(('restarts_in_a_row', {'step': key, 'serial': sp['ria'], 'mpi': pp['ria']}))
            num('u0', unhx(sp['u0']), unhx(pp['u0']), key, vtol)
        si, pi = sits.get(key, {}), its.get(key, {})
        if sorted(si) != sorted(pi):
            bad.append(('iterations', {'step': key, 'serial': sorted(si), 'mpi': sorted(pi)}))
        else:
            for k in si:
                num('residual_it', si[k][0], pi[k][0], key + (k,), vtol)
    if steps_differ:
        bad.append(('steps', {'serial': sorted(ssteps), 'mpi': sorted(steps)}))
        return bad
    # restart counters: the serial flavour aliases them (known finding), so the MPI run is also checked against the
    # documented update rule itself: slot j of the next block inherits from slot j + restart_from of this block
    blocks = sorted({k[0] for k in steps})
    for b in blocks[:-1]:
        slots = sorted(k[1] for k in steps if k[0] == b)
        nb = len(slots)
        rf = min([j for j in slots if steps[(b, j)]['restart']] + [nb - 1])
        for j in sorted(k[1] for k in pre if k[0] == b + 1):
            src = (b, j + rf)
            if j + rf < nb and src in steps and src in pre:
                exp = pre[src]['ria'] + 1 if steps[src]['restart'] else 0
            else:
                exp = 0
            if pre[(b + 1, j)]['ria'] != exp:
                bad.append(('restarts_in_a_row_rule', {'step': (b + 1, j), 'expected': exp, 'mpi': pre[(b + 1, j)]['ria'],
                                                       'restart_from': rf}))
    # value returned by run() on every rank taking part in the last block
    nblocks = {}
    for w, r in enumerate(m['ranks']):
        nblocks[w] = max([rec['block'] for rec in r['recs']] + [-1])
    last = max(nblocks.values())
    su = unhx(ser['uend'])
    for w, r in enumerate(m['ranks']):
        if nblocks[w] == last:
            ok, d = close(su, unhx(r['uend']), vtol)
            stats['return'] = max(stats.get('return', 0.0), d)
            if not ok:
                bad.append(('returned_uend', {'rank': w, 'reldiff': d}))
        # stats gathered over the (time) ranks
        if kind != 'node' or True:
            for name in ('niter', 'restarts'):
                a, b = ser[name], r[name]
                if isinstance(a, str) or isinstance(b, str):
                    if a != b:
                        bad.append(('stats_' + name, {'rank': w, 'serial': a, 'mpi': b}))
                    continue
                a = sorted(map(tuple, a))
                b = sorted(map(tuple, b))
                if len(a) != len(b) or any(x[1] != y[1] or abs(x[0] - y[0]) > TIME_RTOL * max(1.0, abs(x[0])) for x, y in zip(a, b)):
                    bad.append(('stats_' + name, {'rank': w, 'serial': a, 'mpi': b}))
    return bad


# ----------------------------------------------------------------------------- configurations

def core_configs():
    """fixed grid: every feature of the property at least once (time 1..5 ranks, nodes 1..4, 1-3 levels, every
    predictor, Gauss-Seidel / Jacobi MSSDC, all_to_done, adaptivity (both flavours), restarts, step-size spreading)"""
    base = dict(kind='time', P=3, M=3, problem='test0d', lambdas=[[-1.0, 0.0]], dt=0.125, Tend=1.0, maxiter=10,
                mssdc_jac=False, restol=1e-10)

    def C(name, **kw):
        d = dict(base)
        d.update(kw)
        d['name'] = name
        return d
    ad = dict(maxiter=4, restol=-1, lambdas=[[-5.0, 0.0]], dt=0.2, Tend=1.0)
    adr = dict(problem='vdp', mu=5.0, dt=0.02, Tend=0.3, maxiter=3, restol=-1, QI='IE', adaptivity={'e_tol': 2e-6})
    return [
        C('t1', P=1),
        C('t2jac', P=2, mssdc_jac=True),
        C('t3gs', P=3),
        C('t4gs', P=4, Tend=1.125),
        C('t5jac', P=5, mssdc_jac=True, Tend=1.5, lambdas=[[-2.0, 1.0], [-0.5, 0.0]]),
        C('t3ml2', P=3, nlev=2, nodes_per_level=[3, 2]),
        C('t3ml2burn', P=3, nlev=2, nodes_per_level=[3, 2], predict_type='pfasst_burnin'),
        C('t3ml2fine', P=3, nlev=2, nodes_per_level=[3, 2], predict_type='fine_only'),
        C('t4ml3burn', P=4, nlev=3, nodes_per_level=[5, 3, 2], predict_type='pfasst_burnin', M=5),
        C('t3heat2', P=3, problem='heat', nvars=[16, 8], nlev=2, predict_type='pfasst_burnin', dt=0.05, Tend=0.3),
        C('t3heat3', P=3, problem='heat', nvars=[16, 8, 4], nlev=3, predict_type='pfasst_burnin', dt=0.05, Tend=0.3,
          nsweeps=[2, 1, 1]),
        # level-dependent options that both controllers read: sweeps per level, nodes per level, QI per level, finter
        C('t1ml3s121', P=1, nlev=3, nodes_per_level=[5, 3, 2], M=5, nsweeps=[1, 2, 1], maxiter=4, restol=1e-9),
        C('t3ml3s121', P=3, nlev=3, nodes_per_level=[5, 3, 2], M=5, nsweeps=[1, 2, 1], predict_type='pfasst_burnin',
          maxiter=4, restol=1e-9, QI=['LU', 'IE', 'IE']),
        C('t1ml3s221', P=1, problem='heat', nvars=[16, 8, 4], nlev=3, nsweeps=[2, 2, 1], dt=0.05, Tend=0.15, maxiter=4,
          restol=1e-9, finter=True),
        C('t3ml3s221', P=3, problem='heat', nvars=[16, 8, 4], nlev=3, nsweeps=[2, 2, 1], predict_type='fine_only', dt=0.05,
          Tend=0.3, maxiter=4, restol=1e-9, finter=True, QI=['LU', 'IE', 'MIN']),
        C('t2ml3s131', P=2, nlev=3, nodes_per_level=[4, 3, 2], M=4, nsweeps=[1, 3, 1], predict_type=None, maxiter=3,
          restol=1e-9, Tend=0.5),
        C('t2ml2s31', P=2, nlev=2, nodes_per_level=[3, 2], nsweeps=[3, 1], QI=['IE', 'LU'], predict_type='pfasst_burnin',
          maxiter=4, restol=1e-9, Tend=0.5),
        C('t3jac_s2', P=3, mssdc_jac=True, nsweeps=[2], maxiter=4, restol=1e-9),
        C('n3ml3s121', kind='node', M=3, problem='heat', nvars=[16, 8, 4], nlev=3, QI='IEpar', nsweeps=[1, 2, 1], dt=0.05,
          Tend=0.1, maxiter=3, restol=1e-9),
        C('b2x2ml3s221', kind='both', P=2, M=2, problem='heat', nvars=[16, 8, 4], nlev=3, QI='IEpar', nsweeps=[2, 2, 1],
          dt=0.05, Tend=0.1, maxiter=3, restol=1e-9, predict_type='pfasst_burnin', finter=True),
        C('t3alld', P=3, all_to_done=True),
        C('t3jaccu', P=3, mssdc_jac=True, quad_type='GAUSS', do_coll_update=True, lambdas=[[-3.0, 1.0]], maxiter=3, restol=1e-8),
        C('t3gscu', P=3, mssdc_jac=False, quad_type='GAUSS', do_coll_update=True, lambdas=[[-3.0, 1.0]], maxiter=3, restol=1e-8),
        C('t3adapt', P=3, adaptivity={'e_tol': 1e-5}, **ad),
        C('t4adaptlin', P=4, adaptivity={'e_tol': 1e-5, 'embedded_error_flavor': 'linearized'}, **ad),
        C('t3vdp', P=3, problem='vdp', mu=2.0, dt=0.05, Tend=0.4, maxiter=6, adaptivity={'e_tol': 1e-6}, restol=-1),
        # Adaptivity x BasicRestartingMPI x SpreadStepSizesBlockwiseMPI with tolerances that really restart at slots >= 1 and
        # give different step-size proposals per step; every boolean/enum option of the MPI convergence controllers with
        # both values (restart_from_first_step, spread_from_first_restarted, overwrite_to_reach_Tend,
        # crash_after_max_restarts, embedded_error_flavor)
        C('t3adrfs', P=3, restarting={'max_restarts': 20, 'restart_from_first_step': True}, **adr),
        C('t2adrfs', P=2, restarting={'max_restarts': 20, 'restart_from_first_step': True}, **adr),
        C('t4adrfslin', P=4, restarting={'max_restarts': 20, 'restart_from_first_step': True},
          **dict(adr, adaptivity={'e_tol': 2e-6, 'embedded_error_flavor': 'linearized'})),
        C('t3adrfs_max1', P=3, restarting={'max_restarts': 1, 'restart_from_first_step': True, 'crash_after_max_restarts': False},
          **dict(adr, dt=0.03, Tend=0.045, adaptivity={'e_tol': 1e-6})),
        C('t3adrst', P=3, restarting={'max_restarts': 20, 'restart_from_first_step': False}, **adr),
        C('t3adrst_sp', P=3, restarting={'max_restarts': 20, 'restart_from_first_step': False, 'crash_after_max_restarts': False},
          spread={'spread_from_first_restarted': False, 'overwrite_to_reach_Tend': False}, **adr),
        C('t4adrst_cr', P=4, restarting={'max_restarts': 1, 'restart_from_first_step': False, 'crash_after_max_restarts': False},
          spread={'spread_from_first_restarted': True, 'overwrite_to_reach_Tend': True}, **adr),
        C('t3art', P=3, art_restarts=[0.25, 0.5], restarting={'max_restarts': 2}, Tend=1.5),
        C('t4artearly', P=4, art_restarts=[0.125, 0.625, 0.75], restarting={'max_restarts': 2}, Tend=1.5),
        C('t3spreadTend', P=3, art_restarts=[0.25], art_dt=4, restarting={'max_restarts': 2},
          spread={'spread_from_first_restarted': True}, Tend=0.75),
        C('b2x2spreadTend', kind='both', P=2, M=2, problem='heat', nvars=[16, 8, 4], QI='IEpar', dt=0.05, Tend=0.2, maxiter=4,
          mssdc_jac=True, nsweeps=[3], art_restarts=[0.05, 0.15000000000000002], art_dt=3,
          restarting={'max_restarts': 1, 'restart_from_first_step': False}, spread={'spread_from_first_restarted': False},
          residual_type='last_rel'),
        C('t4artdt', P=4, art_restarts=[0.375], art_dt=3, restarting={'max_restarts': 1},
          spread={'spread_from_first_restarted': False}, Tend=2.0),
        C('t3artfirst', P=3, art_restarts=[0.25, 0.625], restarting={'max_restarts': 2, 'restart_from_first_step': True},
          Tend=1.5),
        C('t3rfs', P=3, lambdas=[[-8.0, 1.0]], dt=0.25, Tend=1.5, restol=1e-6, maxiter=30,
          restarting={'max_restarts': 2, 'restart_from_first_step': True, 'crash_after_max_restarts': False}),
        C('t3crash', P=3, art_restarts=[0.25, 0.25, 0.25], restarting={'max_restarts': 1, 'crash_after_max_restarts': True},
          Tend=1.0),
        C('n1', kind='node', M=1, QI='MIN', Tend=0.5),
        C('n3', kind='node', M=3, QI='MIN', Tend=0.5),
        C('n2imex', kind='node', M=2, problem='heat_forced', sweeper='imex', nvars=[16], QI='IEpar', dt=0.05, Tend=0.2),
        C('n3ml2', kind='node', M=3, problem='heat', nvars=[16, 8], nlev=2, QI='IEpar', dt=0.05, Tend=0.2),
        C('n3ml3f', kind='node', M=3, problem='heat', nvars=[16, 8, 4], nlev=3, QI='IEpar', dt=0.05, Tend=0.15, finter=True),
        C('n4gauss', kind='node', M=4, QI='MIN', quad_type='GAUSS', do_coll_update=True, Tend=0.5),
        C('n2imexgauss', kind='node', M=2, problem='heat_forced', sweeper='imex', nvars=[8], QI='IEpar',
          quad_type='GAUSS', do_coll_update=True, dt=0.05, Tend=0.15, residual_type='last_abs'),
        C('n3adapt', kind='node', M=3, QI='MIN', adaptivity={'e_tol': 1e-5}, **ad),
        C('n3rel', kind='node', M=3, QI='MIN', residual_type='full_rel', initial_guess='copy', Tend=0.5),
        C('b2x2', kind='both', P=2, M=2, QI='MIN', Tend=0.5),
        C('b3x3ml', kind='both', P=3, M=3, problem='heat', nvars=[16, 8], nlev=2, QI='IEpar', dt=0.05, Tend=0.2,
          predict_type='pfasst_burnin', maxiter=5),
        C('b2x3adapt', kind='both', P=2, M=3, QI='MIN', adaptivity={'e_tol': 1e-5}, **ad),
        C('b5x4', kind='both', P=5, M=4, QI='MIN', Tend=0.75, maxiter=4, restol=1e-6),
    ]


def random_config(rng, i):
    kind = rng.choice(['time', 'time', 'time', 'node', 'both'])
    c = dict(kind=kind, name='r%d' % i, restol=rng.choice([1e-8, 1e-10, -1]), maxiter=rng.randint(2, 7))
    c['problem'] = rng.choice(['test0d', 'test0d', 'heat', 'vdp'] + (['heat_forced'] if kind != 'time' else []))
    if kind == 'time':
        c['P'] = rng.randint(1, 5)
        c['M'] = rng.randint(2, 4)
        c['QI'] = rng.choice(['IE', 'LU', 'MIN'])
    elif kind == 'node':
        c['M'] = rng.randint(1, 4)
        c['QI'] = rng.choice(['MIN', 'IEpar'])
    else:
        c['P'] = rng.randint(2, 3)
        c['M'] = rng.randint(2, 3)
        c['QI'] = rng.choice(['MIN', 'IEpar'])
    P = c.get('P', 1)
    nsteps = rng.randint(1, 2 * P + 2)
    c['dt'] = rng.choice([0.0625, 0.125, 0.1, 0.05])
    c['Tend'] = c['dt'] * nsteps
    c['initial_guess'] = rng.choice(['spread', 'spread', 'copy', 'zero'])
    if c['problem'] == 'test0d':
        c['lambdas'] = [[-rng.uniform(0.1, 8.0), rng.uniform(-2.0, 2.0)] for _ in range(rng.randint(1, 3))]
    elif c['problem'] == 'vdp':
        c['mu'] = rng.choice([0.5, 1.0, 3.0])
        c['dt'] = c['dt'] / 2
        c['Tend'] = c['dt'] * nsteps
    else:
        c['nvars'] = [rng.choice([8, 16]), 4, 2]
        c['nvars'][1] = c['nvars'][0] // 2
        c['nvars'][2] = c['nvars'][0] // 4
        c['dt'] = c['dt'] / 2
        c['Tend'] = c['dt'] * nsteps
    if c['problem'] == 'heat_forced':
        c['sweeper'] = 'imex'
    nlev = rng.choice([1, 1, 2, 3])
    if nlev > 1:
        if kind != 'time' and c['problem'] in ('test0d', 'vdp'):
            nlev = 1       # node-parallel sweepers need the same number of nodes on every level
        elif c['problem'] in ('test0d', 'vdp'):
            c['nodes_per_level'] = [c['M'], max(c['M'] - 1, 1), max(c['M'] - 2, 1)]
    c['nlev'] = nlev
    if nlev > 1 and kind != 'node':
        c['predict_type'] = rng.choice([None, 'fine_only', 'pfasst_burnin'])
    if nlev > 1:
        c['finter'] = rng.random() < 0.5
        # per-level sweep counts: 1-3 on the fine and middle levels, 1 on the coarsest (required by it_coarse)
        c['nsweeps'] = [rng.randint(1, 3) for _ in range(nlev - 1)] + [1]
        if kind == 'time' and rng.random() < 0.5:
            c['QI'] = [rng.choice(['IE', 'LU', 'MIN']) for _ in range(nlev)]
    if nlev == 1:
        c['mssdc_jac'] = rng.random() < 0.5
        if c['mssdc_jac'] or c.get('P', 1) == 1:
            c['nsweeps'] = [rng.randint(1, 3)]     # Gauss-Seidel MSSDC sweeps in it_coarse: exactly one sweep
    c['all_to_done'] = rng.random() < 0.25
    feat = rng.choice(['none', 'none', 'adapt', 'adaptlin', 'art', 'artdt', 'adrst', 'adrst'])
    if feat == 'adrst':
        if kind == 'time' and c.get('P', 1) >= 2:
            # a setting in which Adaptivity really restarts steps (also at slots >= 1) with different proposals per step
            for k in ('lambdas', 'nvars', 'nodes_per_level', 'predict_type', 'finter', 'nsweeps'):
                c.pop(k, None)
            if isinstance(c.get('QI'), list):
                c['QI'] = c['QI'][0]
            nlev = 1
            c.update(problem='vdp', mu=rng.choice([3.0, 5.0]), dt=rng.choice([0.02, 0.03]), nlev=1, M=3, maxiter=3, restol=-1,
                     mssdc_jac=False, all_to_done=False, initial_guess='spread')
            c['Tend'] = c['dt'] * rng.randint(6, 12)
            c['adaptivity'] = {'e_tol': rng.choice([1e-6, 2e-6, 5e-6])}
            if rng.random() < 0.4:
                c['adaptivity']['embedded_error_flavor'] = 'linearized'
            rfs = rng.random() < 0.5
            c['restarting'] = {'max_restarts': rng.choice([1, 3, 20]), 'restart_from_first_step': rfs,
                               'crash_after_max_restarts': rng.random() < 0.3}
            if not rfs and rng.random() < 0.6:
                c['spread'] = {'spread_from_first_restarted': rng.random() < 0.5, 'overwrite_to_reach_Tend': rng.random() < 0.5}
        else:
            feat = 'adapt'
    if c['initial_guess'] == 'zero' and c['restol'] != -1 and feat == 'none' and False:
        pass
    if feat in ('adapt', 'adaptlin') and c['problem'] != 'heat_forced':
        c['adaptivity'] = {'e_tol': rng.choice([1e-4, 1e-6])}
        if feat == 'adaptlin' and kind == 'time' and (nlev == 1 or c['P'] == 1):
            # (the serial EstimateEmbeddedErrorLinearizedNonMPI refuses multi-level + several steps with
            # NotImplementedError while the MPI flavour has no such guard: there is no serial counterpart to compare)
            c['adaptivity']['embedded_error_flavor'] = 'linearized'
        c['restol'] = -1
        c['maxiter'] = rng.randint(3, 5)
        c['all_to_done'] = False
        c['mssdc_jac'] = False
        if nlev == 1 and c.get('P', 1) > 1:
            c.pop('nsweeps', None)
        c['initial_guess'] = 'spread'
    elif feat in ('art', 'artdt') and kind != 'node':
        k = rng.randint(1, 3)
        c['art_restarts'] = sorted(c['dt'] * rng.randint(0, nsteps) for _ in range(k))
        c['restarting'] = {'max_restarts': rng.randint(1, 3), 'restart_from_first_step': rng.random() < 0.3}
        if feat == 'artdt':
            c['art_dt'] = rng.randint(2, 4)
            c['spread'] = {'spread_from_first_restarted': rng.random() < 0.5}
    if kind != 'time':
        c['residual_type'] = rng.choice(['full_abs', 'last_abs', 'full_rel', 'last_rel'])
        if c['residual_type'].endswith('rel') and c['initial_guess'] == 'zero':
            c['initial_guess'] = 'spread'
        if rng.random() < 0.3 and nlev == 1:
            c['quad_type'] = 'GAUSS'
            c['do_coll_update'] = True
    return c


def schedules_for(cfg, rng, tier):
    """first schedule: lowest rank first, NO standard send buffered (its log covers every buffering behaviour)"""
    n = {'time': cfg.get('P', 1), 'node': cfg.get('M', 3), 'both': cfg.get('P', 1) * cfg.get('M', 3)}[cfg['kind']]
    sch = [['policy', 'low', 0], ['policy', 'high', 0], ['policy', 'stay', 0], ['policy', 'stay-down', 0], ['policy', 'rr', 0],
           ['policy', 'low', 1], ['policy', 'high', 1], ['policy', 'rr', 1]]
    nseed = 3 if tier == 'quick' else 12
    for _ in range(nseed):
        sch.append(['seed', rng.randrange(10 ** 6), rng.choice([0.0, 0.3, 0.7, 1.0]), rng.choice([0.0, 0.0, 0.5, 0.9])])
    if cfg['kind'] != 'time':
        sch.append(['seed', rng.randrange(10 ** 6), 0.5, 0.0, 'shuffled'])
        sch.append(['policy', 'rr', 0, 'reversed'])
    if n <= 3 and cfg.get('small'):
        sch.append(['enumdfs', 6 if tier == 'quick' else 9, 48 if tier == 'quick' else 512])
        sch.append(['enumdev', 24 if tier == 'quick' else 400])
    return sch


SMALL = [
    dict(kind='time', name='s2gs', P=2, M=2, problem='test0d', lambdas=[[-1.0, 0.0]], dt=0.25, Tend=0.5, maxiter=2,
         mssdc_jac=False, restol=-1, small=True),
    dict(kind='time', name='s3ml', P=3, M=2, problem='test0d', lambdas=[[-1.0, 0.5]], dt=0.25, Tend=0.75, maxiter=1,
         nlev=2, nodes_per_level=[2, 1], predict_type='pfasst_burnin', restol=-1, small=True),
    dict(kind='time', name='s2art', P=2, M=2, problem='test0d', lambdas=[[-1.0, 0.0]], dt=0.25, Tend=0.5, maxiter=1,
         restol=-1, art_restarts=[0.25], restarting={'max_restarts': 1}, small=True),
    dict(kind='node', name='s2node', P=1, M=2, problem='test0d', lambdas=[[-1.0, 0.0]], dt=0.25, Tend=0.25, maxiter=1,
         QI='MIN', restol=-1, small=True),
]

# simulator findings that contradict the property (others are recorded in cov only)
FINDING_VIOLATIONS = ('unmatched-send', 'unmatched-recv', 'recv-never-completed', 'send-buffer-modified',
                      'collective-count-mismatch', 'send-never-completed', 'short-message')


def feature_of(cfg):
    f = []
    for k in ('adaptivity', 'restarting', 'spread', 'art_restarts', 'art_dt', 'all_to_done', 'predict_type', 'finter', 'nsweeps'):
        if cfg.get(k):
            f.append(k)
    return '+'.join(f) or 'plain'


def negative_controls(ck, chosen, viol):
    """The checker must have teeth on REAL logs: illegal perturbations of accepted logs must be rejected.
       (a) a receive completes before its matching send is posted (the wait is moved in front of the send);
       (b) a delivered payload differs from the sent one;   (c) a receive is credited to a different send
       (partner request number + 1);   (d) a collective is left by a rank that needs all before the last entry."""
    import copy
    picked = [t for t in chosen if 300 <= len(t[2]['events']) <= 3000][:3]
    if not picked:
        picked = chosen[:1]
    if not picked:
        return
    parts = ['From Coq Require Import List ZArith Bool Uint63.\nFrom PySDC Require Import Model.MPI.\nImport ListNotations.\n']
    labels = []
    for li, (name, spec, nl) in enumerate(picked):
        ev = nl['events']
        muts = []
        # index of a receive completion and of the send it names
        post_index = {}
        cnt = {}
        for i, e in enumerate(ev):
            if e[1] in (0, 1):
                q = cnt.get(e[0], 0)
                cnt[e[0]] = q + 1
                post_index[(e[0], q)] = i
        waits = [i for i, e in enumerate(ev) if e[1] == 2]
        if waits:
            i = waits[len(waits) // 2]
            e = ev[i]
            j = post_index[(e[3], e[4])]
            a = copy.deepcopy(ev)
            w = a.pop(i)
            # the receive itself must stay posted before its wait: move the SEND behind the wait instead
            sname = a.pop(j)
            a.insert(i - 1, w)
            a.insert(i, sname)
            muts.append(('recv-before-send', a))
            b = copy.deepcopy(ev)
            b[i][5] = b[i][5] + 1000
            muts.append(('wrong-payload', b))
            c = copy.deepcopy(ev)
            c[i][4] = c[i][4] + 1
            muts.append(('wrong-partner', c))
        # collective instance numbers: k-th enter / k-th exit of a rank on a communicator
        ent, ext, inst = {}, {}, {}
        for i, e in enumerate(ev):
            if e[1] == 5:
                inst[i] = ent.get((e[0], e[2]), 0)
                ent[(e[0], e[2])] = inst[i] + 1
            elif e[1] == 6:
                inst[i] = ext.get((e[0], e[2]), 0)
                ext[(e[0], e[2])] = inst[i] + 1
        for i, e in enumerate(ev):
            if e[1] != 6 or e[3] != 0 or len(nl['comms'][e[2]]) < 2:
                continue
            # enters of the SAME instance by other members before this exit; if this rank needs all members
            # (barrier/allreduce/allgather/split) leaving before the last of them is illegal
            same = [k for k in range(i) if ev[k][1] == 5 and ev[k][2] == e[2] and inst[k] == inst[i] and ev[k][0] != e[0]]
            if same and ev[same[-1]][3] in (0, 7, 8, 9, 10, 11):
                d = copy.deepcopy(ev)
                x = d.pop(i)
                d.insert(same[-1], x)
                muts.append(('exit-before-last-enter', d))
                break
        for mname, mev in muts:
            nm = 'm%d_%s' % (li, mname.replace('-', '_'))
            parts.append(to_coq(dict(nl, events=mev), nm))
            parts.append('Eval vm_compute in (match decode_log raw_%s with Some l => replay cu_%s eager_%s %d l | None => true end).\n'
                         % (nm, nm, nm, nl['n']))
            labels.append((name, spec, mname))
    path = ck.write_gen('Negative.v', ''.join(parts))
    rc, out = ck.coqc(path, timeout=1500)
    if rc != 0:
        ck.obligation('negative controls compile', False, out[-400:])
        return
    vals = [parse_coq_value(v) for v in eval_outputs(out)]
    for (name, spec, mname), v in zip(labels, vals):
        ck.obligation('negative control %s on %s rejected' % (mname, name), v is False, 'replay = %s' % v)
        if v is not False:
            viol('the Coq checker accepts an illegal perturbation (%s) of a real log' % mname,
                 {'cfg': name, 'schedule': spec, 'mutation': mname}, {'kind': 'checker-too-weak', 'mutation': mname})
    ck.cov['negative_controls'] = len(labels)


def run(ck):
    rng = ck.rng
    thorough = ck.tier == 'thorough'
    ck.rule = ('configurations: fixed grid covering time ranks 1-5 / node ranks 1-4 / both, 1-3 levels, every predictor, '
               'Jacobi/Gauss-Seidel MSSDC, all_to_done, adaptivity (standard, linearized), BasicRestartingMPI, '
               'SpreadStepSizesBlockwiseMPI, artificial restarts/step sizes, crash after max restarts + seeded random '
               'configurations; schedules per configuration: 8 extreme policies (with none / all standard sends buffered), '
               'seeded random interleavings with random buffering, reduction orders, depth-bounded exhaustive enumeration '
               'for small cases; a case = (configuration, schedule), non-trivial when >= 2 ranks communicate, distinct by '
               '(configuration name, schedule)')
    ck.check_props(required=['C08_diamond', 'C08_schedule_independent', 'C08_one_completes_all_complete',
                             'C08_buffering_independent', 'C08_rendezvous_complete_all_complete', 'C08_replay_sound',
                             'C08_accepted_log_is_execution', 'C08_skeleton_schedule_independent',
                             'C08_skeleton_deadlock_free_all_buffering', 'C08_recv_matched_once',
                             'C08_buffer_untouched_until_complete', 'C08_test_breaks_confluence', 'C08_confluence',
                             'C08_matching_symmetric'])

    cfgs = core_configs() + [dict(c) for c in SMALL]
    nrand = 100 if thorough else 10
    for i in range(nrand):
        cfgs.append(random_config(rng, i))
    only = os.environ.get('C08_CONFIGS')       # debugging / mutation aid: restrict to some configuration names
    if only:
        cfgs = [c for c in cfgs if c['name'] in only.split(',')]
        ck.notes.append('restricted to configurations %s by C08_CONFIGS' % only)
    jobs = []
    for c in cfgs:
        sch = schedules_for(c, rng, ck.tier)
        want = [0, 8 + rng.randrange(3 if not thorough else 12)]
        jobs.append(dict(cfg=c, schedules=sch, want_logs=want))
    ck.log('running %d configurations on the simulated MPI' % len(jobs))
    results = run_jobs_parallel(jobs, nworkers=14, timeout=1500 if thorough else 600)

    ck.log('simulated runs done')
    seen = {}

    def viol(what, replay, match):
        key = json.dumps(match, sort_keys=True, default=str)
        if key in seen:
            seen[key]['count'] += 1
            return
        replay = dict(replay)
        replay['how_to_replay'] = ('PYTHONPATH=/verif:$VERIF_REPO:/verif/harness/simmpi/shim python -m harness.simmpi.runner '
                                   '<<< {"jobs":[{"cfg": <cfg>, "schedules": [<schedule>]}]}')
        seen[key] = {'count': 1}
        ck.violation(what, replay, match=match)

    stats = {}
    option_cov = {}
    info_findings = {}
    logs = []           # (name, normalised log, first?)
    nsched = 0
    for job, (r, err) in zip(jobs, results):
        cfg = job['cfg']
        name = cfg['name']
        if r is None and str(err).startswith('TIMEOUT'):
            # a wall-clock limit under machine load says nothing about the code: recorded, not judged
            # (deadlock = no enabled rank, runaway = deterministic record/event budgets are detected deterministically)
            ck.cov.setdefault('skipped_timeout', []).append(name)
            continue
        if r is None:
            ck.obligation('worker %s' % name, False, str(err)[-400:])
            viol('simulated-MPI worker failed', {'cfg': cfg, 'error': str(err)[-2000:]}, {'kind': 'worker', 'cfg': name})
            continue
        ser = r['serial']
        if ser.get('outcome') == 'TooExpensive':
            ck.cov.setdefault('configs_skipped_too_expensive', []).append(name)
            continue
        # which option values occur in runs that REALLY restart (serial reference), and where
        if ser.get('outcome') == 'ok':
            rst = [x['slot'] for x in ser['recs'] if x['ev'] == 'post' and x['restart']]
            if rst:
                opts = {}
                for grp in ('restarting', 'spread', 'adaptivity'):
                    for k, v in (cfg.get(grp) or {}).items():
                        if isinstance(v, (bool, str)):
                            opts['%s=%s' % (k, v)] = 1
                if cfg.get('adaptivity') and 'embedded_error_flavor' not in cfg['adaptivity']:
                    opts['embedded_error_flavor=standard'] = 1
                for o in opts:
                    e = option_cov.setdefault(o, {'configs': 0, 'restarted_steps': 0, 'restarts_at_slot>=1': 0})
                    e['configs'] += 1
                    e['restarted_steps'] += len(rst)
                    e['restarts_at_slot>=1'] += sum(1 for x in rst if x >= 1)
        elif cfg.get('restarting', {}).get('crash_after_max_restarts') and ser.get('outcome') == 'ConvergenceError':
            e = option_cov.setdefault('crash_after_max_restarts=True (crashed)', {'configs': 0})
            e['configs'] += 1
        first = None
        skeletons = set()
        for m in r['mpi']:
            spec = m.get('spec')
            if 'harness_error' in m:
                viol('harness error in simulated run', {'cfg': cfg, 'schedule': spec, 'error': m['harness_error'], 'tb': m['tb']},
                     {'kind': 'harness', 'cfg': name})
                continue
            if m.get('abort') == 'timeout':
                ck.cov.setdefault('skipped_timeout', []).append('%s %s' % (name, json.dumps(spec)))
                continue
            if any(e and e[0] == 'TooExpensive' for e in m['errors']):
                # deterministic budget: a rank of the MPI run needs more step attempts than the WHOLE serial run was allowed
                viol('simulated MPI run exceeds the step budget the serial run stayed within (runaway)',
                     {'cfg': cfg, 'schedule': spec}, {'kind': 'runaway', 'cfg_kind': cfg['kind'], 'feature': feature_of(cfg)})
                continue
            nsched += 1
            nranks = len(m['errors'])
            ck.case(key=(name, json.dumps(spec)), nontrivial=nranks >= 2,
                    sample={'cfg': name, 'schedule': spec, 'events': m['nevents'], 'decisions': m['decisions']})
            reduce_var = len(spec) > 3 and spec[-1] in ('shuffled', 'reversed')
            if first is None:
                first = m
            if m['abort'] is None:
                skeletons.add(m['skeleton'])
            # --- results
            illcond = (reduce_var and tol_class(cfg) == 'adaptive' and ser.get('outcome') == 'ok' and
                       any(r['ev'] == 'post' and r.get('err_emb') is not None and r['err_emb'] < 1e-10 for r in ser['recs']))
            if m['ranks'] is None:
                pass    # bit-identical to the first schedule's results (digest), which are compared below
            elif illcond:
                # a re-associated floating-point reduction perturbs values by rounding; when the embedded error
                # estimate itself is at rounding level the step-size proposal (e_tol/err)^(1/k) amplifies that without
                # bound, so serial <-> MPI cannot be compared with a fixed tolerance (rank-order reductions are compared)
                ck.cov['reduce_order_runs_skipped_illconditioned'] = ck.cov.get('reduce_order_runs_skipped_illconditioned', 0) + 1
            else:
                run_stats = {}
                bad = compare(cfg, ser, m, run_stats)
                if not bad:     # calibration statistics only from agreeing runs (known findings would pollute them)
                    for cls, st in run_stats.items():
                        for k, v in st.items():
                            stats.setdefault(cls, {})[k] = max(stats.get(cls, {}).get(k, 0.0), v)
                # report the FIRST discrepancy (earliest step, fields in causal order) as the root, the rest as detail;
                # the (known, serial-side) restart-counter aliasing is reported separately so that it cannot hide others
                ria = [b for b in bad if b[0] == 'restarts_in_a_row']
                rest = [b for b in bad if b[0] != 'restarts_in_a_row']
                for field, detail in ria[:1]:
                    viol('MPI variant differs from the serial emulation: %s' % field,
                         {'cfg': cfg, 'schedule': spec, 'detail': detail, 'n_discrepancies': len(ria)},
                         {'kind': 'serial-vs-mpi', 'field': field, 'cause': 'restart_counter_aliasing'})
                for field, detail in rest[:1]:
                    if field == 'mpi-run-failed' and any(e and e[0] == 'SimError' for e in m['errors']):
                        continue    # reported precisely below (MPI misuse detected by the simulator)
                    step0 = detail.get('step') if isinstance(detail, dict) else None
                    alias = [b[1]['step'] for b in ria if b[1]['step'][1] == 0]
                    if step0 is not None and alias and tuple(min(alias)) <= tuple(step0[:2]):
                        # the first step of this (or an earlier) block already carries a different restart counter
                        # (serial-side aliasing, reported above): max_restarts decisions legitimately diverge from here
                        viol('MPI variant differs from the serial emulation: %s (consequence of the aliased serial restart counter)' % field,
                             {'cfg': cfg, 'schedule': spec, 'detail': detail, 'first_aliased_counter': min(alias)},
                             {'kind': 'serial-vs-mpi', 'field': 'restarts_in_a_row', 'cause': 'restart_counter_aliasing',
                              'consequence': field})
                        continue
                    match = {'kind': 'deadlock' if field == 'deadlock' else 'serial-vs-mpi', 'field': field,
                             'cfg_kind': cfg['kind'], 'feature': feature_of(cfg),
                             'jacobi': bool(cfg.get('mssdc_jac', True)) and cfg.get('nlev', 1) == 1,
                             'coll_update': bool(cfg.get('do_coll_update'))}
                    step = detail.get('step') if isinstance(detail, dict) else None
                    if step is not None and ser.get('outcome') == 'ok':
                        # did the block before the first differing step end with a restart (and where)?
                        prev = [r for r in ser['recs'] if r['ev'] == 'post' and r['block'] == step[0] - 1 and r['restart']]
                        match['after_restart'] = bool(prev)
                        if prev:
                            match['restart_slot'] = '0' if min(r['slot'] for r in prev) == 0 else '>=1'
                            if field == 'dt':
                                # is the serial step size exactly the serial Tend-clipping
                                # (Tend - time[restart_at] - dt[restart_at]) / size  of SpreadStepSizesBlockwiseNonMPI ?
                                frst = min(prev, key=lambda r: r['slot'])
                                size = len([r for r in ser['recs'] if r['ev'] == 'post' and r['block'] == step[0] - 1])
                                clip = (cfg['Tend'] - frst['time'] - (frst['dt'] if frst['slot'] >= 1 else 0.0)) / size
                                sdt = detail.get('serial')
                                match['cause_hint'] = ('serial_dt_max_clip' if isinstance(sdt, float) and abs(sdt - clip) <= 1e-12 * max(1.0, abs(clip))
                                                       else 'other')
                    if field == 'restart' and step is not None and cfg.get('restarting'):
                        # a restart granted by one flavour only although the block's first step sits exactly at max_restarts
                        p0 = [r for r in ser['recs'] if r['ev'] == 'pre' and r['block'] == step[0] and r['slot'] == 0]
                        if p0 and p0[0]['ria'] == cfg['restarting'].get('max_restarts'):
                            match['cause_hint'] = 'counter_equals_max_restarts'
                    viol('MPI variant differs from the serial emulation: %s' % field,
                         {'cfg': cfg, 'schedule': spec, 'detail': detail, 'n_discrepancies': len(rest),
                          'all_fields': sorted({b[0] for b in rest})}, match)
                if m is not first and not reduce_var and m['digest'] != first['digest']:
                    viol('results depend on the schedule', {'cfg': cfg, 'schedule_a': first.get('spec'), 'schedule_b': spec,
                                                           'abort_a': first['abort'], 'abort_b': m['abort']},
                         {'kind': 'schedule-dependent', 'cfg_kind': cfg['kind'], 'feature': feature_of(cfg)})
            # --- simulator monitors
            for e in m['errors']:
                if e and e[0] == 'SimError':
                    import re
                    mm = re.search(r'\[calls: ([^\]]*)\] \[sites: ([^\]]*)\]', e[1])
                    if mm:
                        match = {'kind': 'collective-mismatch', 'calls': mm.group(1), 'sites': mm.group(2)}
                    else:
                        match = {'kind': 'mpi-misuse', 'what': re.sub(r'[0-9]+', 'N', e[1].split(':')[0])[:60]}
                    viol('MPI misuse detected by the simulator: %s' % e[1][:300], {'cfg': cfg, 'schedule': spec, 'error': e}, match)
            for f in m['findings']:
                k = f['kind']
                if k in FINDING_VIOLATIONS:
                    if k == 'send-never-completed':
                        if not f.get('handle_dropped'):
                            what = 'non-blocking send is never completed (no Wait/Test) before the run ends'
                            match = {'kind': 'send-never-completed', 'site': f.get('site'), 'api': f.get('api')}
                        else:
                            what = ('request handle of an incomplete non-blocking send is dropped (its buffer is released '
                                    'before the send completes)')
                            # 'site' = where the send was posted; when the handle dies somewhere else that place
                            # is appended, so that a NEW way of losing a request never coincides with a recorded one
                            site = f.get('site')
                            if f.get('dropped_in') and f.get('dropped_in') != site:
                                site = '%s>%s' % (site, f.get('dropped_in'))
                            match = {'kind': 'request-dropped-incomplete', 'site': site, 'api': f.get('api'),
                                     'posted_by': f.get('posted_by'), 'dropped_by': f.get('dropped_by')}
                    else:
                        what = 'simulator monitor: %s' % k
                        match = {'kind': k, 'site': f.get('site'), 'api': f.get('api')}
                    viol(what, {'cfg': cfg, 'schedule': spec, 'finding': f}, match)
                else:
                    kk = '%s@%s' % (k, f.get('site') or f.get('detail', '')[:60])
                    info_findings[kk] = info_findings.get(kk, 0) + 1
            if m.get('log_summary', {}).get('wildcard_recvs'):
                viol('wildcard receive (outside the class of the confluence theorem)', {'cfg': cfg, 'schedule': spec},
                     {'kind': 'wildcard-recv', 'cfg_kind': cfg['kind']})
            if 'log' in m and m['abort'] is None:
                logs.append((name, spec, m['log']))
        if len(skeletons) > 1:
            viol('per-rank communication skeletons differ between schedules', {'cfg': cfg, 'skeletons': sorted(skeletons)},
                 {'kind': 'skeleton-schedule-dependent', 'cfg_kind': cfg['kind'], 'feature': feature_of(cfg)})
        ck.obligation('schedule independence %s (%d schedules)' % (name, len(r['mpi'])), len(skeletons) <= 1 and first is not None)

    ck.cov['schedules_run'] = nsched
    ck.cov['max_relative_deviation_serial_vs_mpi'] = {c: {k: float('%.3g' % v) for k, v in st.items()} for c, st in stats.items()}
    ck.cov['tolerances'] = dict(TOL, **{'between schedules': 'bit-exact (digest)'})
    ck.cov['simulator_notes'] = info_findings
    ck.cov['convergence_controller_options_in_runs_with_restarts'] = option_cov
    ck.cov['violation_counts'] = {k: v['count'] for k, v in seen.items()}

    # ------------------------------------------------------------------ kernel replay of event logs
    budget = 400000 if thorough else 40000     # events
    logs.sort(key=lambda t: len(t[2]['events']))
    chosen, tot = [], 0
    for name, spec, nl in logs:
        ne = len(nl['events'])
        if ne > (40000 if thorough else 6000):
            continue
        if tot + ne > budget:
            continue
        chosen.append((name, spec, nl))
        tot += ne
    ck.cov['logs_replayed_by_kernel'] = len(chosen)
    ck.cov['events_replayed_by_kernel'] = tot
    ck.cov['logs_available'] = len(logs)

    ck.log('replaying %d logs (%d events) through the Coq model' % (len(chosen), tot))

    def one(i_item):
        i, (name, spec, nl) = i_item
        txt = ('From Coq Require Import List ZArith Bool Uint63.\nFrom PySDC Require Import Model.MPI.\nImport ListNotations.\n'
               + to_coq(nl, 'a') + 'Eval vm_compute in check_log cu_a eager_a %d raw_a.\n' % nl['n'])
        path = ck.write_gen('Log_%03d.v' % i, txt)
        rc, out = ck.coqc(path, timeout=1500)
        return i, name, spec, nl, rc, out

    negative_controls(ck, chosen, viol)

    with concurrent.futures.ThreadPoolExecutor(14) as ex:
        for i, name, spec, nl, rc, out in ex.map(one, list(enumerate(chosen))):
            label = 'replay %s %s (%d events)' % (name, json.dumps(spec), len(nl['events']))
            if rc != 0:
                ck.obligation(label, False, out[-400:])
                viol('generated log file does not compile', {'cfg': name, 'schedule': spec, 'log': out[-2000:]},
                     {'kind': 'gen', 'cfg': name})
                continue
            val = parse_coq_value(eval_outputs(out)[0])
            decoded, accepted, premises, firstbad, quiescent = val
            ok = decoded is True and accepted is True and premises is True and quiescent is True
            ck.obligation(label, ok, 'check_log = %s' % (val,))
            ck.traces += 1
            if not ok:
                bad_ev = None
                if isinstance(firstbad, tuple) and firstbad[0] == 'Some':
                    bad_ev = nl['events'][firstbad[1]]
                viol('event log of a simulated run is not a legal execution of the Coq transition system '
                     '(decoded, accepted, premises, first bad event, quiescent) = %s' % (val,),
                     {'cfg': name, 'schedule': spec, 'check_log': str(val), 'bad_event': bad_ev},
                     {'kind': 'replay', 'accepted': accepted, 'premises': premises, 'quiescent': quiescent})
