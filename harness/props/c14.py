"""C14 — statistics are a faithful, uniquely keyed record of the run.

Tie to /repo (every run):
  1. synthetic dictionaries (seeded; None-able fields and keyword arguments, unknown keywords, duplicate times with
     different restart counts, run-shaped dictionaries with true and scrambled restart counts) through the REAL
     stats_helper.filter_stats / sort_stats / get_sorted / get_list_of_types  vs  the Coq model (Model/Stats.v),
     compared exactly (keys, values, order, raised-or-not) by the kernel (vm_compute on generated cases);
     independently, the set-level specification proved for the model (C14_filter_recomputed_spec) is evaluated
     in Python on the implementation's output (oracle);
  2. BasicRestartingNonMPI.prepare_next_block (the real function, on stub steps) vs the Coq model prepare_seq;
  3. real controller_nonMPI runs (1-4 steps, 1-2 levels, Adaptivity and/or scripted restarts at arbitrary (block, slot)
     positions incl. repeated restarts of one step; LogWork, LogSolution, LogRestarts, LogStepSize, LogSDCIterations,
     LogGlobalErrorPostStep, LogLocalErrorPostStep, LogEmbeddedErrorEstimate attached):
       * implementation-side oracle built from an independent recording hook and a call-counting problem wrapper
         (harness/c14_lib.check_run): accepted steps tile [t0, Tend]; one record per accepted step and type under its
         true key (slot, start/end time, level, iteration, restart count of the step status); niter = number of
         pre_/post_iteration callbacks; work counters = independently counted eval_f / solve_jacobian calls;
         filter_stats(type=T, recomputed=False) = exactly the accepted records; get_sorted ascending; merged stats =
         union of the hooks' dictionaries;
       * the statistics of the run (types niter/u/dt/restart/work_rhs/residual_post_iteration + markers) go through
         the Coq model (exact correspondence of filter_stats(type=T, recomputed=False)) and through the verified
         validator check_accepted (C14_check_accepted_sound) with the accepted keys from the independent recorder.
"""
import concurrent.futures
import json
import types

from harness import c14_lib as L
from harness.common import coq_list, zlit, parse_coq_value, eval_outputs

LEVEL = 'proof'

REQUIRED = ['C14_filter_exact', 'C14_sort_sorted_perm', 'C14_filter_recomputed_spec', 'C14_filter_recomputed_keeps_accepted',
            'C14_check_accepted_sound', 'C14_check_accepted_fast_sound', 'C14_filter_recomputed_drops_accepted_refuted', 'C14_prepare_seq_aliasing_refuted',
            'C14_prepare_snapshot_spec', 'C14_key_injective', 'C14_increasing_times_nodup', 'C14_one_record_per_step',
            'C14_add_to_stats_key', 'C14_add_to_stats_stale', 'C14_return_stats_last_wins', 'C14_get_list_of_types_spec',
            'C14_tz_order', 'C14_add_hooks_spec']

COQ_TYPES = ['niter', 'u', 'dt', 'restart', 'work_rhs', 'residual_post_iteration']


def items_repr(items):
    return [[list(k), v] for k, v in items]


def gen_configs(rng, n):
    cfgs = [
        # the reproduced history (3 steps, Adaptivity): repeated restarts of the first step, then a restart at slot 1
        dict(problem='test', lam=-5.0, levels=1, dt=0.2, maxiter=3, e_tol=1e-4, procs=3, Tend=0.9),
        # restarts without step-size change: superseded and accepted attempts share start and end times
        dict(problem='test', lam=-1.0, levels=1, dt=0.1, maxiter=3, e_tol=None, procs=3, Tend=0.9, script=[(0, 2), (1, 0), (2, 1)]),
        dict(problem='test', lam=-2.0, levels=2, dt=0.1, maxiter=3, e_tol=None, procs=4, Tend=1.0, script=[(0, 1)]),
        dict(problem='vdp', lam=2.0, levels=2, dt=0.1, maxiter=4, e_tol=None, procs=2, Tend=0.5, script=[(0, 1), (1, 0), (2, 1)]),
        dict(problem='test', lam=-1.0, levels=1, dt=0.1, maxiter=3, e_tol=None, procs=1, Tend=0.5, script=[(1, 0), (2, 0), (3, 0)]),
        # the LAST step / block of the run is restarted (post-run records must carry the final step's restart count)
        dict(problem='test', lam=-1.0, levels=1, dt=0.1, maxiter=3, e_tol=None, procs=1, Tend=0.4, script=[(3, 0), (4, 0)]),
        dict(problem='test', lam=-2.0, levels=1, dt=0.1, maxiter=3, e_tol=None, procs=2, Tend=0.4, script=[(1, 0)]),
        dict(problem='test', lam=-1.0, levels=1, dt=0.1, maxiter=3, e_tol=None, procs=3, Tend=0.6, script=[(1, 1), (2, 0)]),
        # the user asks for a shipped SUBCLASS of a hook that the error estimator registers itself; LogRestarts / LogStepSize /
        # LogEmbeddedErrorEstimate are left to the convergence controllers (BasicRestarting, Adaptivity, EstimateEmbeddedError)
        dict(problem='vdp', lam=2.0, levels=1, dt=0.1, maxiter=3, e_tol=1e-4, procs=1, Tend=0.5, post_iter_hook=True, lean_hooks=True),
        dict(problem='test', lam=-5.0, levels=1, dt=0.2, maxiter=3, e_tol=3e-4, procs=2, Tend=0.6, post_iter_hook=True, lean_hooks=True),
    ]
    while len(cfgs) < n:
        procs = rng.choice([1, 2, 2, 3, 3, 4])
        mode = rng.choice(['adaptive', 'adaptive', 'scripted', 'scripted', 'both', 'none'])
        problem = rng.choice(['test', 'test', 'vdp'])
        c = dict(problem=problem, levels=rng.choice([1, 1, 2]), procs=procs, maxiter=rng.choice([3, 3, 4]),
                 lam=(rng.choice([-5.0, -2.0, -8.0, -1.0]) if problem == 'test' else rng.choice([1.0, 2.0])),
                 jac=(rng.random() < 0.25 and mode in ('scripted', 'none')), e_tol=None)   # Adaptivity refuses Jacobi multi-step mode
        if mode in ('adaptive', 'both'):
            c['e_tol'] = rng.choice([1e-4, 3e-4, 1e-5])
            c['dt'] = rng.choice([0.2, 0.3, 0.1])
            c['Tend'] = rng.choice([0.6, 0.8, 1.0])
            c['maxiter'] = 3
            if c['e_tol'] != 3e-4:
                c['levels'] = 1      # multi-level runs do not reach tight tolerances with 3 iterations: step sizes collapse
        else:
            c['dt'] = rng.choice([0.1, 0.125, 0.05])
            c['Tend'] = c['dt'] * rng.randint(3, 4 * procs + 2)
        if mode in ('scripted', 'both'):
            script = set()
            for _ in range(rng.randint(1, 4)):
                b, s = rng.randint(0, 4), rng.randrange(procs)
                script.add((b, s))
                if rng.random() < 0.5:
                    script.add((b + 1, 0))      # the same step again, now in slot 0
                    if rng.random() < 0.4:
                        script.add((b + 2, 0))
            c['script'] = sorted(script)
        c['lean_hooks'] = rng.random() < 0.4
        c['post_iter_hook'] = c['e_tol'] is not None and rng.random() < 0.5
        cfgs.append(c)
    return cfgs


def run(ck):
    from pySDC.core.hooks import Entry
    from pySDC.helpers import stats_helper
    rng = ck.rng
    thorough = ck.tier == 'thorough'
    ck.rule = ('synthetic: seeded dictionaries of 0-14 random entries over small alphabets (so times/types/keys collide; flavours: regular, '
               'some/many None fields, negative counts, run-shaped with true or scrambled restart counts) x random keyword sets '
               '(None values, unknown names) x recomputed in {None, False, True} x sort key; distinct = new (entries, kwargs, recomputed, sortby); '
               'non-trivial = dictionary not empty.  runs: seeded configurations (steps 1-4, levels 1-2, problem, Adaptivity tolerance, scripted '
               'restart positions); non-trivial = at least one restart occurred')
    if not ck.check_props(required=REQUIRED):
        return
    # at most two replay files per distinct match (the totals go to the evidence)
    seen = {}
    raw_violation = ck.violation

    def limited(what, replay, match=None, no_input=False):
        key = json.dumps(match or {}, sort_keys=True, default=str) + ('|noinput' if no_input else '')
        seen[key] = seen.get(key, 0) + 1
        ck.cov['violations_by_match'] = dict(seen)
        if seen[key] <= 2:
            return raw_violation(what, replay, match=match, no_input=no_input)
        return False
    ck.violation = limited

    # ================================================================== 1. synthetic dictionaries
    ncases = 4000 if thorough else 640
    cases = []
    for i in range(ncases):
        fl = rng.choice(['regular', 'regular', 'some', 'nones', 'wide', 'runlike', 'runlike_alias'])
        if fl.startswith('runlike'):
            d = L.gen_runlike_dict(rng, Entry, fl.endswith('alias'))
        else:
            d = L.gen_dict(rng, Entry, fl, rng.randint(0, 14))
        kw = L.gen_kwargs(rng, d) if rng.random() < 0.8 else {}
        if fl.startswith('runlike') and rng.random() < 0.6:
            kw = {'type': rng.choice(['niter', 'u', '_recomputed'])}
        rec = rng.choice([None, False, False, False, True])
        sortby = rng.choice(L.SORT_FIELDS)
        res = L.run_helpers(stats_helper, d, kw, rec, sortby)
        cases.append((fl, d, kw, rec, sortby, res))
    chunk = 160
    files = []
    for ci in range(0, len(cases), chunk):
        part = cases[ci:ci + chunk]
        txt = L.HEADER + '\n'.join(L.case_coq(ci + j, list(c[1].items()), c[2], c[3], c[4], c[5]) for j, c in enumerate(part))
        txt += '\nEval vm_compute in [%s].\n' % '; '.join('c%d' % (ci + j) for j in range(len(part)))
        files.append(ck.write_gen('Syn_%d.v' % (ci // chunk), txt))
    with concurrent.futures.ThreadPoolExecutor(max_workers=8) as ex:
        outs = list(ex.map(lambda f: ck.coqc(f, timeout=900), files))
    verdicts = []
    for f, (rc, out) in zip(files, outs):
        if rc != 0:
            ck.obligation('synthetic cases evaluate', False, out[-1500:])
            ck.violation('generated synthetic cases do not compile', {'file': f, 'log': out[-3000:]}, match={'kind': 'gen'}, no_input=True)
            return
        verdicts += parse_coq_value(eval_outputs(out)[0])
    assert len(verdicts) == len(cases)
    nbad = 0
    nerr = 0
    for (fl, d, kw, rec, sortby, res), v in zip(cases, verdicts):
        items = list(d.items())
        ck.case(key=('syn', repr(items), repr(sorted(kw.items(), key=str)), rec, sortby), nontrivial=len(items) > 0,
                sample={'kind': 'synthetic', 'flavour': fl, 'entries': len(items), 'kwargs': {k: repr(x) for k, x in kw.items()},
                        'recomputed': rec, 'sortby': sortby})
        nerr += res['err'] is not None
        replay = {'stats': items_repr(items), 'kwargs': {k: repr(x) for k, x in kw.items()}, 'recomputed': rec, 'sortby': sortby,
                  'impl_filter': None if res['filter'] is None else items_repr(res['filter']), 'impl_sorted': repr(res['sorted']),
                  'impl_types': res['types'], 'impl_error': res['err']}
        # ---- oracle (independent specification) on the implementation's output
        orc_bad = None
        side_bad = False
        for call, msg in res['raised']:
            helper = call.split('(')[0]
            ck.violation('%s raised %s' % (call, msg), dict(replay, call=call, exception=msg), match={'kind': 'helper_raises', 'helper': helper})
            side_bad = True
        for what in res['mutated']:
            helper = what.split('(')[0]
            ck.violation('helpers must not touch the statistics they are given: %s' % what, dict(replay, call=what),
                         match={'kind': 'helper_mutates_stats', 'helper': helper})
            side_bad = True
        if res['filter'] is not None and L.is_regular(items):
            sp = L.spec_filter_regular(items, kw, rec)
            if sp != res['filter']:
                orc_bad = 'filter_stats result is not the specified set (matching entries%s)' % (
                    '' if rec is None else ' with the largest restart count of their (time, type) group, off marked times')
                replay['spec_filter'] = items_repr(sp)
        elif res['filter'] is not None and rec is None:
            sp = [(k, x) for k, x in items if L.spec_matches(k, kw)]
            if sp != res['filter']:
                orc_bad = 'filter_stats result is not exactly the matching entries'
                replay['spec_filter'] = items_repr(sp)
        if res['filter'] is None and L.is_regular(items):
            orc_bad = 'filter_stats raised on a regular dictionary'
        if orc_bad:
            ck.violation(orc_bad, replay, match={'kind': 'filter_stats', 'recomputed': rec is not None})
        if res['sorted'] is not None:
            keys_ = [a for a, _ in res['sorted']]
            try:
                asc = all(not (keys_[i + 1] < keys_[i]) for i in range(len(keys_) - 1)) if len(keys_) > 1 else True
            except TypeError:      # incomparable keys in a result that should not exist
                asc = False
            perm = sorted(map(repr, res['sorted'])) == sorted(repr((getattr(k, sortby), x)) for k, x in res['filter'])
            if not asc or not perm or not res.get('get_sorted_same', True):
                ck.violation('sort_stats/get_sorted: result not ascending in %r, not a permutation of the filtered records, or get_sorted differs '
                             'from sort_stats(filter_stats(...))' % sortby, replay, match={'kind': 'sort_stats'})
                orc_bad = orc_bad or 'sort'
        exp_types = []
        for k, _ in items:
            if k.type not in exp_types:
                exp_types.append(k.type)
        if res['types'] is not None and exp_types != res['types']:
            ck.violation('get_list_of_types is not the list of distinct types in order of first appearance', replay, match={'kind': 'get_list_of_types'})
            orc_bad = orc_bad or 'types'
        # ---- correspondence verdict of the kernel
        if v != (True, True, True):
            nbad += 1
            if not orc_bad and not side_bad:
                which = [n for n, b in zip(('filter_stats', 'get_sorted', 'get_list_of_types'), v) if not b]
                ck.violation('Coq model and implementation disagree on %s (oracle found nothing wrong on this input)' % ', '.join(which),
                             replay, match={'kind': 'correspondence', 'what': which[0]}, no_input=True)
    ck.obligation('filter_stats/get_sorted/get_list_of_types: model = implementation on %d synthetic cases' % len(cases), nbad == 0,
                  '%d mismatching cases' % nbad)
    ck.cov['synthetic_cases_where_impl_raises'] = nerr

    # ================================================================== 2. prepare_next_block vs prepare_seq
    from pySDC.implementations.convergence_controller_classes.basic_restarting import BasicRestartingNonMPI
    pcases = []
    for _ in range(400 if thorough else 150):
        n = rng.randint(1, 5)
        flags = [rng.random() < 0.4 for _ in range(n)]
        if rng.random() < 0.5:       # the shape the controller produces: everything after the first restart restarts
            f0 = rng.randint(0, n)
            flags = [i >= f0 for i in range(n)]
        cnt = [rng.randint(0, 4) for _ in range(n)]
        MS = [types.SimpleNamespace(status=types.SimpleNamespace(slot=i, restart=flags[i], restarts_in_a_row=cnt[i])) for i in range(n)]
        err = None
        try:
            for S in MS:
                BasicRestartingNonMPI.prepare_next_block(None, None, S, n, None, None, MS=MS)
            got = [int(S.status.restarts_in_a_row) for S in MS]
        except Exception as e:  # pragma: no cover
            got, err = None, '%s: %s' % (type(e).__name__, e)
        pcases.append((flags, cnt, got, err))
    txt = L.HEADER + 'Definition pc : list (list bool * list Z * list Z) := %s.\n' % coq_list(
        ['(%s, %s, %s)' % (coq_list(['true' if b else 'false' for b in f]), coq_list([zlit(c) for c in cn]), coq_list([zlit(g) for g in (got or [])]))
         for f, cn, got, err in pcases])
    txt += "Eval vm_compute in map (fun '(f, c, g) => (zlist_eqb (prepare_seq f c) g, zlist_eqb (prepare_snapshot f c) g)) pc.\n"
    rc, out = ck.coqc(ck.write_gen('Prepare.v', txt), timeout=600)
    if rc != 0:
        ck.obligation('prepare_next_block cases evaluate', False, out[-1500:])
        ck.violation('generated prepare_next_block cases do not compile', {'log': out[-3000:]}, match={'kind': 'gen'}, no_input=True)
        return
    pv = parse_coq_value(eval_outputs(out)[0])
    for (flags, cnt, got, err), _ in zip(pcases, pv):
        ck.case(key=('prepare', tuple(flags), tuple(cnt)), nontrivial=any(flags))
    all_seq = all(err is None and a for (_, _, _, err), (a, _) in zip(pcases, pv))
    all_snap = all(err is None and b for (_, _, _, err), (_, b) in zip(pcases, pv))
    alias_repro = None
    if all_snap:
        ck.obligation('prepare_next_block: implementation = prepare_snapshot (every step takes its count along) on %d cases' % len(pcases), True)
        ck.cov['prepare_next_block_semantics'] = 'snapshot'
    elif all_seq:
        ck.obligation('prepare_next_block: implementation = prepare_seq (in-place update, one call per step) on %d cases' % len(pcases), True)
        ck.cov['prepare_next_block_semantics'] = 'sequential in-place (aliasing)'
        for (flags, cnt, got, err), (_, same_snap) in zip(pcases, pv):
            if not same_snap and all(flags[i] or not any(flags[:i]) for i in range(len(flags))):
                rf = min([i for i, f in enumerate(flags) if f] + [len(flags) - 1])
                snap = [(cnt[i] + 1 if flags[i] else 0) for i in range(rf, len(flags))] + [0] * rf
                if alias_repro is None or len(flags) < len(alias_repro['restart_flags']):
                    alias_repro = {'call': 'for S in MS: BasicRestartingNonMPI.prepare_next_block(..., S, size=len(MS), MS=MS)', 'restart_flags': flags,
                                   'restarts_in_a_row_before': cnt, 'after_impl': got, 'after_snapshot_semantics': snap}
        ck.cov['prepare_next_block_cases_differing_from_snapshot_semantics'] = sum(1 for _, (_, b_) in zip(pcases, pv) if not b_)
    else:
        bad = [(c, v) for c, v in zip(pcases, pv) if c[3] is not None or not (v[0] or v[1])]
        (flags, cnt, got, err), _ = (bad or [(pcases[0], None)])[0]
        ck.obligation('prepare_next_block: implementation = one of its two models', False)
        ck.violation('BasicRestartingNonMPI.prepare_next_block is neither the pinned in-place update (prepare_seq) nor the snapshot update'
                     + (' (raised %s)' % err if err else ''), {'flags': flags, 'restarts_in_a_row': cnt, 'impl': got},
                     match={'kind': 'correspondence', 'what': 'prepare_next_block'}, no_input=True)

    # ================================================================== 2b. Hooks.add_to_stats / increment_stats / callbacks / return_stats
    from pySDC.core.hooks import Hooks
    from pySDC.core.controller import Controller
    CBS = ['pre_setup', 'pre_run', 'pre_predict', 'pre_step', 'pre_iteration', 'pre_sweep', 'pre_comm', 'post_comm', 'post_sweep',
           'post_iteration', 'post_step', 'post_predict', 'post_run', 'post_setup']

    class _Status(object):
        def __init__(self, d):
            self.d = d

        def get(self, key, default=None):
            return self.d.get(key, default)

    hcases = []
    for _ in range(120 if thorough else 40):
        hooks, scripts, pyscripts = [], [], []
        for hi in range(rng.randint(1, 3)):
            h = Hooks()
            ops = []
            pyops = []
            for _ in range(rng.randint(1, 14)):
                r = rng.random()
                if r < 0.35:
                    cb = rng.choice(CBS)
                    kind = rng.random()
                    if kind < 0.15:
                        step, lit = None, 'N'
                    elif kind < 0.3:
                        step, lit = types.SimpleNamespace(status=_Status({})), '(Some N)'
                    else:
                        c = rng.randint(0, 3)
                        step, lit = types.SimpleNamespace(status=_Status({'restarts_in_a_row': c})), '(Some (J %d))' % c
                    getattr(h, cb)(step, 0)
                    ops.append('ORefresh %s' % lit)
                    pyops.append(('refresh', cb, 0 if step is None else step.status.get('restarts_in_a_row')))
                else:
                    kw = {}
                    for f, vals in (('process', [0, 1]), ('time', [0.0, 0.1, 0.25]), ('level', [0, -1]), ('iter', [1, 2]),
                                    ('type', ['niter', 'k', 'u%d' % hi]), ('num_restarts', [0, 7]), ('sweep', [1])):
                        if rng.random() < 0.6:
                            kw[f] = rng.choice(vals)
                    v = rng.randint(-3, 9)
                    klit = L.entry_lit({f: kw.get(f) for f in L.FIELDS})
                    if r < 0.7:
                        h.add_to_stats(value=v, **kw)
                        ops.append('OAdd %s %s' % (klit, zlit(v)))
                        pyops.append(('add', kw, v))
                    else:
                        ini = rng.choice([None, None, 0, 5])
                        h.increment_stats(value=v, initialize=ini, **kw)
                        ops.append('OIncr %s %s %s' % (klit, zlit(v), 'N' if ini is None else '(J %d)' % ini))
                        pyops.append(('incr', kw, v, ini))
            hooks.append(h)
            scripts.append(ops)
            pyscripts.append(pyops)
        merged = Controller.return_stats(types.SimpleNamespace(hooks=hooks))
        hcases.append((scripts, [list(h.return_stats().items()) for h in hooks], list(merged.items())))
        # implementation-side oracle: replay with plain dictionary semantics (key carries the count of the latest callback)
        exp_merged = {}
        for h, pyops in zip(hooks, pyscripts):
            cur, dd = 0, {}
            for o in pyops:
                if o[0] == 'refresh':
                    cur = o[2]
                else:
                    key = Entry(**{**{f: None for f in L.FIELDS}, **o[1], 'num_restarts': cur})
                    if o[0] == 'add':
                        dd[key] = o[2]
                    elif key in dd:
                        dd[key] = dd[key] + o[2]
                    else:
                        dd[key] = o[3] if o[3] is not None else o[2]
            if list(dd.items()) != list(h.return_stats().items()):
                ck.violation('a hook dictionary is not what its calls imply (key = given fields + restart count of the latest callback; '
                             'add overwrites, increment adds or initialises)', {'calls': [repr(o) for o in pyops], 'impl': items_repr(h.return_stats().items()),
                                                                               'expected': items_repr(dd.items())}, match={'kind': 'hooks_api'})
            exp_merged.update(dd)
        if list(exp_merged.items()) != list(merged.items()):
            ck.violation('Controller.return_stats is not the in-order union of the hook dictionaries', {'impl': items_repr(merged.items())},
                         match={'kind': 'merge'})
    txt = L.HEADER + 'Definition hc : list (list (list op) * list (dict Z) * dict Z) := %s.\n' % coq_list(
        ['(%s, %s, %s)' % (coq_list([coq_list(ops) for ops in scripts]), coq_list([L.dict_lit(d) for d in per]), L.dict_lit(mg))
         for scripts, per, mg in hcases])
    txt += ("Eval vm_compute in map (fun '(sc, per, mg) => let hs := map run_ops sc in "
            "(list_eqb dict_eqb (map h_stats hs) per, dict_eqb (return_stats hs) mg)) hc.\n")
    rc, out = ck.coqc(ck.write_gen('Hooks.v', txt), timeout=600)
    if rc != 0:
        ck.obligation('hook scripts evaluate', False, out[-1500:])
        ck.violation('generated hook scripts do not compile', {'log': out[-3000:]}, match={'kind': 'gen'}, no_input=True)
        return
    hv = parse_coq_value(eval_outputs(out)[0])
    nb = 0
    for (scripts, per, mg), (ok_h, ok_m) in zip(hcases, hv):
        ck.case(key=('hooks', repr(scripts)), nontrivial=True)
        if not (ok_h and ok_m):
            nb += 1
            ck.violation('Hooks callbacks/add_to_stats/increment_stats or Controller.return_stats differ from their model on a scripted call sequence',
                         {'scripts': scripts, 'impl_per_hook': [items_repr(d) for d in per], 'impl_merged': items_repr(mg)},
                         match={'kind': 'correspondence', 'what': 'hooks' if not ok_h else 'return_stats'}, no_input=True)
    ck.obligation('Hooks (14 callbacks, add_to_stats, increment_stats) and Controller.return_stats: model = implementation on %d scripts' % len(hcases), nb == 0)

    # ================================================================== 2c. DefaultHooks.post_step vs default_post_step
    from pySDC.implementations.hooks.default_hook import DefaultHooks
    dcases = []
    for _ in range(150 if thorough else 50):
        h = DefaultHooks()
        svs = []
        for _ in range(rng.randint(1, 8)):
            t, dt = rng.choice([0.0, 0.1, 0.2, 0.30000000000000004]), rng.choice([0.1, 0.2, 0.05])
            slot, it, sw, restart, nrr, res, rank = rng.randint(0, 2), rng.randint(1, 3), 1, rng.random() < 0.4, rng.randint(0, 2), rng.randint(0, 50), rng.choice([0, None])
            lvl = types.SimpleNamespace(time=t, dt=dt, level_index=0, status=types.SimpleNamespace(sweep=sw, residual=res),
                                        sweep=types.SimpleNamespace(rank=rank))
            step = types.SimpleNamespace(levels=[lvl], status=types.SimpleNamespace(slot=slot, iter=it, get=(
                lambda key, default=None, d={'restart': restart, 'restarts_in_a_row': nrr}: d.get(key, default))))
            h.post_step(step, 0)
            svs.append('(SV %d %s %s %s 0 %d %d %s (J %d) %d)' % (slot, L.oz_lit(rank), L.time_lit(t)[3:-1].join(['(tz ', ')']) if False else
                       '(tz %s %s)' % tuple(zlit(x) for x in L.float_to_dy(t)), '(tz %s %s)' % tuple(zlit(x) for x in L.float_to_dy(t + dt)),
                       it, sw, 'true' if restart else 'false', nrr, res))
        dcases.append((svs, [(k, int(v)) for k, v in h.return_stats().items()]))
    txt = L.HEADER + 'Definition dc : list (list step_view * dict Z) := %s.\n' % coq_list(
        ['(%s, %s)' % (coq_list(svs), L.dict_lit(d)) for svs, d in dcases])
    txt += "Eval vm_compute in map (fun '(svs, d) => dict_eqb (h_stats (default_run svs)) d) dc.\n"
    rc, out = ck.coqc(ck.write_gen('DefaultHooks.v', txt), timeout=600)
    if rc != 0:
        ck.obligation('DefaultHooks cases evaluate', False, out[-1500:])
        ck.violation('generated DefaultHooks cases do not compile', {'log': out[-3000:]}, match={'kind': 'gen'}, no_input=True)
        return
    dv = parse_coq_value(eval_outputs(out)[0])
    nb = 0
    for (svs, d), ok in zip(dcases, dv):
        ck.case(key=('default_hook', repr(svs)), nontrivial=True)
        if not ok:
            nb += 1
            ck.violation('DefaultHooks.post_step differs from its model default_post_step on a sequence of stub steps',
                         {'step_views': svs, 'impl': items_repr(d)}, match={'kind': 'correspondence', 'what': 'DefaultHooks.post_step'}, no_input=True)
    ck.obligation('DefaultHooks.post_step: model = implementation on %d step sequences' % len(dcases), nb == 0)

    # ================================================================== 2d. Controller.add_hook: exact-class membership
    class _Ctl(object):
        """just enough of a controller for the unbound Controller.add_hook"""
        def __init__(self):
            self._Controller__hooks = []

        @property
        def hooks(self):
            return self._Controller__hooks

    def reg(classes):
        c = _Ctl()
        for k in classes:
            Controller.add_hook(c, k)
        return [type(h) for h in c.hooks]

    acases = []
    for _ in range(200 if thorough else 80):
        # a random forest of hook classes: class i derives from Hooks or from an earlier class
        fam = []
        for i in range(rng.randint(2, 6)):
            base = rng.choice([Hooks] + fam) if rng.random() < 0.7 else Hooks
            fam.append(type('H%d' % i, (base,), {}))
        reqs = [rng.randrange(len(fam)) for _ in range(rng.randint(1, 9))]
        try:
            got = [fam.index(t) for t in reg([fam[i] for i in reqs])]
            err = None
        except Exception as e:
            got, err = [], '%s: %s' % (type(e).__name__, e)
        parents = [(fam.index(f.__bases__[0]) if f.__bases__[0] in fam else None) for f in fam]
        # oracle: every requested class is held exactly once (as that very class), in order of first request
        want = []
        for i in reqs:
            if i not in want:
                want.append(i)
        ck.case(key=('add_hook', tuple(parents), tuple(reqs)), nontrivial=any(p is not None for p in parents))
        if err is not None or got != want:
            ck.violation('Controller.add_hook: a requested hook class is not registered exactly once (exact class) in request order'
                         + (' (raised %s)' % err if err else ''),
                         {'class_parents': parents, 'requests': reqs, 'registered': got, 'expected': want}, match={'kind': 'add_hook'})
        acases.append((reqs, got, err))
    txt = L.HEADER + 'Definition ac : list (list Z * list Z) := %s.\n' % coq_list(
        ['(%s, %s)' % (coq_list([zlit(i) for i in reqs]), coq_list([zlit(i) for i in got])) for reqs, got, err in acases])
    txt += "Eval vm_compute in map (fun '(r, g) => zlist_eqb (add_hooks r []) g) ac.\n"
    rc, out = ck.coqc(ck.write_gen('AddHook.v', txt), timeout=600)
    if rc != 0:
        ck.obligation('add_hook cases evaluate', False, out[-1500:])
        ck.violation('generated add_hook cases do not compile', {'log': out[-3000:]}, match={'kind': 'gen'}, no_input=True)
        return
    av = parse_coq_value(eval_outputs(out)[0])
    ck.obligation('Controller.add_hook on random class hierarchies: model add_hooks = implementation on %d request sequences' % len(acases), all(av))
    if not all(av) and not any(k.startswith('{"kind": "add_hook"') for k in seen):
        reqs, got, err = [c for c, v in zip(acases, av) if not v][0]
        ck.violation('Controller.add_hook differs from its model add_hooks', {'requests': reqs, 'registered': got},
                     match={'kind': 'correspondence', 'what': 'add_hook'}, no_input=True)
    # shipped hooks: every (subclass, base) pair of pySDC/implementations/hooks, both request orders
    import importlib
    import inspect
    import pkgutil
    import pySDC.implementations.hooks as hookpkg
    shipped = {}
    for m in pkgutil.iter_modules(hookpkg.__path__):
        try:
            mod = importlib.import_module('pySDC.implementations.hooks.' + m.name)
        except Exception:
            continue       # optional dependencies (plotting)
        for name, obj in inspect.getmembers(mod, inspect.isclass):
            if issubclass(obj, Hooks) and obj is not Hooks and obj.__module__ == mod.__name__:
                shipped[name] = obj
    pairs = [(a, b) for a in sorted(shipped) for b in sorted(shipped) if a != b and issubclass(shipped[a], shipped[b])]
    npairs = 0
    skipped = []
    for sub, base in pairs:
        for order in ((sub, base), (base, sub)):
            try:
                got = [t.__name__ for t in reg([shipped[n] for n in order])]
            except Exception as e:     # hooks that cannot be instantiated without configuration (file loggers)
                skipped.append('%s+%s: %s' % (order[0], order[1], type(e).__name__))
                continue
            npairs += 1
            ck.case(key=('add_hook_shipped',) + order, nontrivial=True)
            if got != list(order):
                ck.violation('Controller.add_hook(%s) then add_hook(%s): registered %s — asking for a subclass must not make the base hook '
                             '(its record types) disappear' % (order[0], order[1], got),
                             {'call': 'Controller.add_hook', 'requests': list(order), 'registered': got},
                             match={'kind': 'add_hook', 'shipped': True})
    ck.cov['shipped_hook_subclass_pairs'] = ['%s<:%s' % p for p in pairs]
    ck.cov['shipped_hook_pairs_checked'] = npairs
    ck.cov['shipped_hook_pairs_skipped'] = skipped

    # ================================================================== 3. real runs
    import random
    cfgs = gen_configs(random.Random('C14-runs:%d' % ck.seed), 60 if thorough else 18)
    agg = {}      # match-key -> (what, replay, match)
    run_infos = []
    coq_parts = []
    coq_meta = []
    for ri, cfg in enumerate(cfgs):
        r = L.run_config_guarded(cfg, 90)
        if r['error'] == 'timeout':
            run_infos.append({'cfg': cfg, 'error': 'no result within 90 s (skipped)'})
            continue
        if r['error'] is not None:
            run_infos.append({'cfg': cfg, 'error': r['error']})
            ck.case(key=('run', repr(sorted(cfg.items()))), nontrivial=False)
            if not r['error'].startswith('ConvergenceError'):
                ck.violation('controller run raised ' + r['error'], {'config': cfg}, match={'kind': 'run_raises'})
            continue
        ck.traces += 1
        F, info = L.check_run(r, stats_helper, Entry)
        info_s = {k: v for k, v in info.items() if k != 'types'}
        run_infos.append({'cfg': cfg, **info_s, 'findings': len(F)})
        ck.case(key=('run', repr(sorted(cfg.items()))), nontrivial=info['superseded'] > 0,
                sample={'kind': 'run', 'config': cfg, **info_s})
        for f in F:
            if f['kind'] in ('recomputed_filter_drops_accepted', 'recomputed_filter_keeps_superseded'):
                match = {'kind': f['kind'], 'cause': f['cause']}
                if f['cause'] == 'stale_hook_counter':
                    match['hook'] = f['detail'].get('hook')
            elif f['kind'] == 'post_run_record_extra':
                match = {'kind': f['kind'], 'hook': f['detail'].get('hook'), 'cause': f['cause']}
            elif f['kind'] in ('key_num_restarts_stale', 'record_missing', 'hook_not_registered', 'hook_registered_twice', 'post_run_key'):
                match = {'kind': f['kind'], 'hook': f['detail'].get('hook')}
            elif f['kind'] in ('helper_mutates_stats', 'helper_raises'):
                match = {'kind': f['kind'], 'helper': f['detail'].get('helper')}
            else:
                match = {'kind': f['kind']}
            mk = tuple(sorted(match.items(), key=str))
            if mk not in agg:
                agg[mk] = dict(what=f['what'], match=match, n=0, runs=set(), first={'config': cfg, 'finding': f['what'], 'detail': f['detail'],
                                                                                   'run_summary': info_s})
                if match.get('cause') == 'restart_counter_aliasing' and alias_repro is not None:
                    agg[mk]['first']['function_level_reproducer'] = alias_repro
            agg[mk]['n'] += 1
            agg[mk]['runs'].add(ri)
        # ---- the same statistics through the Coq model and the verified validator
        stats = r['stats']
        sub = {}
        for k, v in stats.items():
            if k.type == '_recomputed':
                sub[k] = bool(v)
            elif k.type in COQ_TYPES:
                sub[k] = 1
        atts = L.attempts_of(r['events'])
        acc_ident = {}
        for a in atts:
            if not a['restart']:
                for ty in COQ_TYPES:
                    if ty == 'residual_post_iteration':
                        for it in range(1, a['iter'] + 1):
                            acc_ident[(ty, a['slot'], a['time'], -1, it)] = a['nr']
                    else:
                        kf = L.expected_key_fields(a, ty)
                        acc_ident[(ty, kf['process'], kf['time'], kf['level'], kf['iter'])] = a['nr']
        acc_keys = [k for k in sub if acc_ident.get((k.type, k.process, k.time, k.level, k.iter), 'x') == k.num_restarts]
        tys = [t for t in COQ_TYPES if any(k.type == t for k in sub)]
        exp = {}
        for ty in tys:
            try:
                exp[ty] = list(stats_helper.filter_stats(sub, type=ty, recomputed=False).items())
            except TypeError:
                exp[ty] = None
        part = ['Definition r%d : dict Z := %s.' % (ri, L.dict_lit(list(sub.items()))),
                'Definition a%d : list entry := %s.' % (ri, coq_list([L.entry_lit(k) for k in acc_keys])),
                'Definition v%d := (check_accepted_fast a%d r%d, [%s]).' % (ri, ri, ri, '; '.join(
                    'match filter_stats ztruthy r%d (kw_tt (Y "%s") N) (Some false), %s with Some x, Some y => dict_eqb x y | None, None => true | _, _ => false end'
                    % (ri, ty, 'N' if exp[ty] is None else '(Some %s)' % L.dict_lit(exp[ty])) for ty in tys))]
        coq_parts.append((ri, '\n'.join(part)))
        coq_meta.append((ri, cfg, tys, exp, acc_keys, sub, F))
    # compile the run files (a few runs per file)
    files = []
    groups = [coq_parts[i:i + 3] for i in range(0, len(coq_parts), 3)]
    for gi, g in enumerate(groups):
        txt = L.HEADER + '\n'.join(p for _, p in g) + '\nEval vm_compute in [%s].\n' % '; '.join('v%d' % ri for ri, _ in g)
        files.append(ck.write_gen('Runs_%d.v' % gi, txt))
    with concurrent.futures.ThreadPoolExecutor(max_workers=8) as ex:
        outs = list(ex.map(lambda f: ck.coqc(f, timeout=1200), files))
    rv = []
    for f, (rc, out) in zip(files, outs):
        if rc != 0:
            ck.obligation('run statistics evaluate in Coq', False, out[-1500:])
            ck.violation('generated run cases do not compile', {'file': f, 'log': out[-3000:]}, match={'kind': 'gen'}, no_input=True)
            return
        rv += parse_coq_value(eval_outputs(out)[0])
    n_valid = 0
    n_incon = 0
    for (ri, cfg, tys, exp, acc_keys, sub, F), (valid, same) in zip(coq_meta, rv):
        filt_findings = [f for f in F if f['kind'].startswith('recomputed_filter') and f['detail'].get('type') in tys]
        ok_corr = all(same)
        ck.obligation('run %d: model filter_stats(type=T, recomputed=False) = implementation for T in %s' % (ri, tys), ok_corr)
        if not ok_corr:
            bad_t = [t for t, s in zip(tys, same) if not s]
            ck.violation('Coq model and implementation disagree on filter_stats(type=%s, recomputed=False) for the statistics of a real run' % bad_t,
                         {'config': cfg, 'types': bad_t}, match={'kind': 'correspondence', 'what': 'filter_stats_run'}, no_input=not filt_findings)
        if valid:
            n_valid += 1
            # theorem C14_check_accepted_sound: the filter must return exactly the accepted keys
            for ty in tys:
                want = [k for k in sub if k in set(acc_keys) and k.type == ty]
                got = None if exp[ty] is None else [k for k, _ in exp[ty]]
                if want != got:
                    ck.violation('verified validator accepts the statistics of a run but the real filter_stats(type=%r, recomputed=False) does not '
                                 'return exactly the accepted records' % ty, {'config': cfg, 'type': ty},
                                 match={'kind': 'correspondence', 'what': 'check_accepted'}, no_input=True)
            ck.obligation('run %d: check_accepted (accepted steps carry the largest restart count; superseded outnumbered or marked)' % ri, True)
        else:
            if filt_findings or any(f['kind'] == 'key_num_restarts_stale' for f in F):
                ck.obligation('run %d: check_accepted' % ri, False, 'rejected; the oracle reports: ' + '; '.join(sorted({f['kind'] for f in F})))
            else:
                n_incon += 1
    ck.cov['runs'] = run_infos
    ck.cov['runs_validated_by_check_accepted'] = n_valid
    ck.cov['runs_rejected_by_check_accepted_without_oracle_finding'] = n_incon
    for mk, a in sorted(agg.items(), key=str):
        a['first']['occurrences'] = a['n']
        a['first']['runs_affected'] = len(a['runs'])
        ck.violation('%s  [%d occurrence(s) in %d run(s)]' % (a['what'], a['n'], len(a['runs'])), a['first'], match=a['match'])
