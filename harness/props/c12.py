"""C12 — every problem class honours the solver contract the sweepers rely on.

Deciding method (honest label: translation validation with a verified checker).
  * Coq (Props/C12.v): certificate checkers for the contract  u - factor*f_impl(u) = rhs  with
    soundness theorems over Q, the factor = 0 corollary, split-sum certificate, general linear
    rows (mass matrix / boundary rows) and the uniqueness theorem from an approximate-inverse
    certificate.
  * Tie, every run: every importable problem class x the solver / BC / splitting variants of
    harness/c12_lib.py is RUN on seeded admissible inputs; operators, inputs and outputs are exported
    as exact dyadics and the Coq kernel evaluates the verified checkers on them.
  * Implementation-side oracle (floats, labelled as such): residual against the class' own eval_f,
    tolerance = slack * configured solver tolerance + slack * rounding floor; argument
    immutability; split siblings; closed-form u_exact vs. initial condition and eval_f.
"""
import concurrent.futures
import math
import time
from fractions import Fraction as F

import numpy as np
import scipy.sparse as sp

from harness.common import coq_list, dy_lit, frac_dy_lit, zlit, parse_coq_value, eval_outputs
from harness import c12_lib as L

LEVEL = 'translation_validation'
RTOL_EXP = -40            # Coq-side relative tolerance 2^-40 w.r.t. max_i(|u_i| + |rhs_i| + |factor| sum_j |a_ij||u_j|)
CFG_SLACK = 100.0         # slack on the configured solver tolerance (newton_tol, lintol * ||rhs||_2)
ULP_SLACK = 1024.0        # slack on the rounding floor (residual change under +-1 ulp perturbations of u)
SPLIT_RTOL = 2.0 ** -40
EXACT_RTOL = 1e-8
DYNAMIC_OP = {'Battery.battery', 'Battery.battery_n_capacitors', 'Battery.battery_implicit', 'BuckConverter.buck_converter'}
MAX_COQ_DIM = 1300
HDR = ['From Coq Require Import ZArith QArith List Bool.',
       'From PySDC Require Import Base.Dyadic Model.SolverContract.',
       'Import ListNotations.', 'Open Scope Z_scope.',
       'Definition out (d : dy) := (dm d, de d).', '']


def vec_lit(x):
    return coq_list([dy_lit(v) for v in np.asarray(x, dtype=float).ravel()])


def rows_lit(rows):
    return '(zrows %s)' % coq_list([coq_list(['(%d, %s)' % (c, dy_lit(v)) for c, v in r]) for r in rows])


def dense_lit(B):
    return coq_list([coq_list([dy_lit(v) for v in row]) for row in B])


def dy_val(pair):
    m, e = pair
    return float(F(m) * (F(2) ** e))


def up(x):
    """a float >= x (for tolerances / certificate bounds computed exactly)."""
    x = float(x)
    return math.nextafter(x, math.inf) if x > 0 else x


def hexlist(a):
    return [float(v).hex() for v in np.asarray(a).ravel().view(float)] if np.iscomplexobj(np.asarray(a)) else [float(v).hex() for v in np.asarray(a, dtype=float).ravel()]


def probe_operator(prob, part, t, affine):
    """matrix of u -> part(eval_f(u, t)) from unit vectors (columns are exact images of eval_f's floats)."""
    z = prob.dtype_u(prob.init)
    n = int(np.asarray(z).size)
    b = L.part_of(prob.eval_f(L.make_u(prob, np.zeros(z.shape)), t), part).ravel().copy() if affine else np.zeros(n)
    cols = []
    for j in range(n):
        e = np.zeros(n)
        e[j] = 1.0
        cols.append(L.part_of(prob.eval_f(L.make_u(prob, e.reshape(z.shape)), t), part).ravel() - b)
    return np.array(cols).T, b


class Collector:
    """generated Coq cases: each case is a Coq term of type (list bool * list (Z*Z))."""

    def __init__(self, ck):
        self.ck = ck
        self.cases = []      # (meta, defs(list of str), term(str), size)

    def add(self, meta, defs, term, shared=None):
        """shared = (key, definition text using the name @S): emitted once per generated file."""
        size = sum(len(d) for d in defs) + len(term)
        self.cases.append((meta, defs, term, size, shared))

    def run(self):
        ck = self.ck
        # chunk by size
        chunks, cur, cur_size, cur_shared = [], [], 0, set()
        for c in self.cases:
            extra = len(c[4][1]) if c[4] is not None and c[4][0] not in cur_shared else 0
            if cur and (cur_size + c[3] + extra > 260_000 or len(cur) >= 40):
                chunks.append(cur)
                cur, cur_size, cur_shared = [], 0, set()
                extra = len(c[4][1]) if c[4] is not None else 0
            cur.append(c)
            cur_size += c[3] + extra
            if c[4] is not None:
                cur_shared.add(c[4][0])
        if cur:
            chunks.append(cur)
        files = []
        for ci, chunk in enumerate(chunks):
            lines = list(HDR)
            names = []
            shared_names = {}
            for k, (meta, defs, term, _, shared) in enumerate(chunk):
                sname = ''
                if shared is not None:
                    if shared[0] not in shared_names:
                        shared_names[shared[0]] = 's%d' % len(shared_names)
                        lines.append(shared[1].replace('@S', shared_names[shared[0]]))
                    sname = shared_names[shared[0]]
                for d in defs:
                    lines.append(d.replace('@K', 'k%d' % k).replace('@S', sname))
                lines.append('Definition case_%d : list bool * list (Z * Z) := %s.' % (k, term.replace('@K', 'k%d' % k).replace('@S', sname)))
                names.append('case_%d' % k)
            lines.append('Eval vm_compute in %s.' % coq_list(names))
            files.append((ck.write_gen('Cert_%03d.v' % ci, '\n'.join(lines) + '\n'), chunk))
        results = {}

        def work(item):
            path, chunk = item
            rc, out = ck.coqc(path, timeout=1500, extra=['-noglob'])
            return path, chunk, rc, out

        with concurrent.futures.ThreadPoolExecutor(max_workers=14) as ex:
            for path, chunk, rc, out in ex.map(work, files):
                if rc != 0:
                    ck.obligation('%s evaluates' % path.split('/')[-1], False, out[-1500:])
                    ck.violation('generated certificate file does not compile', {'file': path, 'log': out[-3000:]}, match={'kind': 'gen'}, no_input=True)
                    for c in chunk:
                        results[c[0]['id']] = None
                    continue
                vals = parse_coq_value(eval_outputs(out)[0])
                assert len(vals) == len(chunk), (len(vals), len(chunk))
                for c, v in zip(chunk, vals):
                    results[c[0]['id']] = v
        ck.cov['coq_files'] = len(files)
        return results


def run(ck):
    L.quiet()
    rng = ck.rng
    thorough = ck.tier == 'thorough'
    t_start = time.time()
    ck.rule = ('for every importable problem class and each registered variant (solver type, boundary condition, order, splitting): '
               'factor 0 and seeded factors log-uniform in the admissible range (1e-6..1e2 unless the registry narrows it), random time, '
               'random right-hand side / initial guess (linear classes) or manufactured right-hand side rhs = u* - factor f(u*) with a perturbed '
               'initial guess (Newton classes); plus call-history cases per variant: solve as the very first call of a fresh instance at t in [1,3], and '
               'solve at t in [1,3] right after an eval_f / solve_system at t1 in [0,0.3] on the same instance, factor in the upper half of the '
               'range, inputs manufactured by a second instance and the residual measured with the eval_f of a third, fresh instance; '
               'a case is distinct by (class, variant, method, trial) and non-trivial when factor != 0')
    ck.check_props(required=['C12_check_solve_cert_sound', 'C12_factor_zero', 'C12_check_lin_cert_sound', 'C12_check_resid_cert_sound',
                             'C12_resid_and_apply_give_contract', 'C12_split_sum', 'C12_contract_unique', 'C12_solve_cert_unique'])

    classes, import_err = L.discover()
    ck.cov['classes_importable'] = sorted(classes)
    ck.cov['modules_skipped_import_error'] = import_err
    regkeys = {v.key for v in L.REG}
    unreg = sorted(set(classes) - regkeys - set(L.ABSTRACT))
    ck.cov['classes_not_in_registry'] = unreg
    ck.cov['classes_abstract'] = L.ABSTRACT
    if unreg:
        ck.notes.append('importable problem classes without a registry entry (not covered): %s' % unreg)
    missing = sorted(regkeys - set(classes))
    for k in missing:
        ck.violation('registered problem class no longer importable: %s' % k, {'class': k}, match={'kind': 'import', 'class': k}, no_input=True)

    # ------------------------------------------------------------------ selection of variants
    variants = [v for v in L.REG if v.key in classes]
    if not thorough:
        rest = [v for v in variants if not v.always]
        rng.shuffle(rest)
        chosen = set(id(v) for v in rest[:12])
        variants = [v for v in variants if v.always or id(v) in chosen]
    ntrials = 6 if thorough else 2
    nhist = 2 if thorough else 1
    ck.cov['variants_run'] = len(variants)
    ck.cov['variants_registered'] = len(L.REG)

    col = Collector(ck)
    covered = {}
    reported = set()
    stats = {'solve_cases': 0, 'solver_exceptions': 0, 'inconsistent_switch_skipped': 0, 'worst_res_over_tol': 0.0,
             'worst_res_over_floor_direct': 0.0}
    factor_hist = {'0': 0, '<1e-3': 0, '<1': 0, '>=1': 0}
    pending = []      # (meta, oracle_ok, replay) for cases with Coq verdict pending

    def violate(what, replay, match, key):
        if key in reported:
            return
        reported.add(key)
        ck.violation(what, replay, match=match)

    for var in variants:
        covered.setdefault(var.key, []).append(var.label)
        if var.kind in ('nosolve', 'spectral'):
            continue
        try:
            prob = classes[var.key](**var.params)
        except Exception as e:
            violate('constructing %s raised %s: %s' % (var.id, type(e).__name__, e), {'class': var.key, 'params': repr(var.params)},
                    {'kind': 'construct', 'class': var.key, 'variant': var.label}, ('construct', var.id))
            continue
        for method, part in var.solves:
            if var.kind == 'exempt':
                _exempt_case(ck, var, prob, method, rng, violate)
                continue
            op_static = None
            cls = classes[var.key]
            dyn = var.key in DYNAMIC_OP
            plan = [(j, None) for j in range(ntrials)] + [(k, h) for k in range(nhist) for h in ('fresh-nonzero-t', 'after-other-time')]
            for j, history in plan:
                solver, builder, evaluator, prior, t1 = prob, None, None, None, None
                if history is None:
                    factor = L.pick_factor(var, rng, j)
                    t = rng.uniform(0.0, 1.0)
                else:
                    # the contract must hold regardless of the call history of the instance: solve on a fresh instance
                    # at t != 0 / after a call at another time, and measure the residual with an INDEPENDENT fresh instance
                    factor = L.pick_factor_upper(var, rng)
                    t = rng.uniform(1.0, 3.0)
                    t1 = rng.uniform(0.0, 0.3)
                    try:
                        builder = cls(**var.params)
                        evaluator = None if dyn else cls(**var.params)
                        if history == 'fresh-nonzero-t':
                            solver = cls(**var.params)
                        else:
                            what_prior = rng.choice(('eval_f', 'solve'))

                            def prior(pp, what_prior=what_prior, t1=t1, builder=builder, factor=factor):
                                if what_prior == 'eval_f':
                                    pp.eval_f(L.make_u(pp, (var.state or L.st_uniform())(pp, rng)), t1)
                                else:
                                    r1, u1 = L.build_inputs(var, builder, method, part, rng, factor, t1)
                                    try:
                                        getattr(pp, method)(L.make_u(pp, np.asarray(r1)), factor, L.make_u(pp, np.asarray(u1)), t1)
                                    except Exception:
                                        pass
                    except Exception as e:
                        violate('constructing %s raised %s: %s' % (var.id, type(e).__name__, e), {'class': var.key, 'params': repr(var.params)},
                                {'kind': 'construct', 'class': var.key, 'variant': var.label}, ('construct', var.id))
                        continue
                r = None
                for attempt in range(6):
                    stored0 = _stored_bytes(solver, var) if not dyn else None
                    r = L.run_solve(var, solver, method, part, rng, factor, t, CFG_SLACK, ULP_SLACK, builder=builder, evaluator=evaluator, prior=prior)
                    if r['error'] is None and var.consistent is not None and not var.consistent(solver, r['rhs'], r['u'], t):
                        stats['inconsistent_switch_skipped'] += 1
                        r = None
                        continue
                    break
                if r is None:
                    continue
                stats['solve_cases'] += 1
                factor_hist['0' if factor == 0 else '<1e-3' if factor < 1e-3 else '<1' if factor < 1 else '>=1'] += 1
                cid = '%s|%s|%d' % (var.id, method, j) if history is None else '%s|%s|%s%d' % (var.id, method, history, j)
                if history:
                    stats['history_cases'] = stats.get('history_cases', 0) + 1
                base_replay = {'class': var.key, 'variant': var.label, 'params': repr(var.params), 'method': method, 'part': part,
                               'history': history, 't_previous_call': t1,
                               'factor': factor, 't': t, 'rhs': hexlist(r['rhs']), 'u0': hexlist(r['u0']),
                               'complex': bool(np.iscomplexobj(r['rhs']))}
                match = {'kind': 'solve-residual', 'class': var.key, 'variant': var.label, 'method': method, 'factor_zero': factor == 0.0}
                if var.tag:
                    match['input'] = var.tag
                if history:
                    match['history'] = history
                ck.case(key=cid, nontrivial=factor != 0.0,
                        sample={'class': var.key, 'variant': var.label, 'method': method, 'factor': factor, 't': t, 'n': int(np.asarray(r['rhs']).size)})
                ck.traces += 1
                if r['error'] is not None:
                    stats['solver_exceptions'] += 1
                    violate('%s.%s raised %s for an admissible input (factor=%g)' % (var.id, method, r['error'], factor),
                            dict(base_replay, error=r['error']), dict(match, kind='solve-exception'), ('exc', var.id, method))
                    continue
                if r['mut']:
                    violate('%s.%s / eval_f modified its argument(s) %s' % (var.id, method, r['mut']), dict(base_replay, mutated=r['mut']),
                            {'kind': 'argument-mutated', 'class': var.key, 'method': method, 'args': ','.join(r['mut'])}, ('mut', var.id, method))
                if r['alias']:
                    violate('%s.%s returned an object sharing memory with %s' % (var.id, method, r['alias']), dict(base_replay, alias=r['alias']),
                            {'kind': 'result-aliases-argument', 'class': var.key, 'method': method}, ('alias', var.id, method))
                if not r['type_ok']:
                    violate('%s.%s returned %s instead of a %s of the right shape' % (var.id, method, 'wrong type/shape', prob.dtype_u.__name__),
                            base_replay, {'kind': 'result-type', 'class': var.key, 'method': method}, ('type', var.id, method))
                if stored0 is not None and stored0 != _stored_bytes(solver, var):
                    violate('%s.%s / eval_f changed the stored operator of the problem' % (var.id, method), base_replay,
                            {'kind': 'stored-state-mutated', 'class': var.key, 'method': method}, ('stored', var.id, method))
                rr = r['res'] / r['tol'] if r['tol'] > 0 else float('inf')
                if np.isfinite(rr) and r['ok'] and rr > stats['worst_res_over_tol']:
                    stats['worst_res_over_tol'] = rr
                    stats['worst_res_over_tol_case'] = '%s factor=%g res=%.3e cfg=%.3e floor=%.3e' % (cid, factor, r['res'], r['cfg'], r['floor'])
                if r['ok'] and r['cfg'] == 0.0 and r['floor'] > 0 and np.isfinite(r['res']):
                    stats['worst_res_over_floor_direct'] = max(stats['worst_res_over_floor_direct'], r['res'] / r['floor'])
                replay = dict(base_replay, u=hexlist(r['u']), residual_maxnorm=r['res'], tolerance=r['tol'], rounding_floor=r['floor'],
                              configured_tol=r['cfg'])
                what = ('%s.%s%s: |u - factor*f_%s(u) - rhs|_inf = %.3e exceeds %.3e (= %g*configured %.1e + %g*rounding floor %.1e) at factor=%g'
                        % (var.id, method, ' [call history: %s, residual measured with an independent fresh instance]' % history if history else '',
                           part, r['res'], r['tol'], CFG_SLACK, r['cfg'], ULP_SLACK, r['floor'], factor))
                if not r['finite']:
                    what = '%s.%s returned non-finite values at factor=%g' % (var.id, method, factor)
                if not r['ok']:
                    violate(what, replay, match, ('res', var.key, method, factor == 0.0, var.tag, history))
                # ---------------- Coq certificates
                n_real = int(np.asarray(r['u']).size) * (2 if np.iscomplexobj(r['u']) else 1)
                if not r['finite'] or n_real > MAX_COQ_DIM:
                    continue
                meta = {'id': cid, 'var': var, 'method': method, 'replay': replay, 'match': match, 'oracle_ok': r['ok'], 'what': what, 'n': n_real}
                if var.kind == 'linear':
                    op_static = _linear_case(col, meta, var, evaluator if evaluator is not None else solver, method, part, r, t, op_static)
                else:
                    _resid_case(col, meta, r)

    # ------------------------------------------------------------------ default solver configuration is meaningful
    ncfg = 0
    odd_cfg = {}
    for key in sorted(classes):
        try:
            p0 = classes[key]()
        except Exception:
            continue
        d = vars(p0)
        nt, nm = d.get('newton_tol', getattr(p0, 'newton_tol', None) if 'newton_tol' in getattr(p0, 'params', {}) else None), None
        pr = getattr(p0, 'params', {})
        nt = pr.get('newton_tol')
        nm = pr.get('newton_maxiter')
        if nt is None and nm is None:
            continue
        ncfg += 1
        ck.case(key='default-config|' + key, nontrivial=True)
        if (nt is not None and not (0 < nt <= 1e-4)) or (nm is not None and not (nm >= 2 and float(nm).is_integer())):
            # observation only: the property speaks about the tolerance the problem is CONFIGURED with, so an odd
            # default configuration (e.g. tolerance / iteration count swapped) is recorded, not reported as a violation
            odd_cfg[key] = {'newton_tol': nt, 'newton_maxiter': nm}
    ck.cov['default_newton_configs_odd'] = odd_cfg
    ck.cov['default_newton_configs_checked'] = ncfg

    # ------------------------------------------------------------------ other clauses
    _spectral_cases(ck, col, classes, variants, rng, max(ntrials, 3), violate, stats)
    _split_siblings(ck, col, classes, rng, thorough, violate)
    _exact_solutions(ck, classes, rng, thorough, violate)
    _particles(ck, classes, variants, rng, violate)

    ck.cov['classes_covered'] = {k: v for k, v in sorted(covered.items())}
    ck.cov['classes_covered_count'] = len(covered)
    ck.cov['programs'] = len(covered)                      # problem classes whose solver outputs were validated this run
    ck.cov['time_python_phase_s'] = round(time.time() - t_start, 1)

    # ------------------------------------------------------------------ kernel evaluation
    results = col.run()
    nfalse = 0
    agree = 0
    worst_by = {}
    worst_coq = 0.0
    bound_ratio = 0.0
    by_kind = {}
    for c_ in col.cases:
        meta = c_[0]
        v = results.get(meta['id'])
        if v is None:
            continue
        flags, nums = v
        names = meta['flags']
        by_kind[meta['ckind']] = by_kind.get(meta['ckind'], 0) + 1
        bad = [n for n, f in zip(names, flags) if not f]
        if len(nums) >= 2:
            w, tl = dy_val(nums[0]), dy_val(nums[1])
            if tl > 0 and not bad:
                worst_coq = max(worst_coq, w / tl) if meta['ckind'] in ('solve', 'resid', 'lin') else worst_coq
                kk = meta['ckind'] + ('/direct' if meta['ckind'] == 'solve' and not meta['var'].lin else '')
                worst_by[kk] = max(worst_by.get(kk, 0.0), w / tl)
        if len(nums) >= 5 and not bad:
            # uniqueness: |u - v| (1 - delta) <= beta * 2 tol
            dist, delta, beta, tl = dy_val(nums[2]), dy_val(nums[3]), dy_val(nums[4]), dy_val(nums[1])
            bnd = beta * 2 * tl / (1 - delta)
            if bnd > 0:
                bound_ratio = max(bound_ratio, dist / bnd)
            if dist > bnd:
                bad.append('pinned-by-uniqueness')
        ck.evaluations += 1
        if bad:
            nfalse += 1
            key = ('coq', meta['ckind'], meta.get('group', meta['id'].split('|')[0]), tuple(bad), meta['match'].get('factor_zero'), meta['match'].get('history'))
            if key in reported:
                continue
            reported.add(key)
            if meta.get('oracle_ok', True):
                ck.violation('certificate rejected by the verified checker (%s) although the float oracle accepted: %s' % (bad, meta['id']),
                             dict(meta['replay'], rejected=bad), match=dict(meta['match'], certificate=','.join(bad)))
            else:
                agree += 1     # the implementation-side oracle already reported this input
    ck.obligation('kernel-evaluated certificates accepted (%d cases: %s)' % (len(col.cases), by_kind), nfalse == 0,
                  '%d rejected' % nfalse)
    ck.cov['certificates_by_kind'] = by_kind
    ck.cov['certificates_rejected_where_oracle_also_failed'] = agree
    ck.cov['coq_worst_residual_over_cert_tol'] = worst_coq
    ck.cov['coq_worst_residual_over_cert_tol_by_kind'] = worst_by
    ck.cov['uniqueness_worst_dist_over_bound'] = bound_ratio
    ck.cov['tolerances'] = {'coq_rtol': 2.0 ** RTOL_EXP, 'cfg_slack': CFG_SLACK, 'ulp_slack': ULP_SLACK, 'split_rtol': SPLIT_RTOL, 'exact_rtol': EXACT_RTOL}
    ck.cov['solve_stats'] = stats
    ck.cov['factor_histogram'] = factor_hist
    ck.cov['by_design_exempt'] = {v.id: 'solve_system documented to return u_exact(t)' for v in L.REG if v.kind == 'exempt'}
    ck.cov['registry_notes'] = {v.id: v.note for v in L.REG if v.note}


# ------------------------------------------------------------------------------------------------- helpers

def _stored_bytes(prob, var):
    out = []
    d = vars(prob)
    for name in ('A', 'M', 'L', 'Dx', 'lap', 'ddx', 'lambdas', 'lambdas_implicit', 'lambda_f', 'D_upwind', 'Id'):
        a = d.get(name)
        if a is None:
            continue
        if sp.issparse(a):
            a = sp.csr_matrix(a)
            out.append((name, a.data.tobytes(), a.indices.tobytes(), a.indptr.tobytes()))
        elif isinstance(a, np.ndarray):
            out.append((name, a.tobytes()))
    return out


def _exempt_case(ck, var, prob, method, rng, violate):
    for j in range(2):
        t = rng.uniform(0.0, 2.0)
        factor = L.pick_factor(var, rng, j)
        rhs = L.make_u(prob, (var.state or L.st_uniform())(prob, rng))
        u0 = L.make_u(prob, (var.state or L.st_uniform())(prob, rng))
        s1, s2 = L.snapshot(rhs), L.snapshot(u0)
        u = getattr(prob, method)(rhs, factor, u0, t)
        ck.case(key='%s|%s|exempt%d' % (var.id, method, j), nontrivial=False)
        if L.snapshot(rhs) != s1 or L.snapshot(u0) != s2:
            violate('%s.%s modified its arguments' % (var.id, method), {'class': var.key, 'factor': factor, 't': t},
                    {'kind': 'argument-mutated', 'class': var.key, 'method': method}, ('mut', var.id, method))
        ue = prob.u_exact(t)
        if not np.array_equal(np.asarray(u), np.asarray(ue)):
            violate('%s.%s is documented to return u_exact(t) but does not' % (var.id, method), {'class': var.key, 'factor': factor, 't': t},
                    {'kind': 'exempt-behaviour', 'class': var.key}, ('exempt', var.id))


def _operator(var, prob, method, part, t):
    """(real-embedded csr operator, affine offset b (real-embedded) or None)."""
    z = prob.dtype_u(prob.init)
    cplx = np.iscomplexobj(z)
    if var.op in ('probe', 'affine-probe'):
        A, b = probe_operator(prob, part, t, var.op == 'affine-probe')
        return L.real_embed_mat(sp.csr_matrix(A), cplx), (b if var.op == 'affine-probe' else None)
    A = var.op(prob, method)
    if not sp.issparse(A):
        A = sp.csr_matrix(np.asarray(A))
    return L.real_embed_mat(A, cplx), None


def _flat(var, x):
    x = np.asarray(x)
    if var.post is not None:
        x = var.post(x)
    return L.real_embed_vec(x)


def _linear_case(col, meta, var, prob, method, part, r, t, op_static):
    dynamic = var.key in DYNAMIC_OP or var.op == 'affine-probe'
    if op_static is None or dynamic:
        A, b = _operator(var, prob, method, part, t)
        op_static = (A, b)
    A, b = op_static
    n = A.shape[0]
    u, rhs, f = _flat(var, r['u']), _flat(var, r['rhs']), _flat(var, r['f'])
    factor = r['factor']
    if b is not None:
        # affine implicit part f = A u + b: move b to the right-hand side exactly
        rhs_l = coq_list([frac_dy_lit(F(float(x)) + F(factor) * F(float(bb))) for x, bb in zip(rhs, b)])
        f_l = coq_list([frac_dy_lit(F(float(x)) - F(float(bb))) for x, bb in zip(f, b)])
    else:
        rhs_l, f_l = vec_lit(rhs), vec_lit(f)
    rows = L.rows_of(A)
    atol = CFG_SLACK * r['cfg']
    rt = '(Dy 1 (%d))' % RTOL_EXP
    shared = None
    if dynamic:
        a_def = ['Definition A_@K : smat := %s.' % rows_lit(rows)]
    else:
        a_def = ['Definition A_@K : smat := A_@S.']
        shared = ('%s|%s' % (var.id, method), 'Definition A_@S : smat := %s.' % rows_lit(rows))
    defs = a_def + [
            'Definition u_@K : vec := %s.' % vec_lit(u),
            'Definition rhs_@K : vec := %s.' % rhs_l,
            'Definition f_@K : vec := %s.' % f_l,
            'Definition m_@K := repeat true (Z.to_nat %d).' % n]
    fac, at = dy_lit(factor), dy_lit(atol)
    flags = ['solve-cert', 'apply-cert', 'cols']
    bools = ['check_solve_cert A_@K %s rhs_@K u_@K m_@K %s %s' % (fac, at, rt),
             'check_apply_cert A_@K u_@K f_@K d0 %s' % rt,
             'cols_below (Z.to_nat %d) A_@K' % n]
    nums = ['out (solve_cert_worst A_@K %s rhs_@K u_@K m_@K)' % fac, 'out (cert_tol A_@K %s rhs_@K u_@K %s %s)' % (fac, at, rt)]
    if var.small and n <= 40 and b is None and meta['id'].endswith('|1'):
        # inverse certificate + an independently computed solution v of the same system
        G = np.eye(n) - factor * A.toarray()
        try:
            B = np.linalg.inv(G)
            v = np.linalg.solve(G, rhs)
        except np.linalg.LinAlgError:
            B = None
        if B is not None and np.all(np.isfinite(B)) and np.all(np.isfinite(v)):
            GF = [[(F(1) if i == k else F(0)) - F(factor) * F(float(A[i, k])) for k in range(n)] for i in range(n)]
            delta = F(0)
            beta = F(0)
            for i in range(n):
                bi = [F(float(x)) for x in B[i]]
                row = [sum(bi[j] * GF[j][k] for j in range(n) if bi[j] != 0) for k in range(n)]
                delta = max(delta, sum(abs(row[k] - (1 if k == i else 0)) for k in range(n)))
                beta = max(beta, sum(abs(x) for x in bi))
            dl, bt = up(float(delta) * (1 + 2.0 ** -30) + 1e-300), up(float(beta) * (1 + 2.0 ** -30))
            if dl < 0.5:
                defs += ['Definition B_@K : dmat := %s.' % dense_lit(B), 'Definition v_@K : vec := %s.' % vec_lit(v)]
                flags += ['inverse-cert', 'solve-cert(independent v)']
                bools += ['check_inverse_cert (densify %s A_@K) B_@K %s %s' % (fac, dy_lit(dl), dy_lit(bt)),
                          'check_solve_cert A_@K %s rhs_@K v_@K m_@K %s %s' % (fac, at, rt)]
                nums += ['out (vdist u_@K v_@K)', 'out %s' % dy_lit(dl), 'out %s' % dy_lit(bt)]
    meta = dict(meta, flags=flags, ckind='solve')
    col.add(meta, defs, '(%s, %s)' % (coq_list(bools), coq_list(nums)), shared=shared)
    return op_static


def _resid_case(col, meta, r):
    u, rhs, f = L.real_embed_vec(r['u']), L.real_embed_vec(r['rhs']), L.real_embed_vec(r['f'])
    n = len(u)
    fac, tl = dy_lit(r['factor']), dy_lit(r['tol'])
    defs = ['Definition u_@K : vec := %s.' % vec_lit(u), 'Definition rhs_@K : vec := %s.' % vec_lit(rhs),
            'Definition f_@K : vec := %s.' % vec_lit(f), 'Definition m_@K := repeat true (Z.to_nat %d).' % n]
    bools = ['check_resid_cert %s rhs_@K u_@K f_@K m_@K %s' % (fac, tl)]
    nums = ['out (resid_cert_worst %s rhs_@K u_@K f_@K m_@K)' % fac, 'out %s' % tl]
    col.add(dict(meta, flags=['resid-cert'], ckind='resid'), defs, '(%s, %s)' % (coq_list(bools), coq_list(nums)))


# ------------------------------------------------------------------------------------------------- spectral family

def _spectral_cases(ck, col, classes, variants, rng, ntrials, violate, stats):
    nsp = 0
    for var in variants:
        if var.kind != 'spectral':
            continue
        try:
            prob = classes[var.key](**var.params)
        except Exception as e:
            violate('constructing %s raised %s: %s' % (var.id, type(e).__name__, e), {'class': var.key, 'params': repr(var.params)},
                    {'kind': 'construct', 'class': var.key, 'variant': var.label}, ('construct', var.id))
            continue
        part = var.solves[0][1]
        S = prob.spectral
        for j in range(ntrials):
            factor = min(L.pick_factor(var, rng, j), 10.0)
            t = rng.uniform(0, 1)
            shape = np.asarray(prob.u_init).shape
            if prob.spectral_space:
                # admissible right-hand sides: transforms of random physical fields
                phys = S.u_init
                phys[...] = np.array([rng.uniform(-1, 1) for _ in range(int(np.prod(phys.shape)))]).reshape(phys.shape)
                rhs = prob.u_init
                rhs[...] = S.transform(phys)
            else:
                rhs = prob.u_init
                rhs[...] = np.array([rng.uniform(-1, 1) for _ in range(int(np.prod(shape)))]).reshape(shape)
            u0 = prob.u_init
            u0[...] = np.asarray(rhs)
            s1, s2 = L.snapshot(rhs), L.snapshot(u0)
            cid = '%s|solve_system|%d' % (var.id, j)
            replay = {'class': var.key, 'variant': var.label, 'params': repr(var.params), 'factor': factor, 't': t, 'rhs': hexlist(rhs)}
            match = {'kind': 'solve-residual', 'class': var.key, 'variant': var.label, 'method': 'solve_system', 'factor_zero': factor == 0.0}
            if var.tag:
                match['input'] = var.tag
            try:
                u = prob.solve_system(rhs, factor, u0, t)
            except Exception as e:
                violate('%s.solve_system raised %s: %s (factor=%g)' % (var.id, type(e).__name__, e, factor), replay,
                        dict(match, kind='solve-exception'), ('exc', var.id))
                continue
            ck.case(key=cid, nontrivial=factor != 0.0)
            ck.traces += 1
            nsp += 1
            mut = [n for n, a, b in (('rhs', s1, L.snapshot(rhs)), ('u0', s2, L.snapshot(u0))) if a != b]
            if mut:
                violate('%s.solve_system modified its argument(s) %s' % (var.id, mut), dict(replay, mutated=mut),
                        {'kind': 'argument-mutated', 'class': var.key, 'method': 'solve_system', 'args': ','.join(mut)}, ('mut', var.id))
            # the system the class assembles:  BC(M + dt L) u_hat = BC_rhs(M rhs_hat)
            rhs_hat = np.array(rhs) if prob.spectral_space else np.array(S.transform(rhs))
            u_hat = np.array(u) if prob.spectral_space else np.array(S.transform(u))
            if not np.all(np.isfinite(u_hat)):
                violate('%s.solve_system returned non-finite values (factor=%g)' % (var.id, factor), replay, match, ('res', var.id, factor == 0.0))
                continue
            Gm = S.put_BCs_in_matrix(prob.M + factor * prob.L)
            bvec = S.put_BCs_in_rhs_hat((prob.M @ rhs_hat.flatten()).reshape(rhs_hat.shape).copy()).flatten()
            x = u_hat.flatten()
            resid = Gm @ x - bvec
            scale = float(np.max(np.abs(sp.csr_matrix(Gm)).dot(np.abs(x)) + np.abs(bvec))) if x.size else 0.0
            cfg = 0.0
            if var.lin:
                cfg = var.lin['rtol'] * float(np.linalg.norm(bvec)) * 10.0
            tol = CFG_SLACK * cfg + 2.0 ** -36 * scale + 1e-300
            res = float(np.max(np.abs(resid))) if np.all(np.isfinite(resid)) else float('inf')
            if res <= tol:
                stats['worst_res_over_tol'] = max(stats['worst_res_over_tol'], res / tol)
            what = '%s.solve_system: residual %.3e of the assembled system BC(M + factor L) u = BC(M rhs) exceeds %.3e (factor=%g)' % (var.id, res, tol, factor)
            ok = res <= tol
            if not ok:
                violate(what, dict(replay, residual=res, tolerance=tol), match, ('res', var.key, factor == 0.0, var.tag))
            # eval_f consistency:  M f_hat = -(L u_hat) on the rows of differentiated components
            s3 = L.snapshot(u)
            fobj = prob.eval_f(u, t)
            if L.snapshot(u) != s3:
                violate('%s.eval_f modified its argument' % var.id, replay, {'kind': 'argument-mutated', 'class': var.key, 'method': 'eval_f', 'args': 'u'},
                        ('mut-f', var.id))
            fpart = np.array(L.part_of(fobj, part))
            f_hat = fpart if prob.spectral_space else np.array(S.transform(L.make_u(prob, fpart)))
            lhs = prob.M @ f_hat.flatten() + prob.L @ x
            N = int(np.prod(f_hat.shape[1:]))
            rowmask = np.repeat(np.array(prob.diff_mask, dtype=bool), N)
            fscale = float(np.max(np.abs(sp.csr_matrix(prob.L)).dot(np.abs(x)) + np.abs(sp.csr_matrix(prob.M)).dot(np.abs(f_hat.flatten())))) + 1e-300
            fres = float(np.max(np.abs(lhs[rowmask]))) if rowmask.any() else 0.0
            if not fres <= 2.0 ** -30 * fscale:
                violate('%s.eval_f is not -M^-1 L on the differential rows: defect %.3e (scale %.3e)' % (var.id, fres, fscale),
                        dict(replay, defect=fres), {'kind': 'evalf-operator', 'class': var.key, 'variant': var.label}, ('evalf', var.id))
            # Coq: general linear certificate on the real embedding
            nreal = 2 * x.size
            if nreal <= MAX_COQ_DIM:
                Gr = L.real_embed_mat(sp.csr_matrix(Gm).astype(complex), True)
                defs = ['Definition G_@K : smat := %s.' % rows_lit(L.rows_of(Gr)),
                        'Definition x_@K : vec := %s.' % vec_lit(L.real_embed_vec(x.astype(complex))),
                        'Definition b_@K : vec := %s.' % vec_lit(L.real_embed_vec(bvec.astype(complex)))]
                at = dy_lit(CFG_SLACK * cfg)
                rt = '(Dy 1 (-36))'
                bools = ['check_lin_cert G_@K b_@K x_@K %s %s' % (at, rt)]
                nums = ['out (lin_cert_worst G_@K b_@K x_@K)', 'out (lin_tol G_@K b_@K x_@K %s %s)' % (at, rt)]
                col.add({'id': cid, 'flags': ['lin-cert'], 'ckind': 'lin', 'replay': replay, 'match': match, 'oracle_ok': ok, 'what': what},
                        defs, '(%s, %s)' % (coq_list(bools), coq_list(nums)))
    ck.cov['spectral_cases'] = nsp


# ------------------------------------------------------------------------------------------------- split siblings

def _full_rhs(prob, parts, u, t):
    f = prob.eval_f(u, t)
    return [np.array(L.part_of(f, p)) for p in parts]


def _split_siblings(ck, col, classes, rng, thorough, violate):
    ngroups = 0
    nonlit = {}
    for g in L.SIBLINGS:
        name, members, state = g['name'], g['members'], g['state']
        if any(k not in classes for k, _, _ in members):
            continue
        ngroups += 1
        literals = L.source_literals([classes[k] for k, _, _ in members])
        for j in range(6 if thorough else 2):
            # even trials: every scalar parameter differs from all numeric literals of the classes' source (where the grid
            # offers such a value); odd trials: any grid point, defaults included
            drawn, forced = L.draw_params(g['grid'], rng, literals if j % 2 == 0 else None)
            if j % 2 == 0:
                nonlit[name] = forced
            pdesc = {k: repr(v) for k, v in sorted(drawn.items())}
            try:
                probs = [(k, classes[k](**mapper(drawn)), parts) for k, mapper, parts in members]
            except Exception as e:
                violate('constructing split sibling group %s with %s raised %s: %s' % (name, pdesc, type(e).__name__, e), {'group': name, 'params': pdesc},
                        {'kind': 'construct', 'group': name}, ('construct-sib', name))
                continue
            t = rng.uniform(0.0, 1.0)
            ref_prob = probs[0][1]
            vals = np.asarray(state(ref_prob, rng))
            sums = []
            for k, prob, parts in probs:
                u = L.make_u(prob, vals.reshape(np.asarray(prob.dtype_u(prob.init)).shape))
                if name.startswith('battery'):
                    # the circuit classes select the active branch in solve_system: put all members into the same state
                    prob.solve_system(L.make_u(prob, np.asarray(u)), 0.0, u, t)
                s = L.snapshot(u)
                pieces = _full_rhs(prob, parts, u, t)
                if L.snapshot(u) != s:
                    violate('%s.eval_f modified its argument' % k, {'class': k, 't': t, 'u': hexlist(vals)},
                            {'kind': 'argument-mutated', 'class': k, 'method': 'eval_f', 'args': 'u'}, ('mut-f', k))
                sums.append((k, parts, pieces))
            ref_k, ref_parts, ref_pieces = sums[0]
            ref_full = sum(ref_pieces)
            for k, parts, pieces in sums[1:]:
                tot = sum(pieces)
                mag = float(max(np.max(np.abs(ref_full)), max(np.max(np.abs(p)) for p in pieces), 1e-300))
                tol = SPLIT_RTOL * mag * 16
                d = float(np.max(np.abs(tot.ravel() - ref_full.ravel())))
                cid = 'split|%s|%s|%d' % (name, k, j)
                ck.case(key=cid, nontrivial=True)
                replay = {'group': name, 'reference': ref_k, 'class': k, 'parts': parts, 'parameters': pdesc, 't': t, 'u': hexlist(vals),
                          'difference': d, 'tolerance': tol, 'magnitude': mag}
                match = {'kind': 'split-sum', 'group': name, 'class': k}
                what = ('split sibling %s: sum of %s differs from %s of %s by %.3e (> %.3e, |f| ~ %.2e) for parameters %s'
                        % (k, parts, ref_parts, ref_k, d, tol, mag, pdesc))
                ok = d <= tol
                if not ok:
                    violate(what, replay, match, ('split', name, k))
                if len(pieces) <= 2 and len(ref_pieces) == 1:
                    f1 = L.real_embed_vec(pieces[0])
                    f2 = L.real_embed_vec(pieces[1]) if len(pieces) == 2 else np.zeros_like(f1)
                    ff = L.real_embed_vec(ref_full)
                    defs = ['Definition f1_@K : vec := %s.' % vec_lit(f1), 'Definition f2_@K : vec := %s.' % vec_lit(f2),
                            'Definition ff_@K : vec := %s.' % vec_lit(ff)]
                    tl = dy_lit(tol)
                    col.add({'id': cid, 'flags': ['split-cert'], 'ckind': 'split', 'replay': replay, 'match': match, 'oracle_ok': ok, 'what': what,
                             'group': cid},
                            defs, '([check_split_cert f1_@K f2_@K ff_@K %s], [out (split_cert_worst f1_@K f2_@K ff_@K); out %s])' % (tl, tl))
    ck.cov['split_groups'] = ngroups
    ck.cov['split_params_forced_off_source_literals'] = nonlit


# ------------------------------------------------------------------------------------------------- closed-form solutions

D6 = [(-3, -1.0 / 60), (-2, 3.0 / 20), (-1, -3.0 / 4), (1, 3.0 / 4), (2, -3.0 / 20), (3, 1.0 / 60)]


def _exact_solutions(ck, classes, rng, thorough, violate):
    """u_exact(t0) equals the configured initial condition; d/dt u_exact(t) (6th-order central difference,
    step 2^-k * time scale) equals the full right-hand side along u_exact (oracle)."""
    E = []

    def ent(key, params, stiff=1.0, init=None, tmax=1.0, parts=('full',), label='', avoid=None, order2=False):
        E.append(dict(key=key, params=params, stiff=stiff, init=init, tmax=tmax, parts=parts, label=label, avoid=avoid, order2=order2))

    lam = np.array([-1.0 + 2j, -30.0, 0.5j, -3.0 - 40j])
    ent('TestEquation_0D.testequation0d', dict(lambdas=lam, u0=0.75), stiff=50.0, init=lambda p: np.full(4, 0.75 + 0j))
    ent('TestEquation_0D.test_equation_IMEX', dict(lambdas_implicit=lam, lambdas_explicit=lam[::-1].copy(), u0=1.5), stiff=100.0,
        init=lambda p: np.full(4, 1.5 + 0j), parts=('impl', 'expl'))
    ent('FastWaveSlowWave_0D.swfw_scalar', dict(lambda_s=np.array([-1.0 + 0.5j, 0.3j]), lambda_f=np.array([-20j, -10.0 + 2j]), u0=0.8), stiff=25.0,
        init=lambda p: np.full((2, 2), 0.8 + 0j), parts=('impl', 'expl'))
    ent('LogisticEquation.logistics_equation', dict(u0=0.3, lam=2.0), stiff=2.0, init=lambda p: np.array([0.3]))
    ent('LogisticEquation.logistics_equation', dict(u0=0.5, lam=1.0, direct=False), stiff=1.0, init=lambda p: np.array([0.5]), label='newton')
    for nl in (False, True):
        ent('odeScalar.ProtheroRobinson', dict(epsilon=1e-3, nonLinear=nl), stiff=1.0, init=lambda p: np.array([1.0]), label='nl=%s' % nl, tmax=2.0)
        ent('odeSystem.ProtheroRobinsonAutonomous', dict(epsilon=1e-2, nonLinear=nl), stiff=1.0, init=lambda p: np.array([1.0, 0.0]), label='nl=%s' % nl, tmax=2.0)
    ent('odeSystem.Kaps', dict(epsilon=1e-3), stiff=2000.0, init=lambda p: np.array([1.0, 1.0]))
    ent('odeSystem.Kaps', dict(epsilon=1.0), stiff=4.0, init=lambda p: np.array([1.0, 1.0]), label='eps1')
    ent('nonlinear_ODE_1.nonlinear_ODE_1', dict(u0=0.0), stiff=1.0, init=lambda p: np.array([p.u0]), tmax=1.5)
    ent('Auzinger_implicit.auzinger', dict(), stiff=4.0, init=lambda p: np.array([1.0, 0.0]), tmax=3.0)
    ent('polynomial_test_problem.polynomial_testequation', dict(degree=5, seed=3), stiff=8.0, tmax=2.0)
    ent('polynomial_test_problem.polynomial_testequation_IMEX', dict(degree=4, seed=4), stiff=8.0, parts=('impl', 'expl'), tmax=2.0)
    ent('DiscontinuousTestODE.DiscontinuousTestODE', dict(), stiff=2.0, init=lambda p: np.array([1.0]), tmax=3.0, avoid=math.log(5))
    ent('DiscontinuousTestODE.ExactDiscontinuousTestODE', dict(), stiff=2.0, init=lambda p: np.array([1.0]), tmax=3.0, avoid=math.log(5))
    # semi-discrete exact solutions (2nd-order centred Laplacian: discrete eigenfunctions; Fourier collocation: resolved modes)
    for nv, fr, bc in [(16, 2, 'periodic'), (15, 1, 'dirichlet-zero'), ((8, 8), (2, 4), 'periodic'), ((7, 7), (1, 2), 'dirichlet-zero'),
                       ((4, 4, 4), (2, 2, 2), 'periodic'), ((3, 3, 3), (1, 1, 2), 'dirichlet-zero')]:
        n1 = nv if isinstance(nv, int) else nv[0]
        ent('HeatEquation_ND_FD.heatNd_unforced', dict(nvars=nv, nu=0.1, freq=fr, bc=bc, order=2), stiff=0.1 * 4 * (n1 + 1) ** 2 * (1 if isinstance(nv, int) else len(nv)),
            label='%s,%s,%s' % (nv, fr, bc), tmax=0.5)
    ent('AdvectionDiffusionEquation_1D_FFT.advectiondiffusion1d_imex', dict(nvars=16, c=0.7, freq=2, nu=0.05), stiff=30.0, parts=('impl', 'expl'))
    ent('AdvectionDiffusionEquation_1D_FFT.advectiondiffusion1d_implicit', dict(nvars=16, c=-0.4, freq=3, nu=0.02), stiff=30.0)
    # initial condition only (u_exact numerical for t > 0)
    ent('Van_der_Pol_implicit.vanderpol', dict(u0=[1.5, -0.5], mu=2.0), init=lambda p: np.array([1.5, -0.5]), tmax=0.0)
    ent('Lorenz.LorenzAttractor', dict(u0=(1.0, 2.0, 3.0)), init=lambda p: np.array([1.0, 2.0, 3.0]), tmax=0.0)
    ent('odeSystem.ChemicalReaction3Var', dict(), init=lambda p: np.array(p.u0), tmax=0.0)
    ent('odeSystem.JacobiElliptic', dict(), init=lambda p: np.array(p.u0), tmax=0.0)
    ent('Piline.piline', dict(), init=lambda p: np.zeros(3), tmax=0.0)
    ent('BuckConverter.buck_converter', dict(), init=lambda p: np.zeros(3), tmax=0.0)
    ent('Battery.battery', dict(alpha=1.3, V_ref=np.array([0.9])), init=lambda p: np.array([0.0, 1.3 * 0.9]), tmax=0.0)
    ent('Battery.battery_n_capacitors', dict(ncapacitors=2, alpha=1.1), init=lambda p: np.array([0.0, 1.1, 1.1]), tmax=0.0)

    worst = 0.0
    nchk = 0
    for e in E:
        if e['key'] not in classes:
            continue
        eid = '%s[%s]' % (e['key'], e['label'] or 'exact')
        try:
            prob = classes[e['key']](**e['params'])
            if e['init'] is not None:
                u0 = np.asarray(prob.u_exact(0.0))
                want = np.asarray(e['init'](prob)).reshape(u0.shape)
                ck.case(key='init|' + eid, nontrivial=True)
                if not np.allclose(u0, want, rtol=4 * L.ULP, atol=0):
                    violate('%s: u_exact(0) = %s differs from the configured initial condition %s' % (eid, u0.ravel()[:4], want.ravel()[:4]),
                            {'class': e['key'], 'params': repr(e['params'])}, {'kind': 'initial-condition', 'class': e['key']}, ('init', eid))
            if e['tmax'] <= 0:
                continue
            for j in range(4 if thorough else 2):
                h = 2.0 ** -7 / e['stiff']
                h = 2.0 ** math.floor(math.log2(h))
                if e['avoid'] is not None:
                    # a switching time: sample both sides alternately, away from the switch
                    lo, hi = (4 * h, e['avoid'] - 16 * h) if j % 2 == 0 else (e['avoid'] + 16 * h, e['tmax'])
                    t = round(rng.uniform(lo, hi) / h) * h
                else:
                    t = round(rng.uniform(4 * h, e['tmax']) / h) * h
                ue = prob.u_exact(t)
                f = prob.eval_f(ue, t)
                F_ = sum(np.array(L.part_of(f, p)) for p in e['parts'])
                d = sum(c * np.array(prob.u_exact(t + k * h)) for k, c in D6) / h
                mag = float(np.max(np.abs(np.asarray(ue)))) * e['stiff'] + float(np.max(np.abs(F_))) + 1e-300
                err = float(np.max(np.abs(d - F_)))
                if err <= EXACT_RTOL * mag:
                    worst = max(worst, err / mag)
                nchk += 1
                ck.case(key='exact|%s|%d' % (eid, j), nontrivial=True)
                if not err <= EXACT_RTOL * mag:
                    violate('%s: d/dt u_exact(t) differs from eval_f(u_exact(t), t) by %.3e at t=%g (scale %.3e)' % (eid, err, t, mag),
                            {'class': e['key'], 'params': repr(e['params']), 't': t, 'h': h, 'defect': err, 'scale': mag},
                            {'kind': 'exact-solution-derivative', 'class': e['key'], 'variant': e['label'], 'ndim': int(np.asarray(ue).ndim)},
                            ('exact', e['key'], int(np.asarray(ue).ndim)))
        except Exception as ex:
            violate('%s: closed-form solution check raised %s: %s' % (eid, type(ex).__name__, ex), {'class': e['key'], 'params': repr(e['params'])},
                    {'kind': 'exact-solution-exception', 'class': e['key'], 'variant': e['label']}, ('exact-exc', eid))
    ck.cov['exact_solution_checks'] = nchk
    ck.cov['exact_solution_worst_relative_defect'] = worst


# ------------------------------------------------------------------------------------------------- particle classes

def _particles(ck, classes, variants, rng, violate):
    import contextlib
    import io
    n = 0
    worst = 0.0
    for var in variants:
        if var.kind != 'nosolve':
            continue
        vid = var.id
        try:
            prob = classes[var.key](**var.params)
            with contextlib.redirect_stdout(io.StringIO()):
                try:
                    u = prob.u_exact(0.0)
                except Exception:       # penningtrap: closed form only for one particle
                    u = prob.u_init()
            # random admissible state near the initial condition
            for j in range(2):
                v = type(u)(u)
                v.pos[...] = np.asarray(u.pos) * (1 + 0.1 * rng.uniform(-1, 1)) + 0.01 * rng.uniform(-1, 1)
                v.vel[...] = np.asarray(u.vel) * (1 + 0.1 * rng.uniform(-1, 1))
                s = L.snapshot(v)
                f = prob.eval_f(v, 0.3 * j)
                n += 1
                ck.case(key='particles|%s|%d' % (vid, j), nontrivial=True)
                if L.snapshot(v) != s:
                    violate('%s.eval_f modified its argument' % vid, {'class': var.key}, {'kind': 'argument-mutated', 'class': var.key, 'method': 'eval_f', 'args': 'u'},
                            ('mut-f', vid))
                if not isinstance(f, prob.dtype_f):
                    violate('%s.eval_f returned %s, not %s' % (vid, type(f).__name__, prob.dtype_f.__name__), {'class': var.key},
                            {'kind': 'result-type', 'class': var.key, 'method': 'eval_f'}, ('type-f', vid))
            # closed-form trajectories: harmonic oscillator, single particle in the Penning trap
            name = var.key.split('.')[-1]
            if name == 'harmonic_oscillator' or (name == 'penningtrap' and prob.nparts == 1):
                want = np.asarray(var.params['u0'][:2] if name == 'harmonic_oscillator' else None)
                if name == 'harmonic_oscillator':
                    got = np.array([float(u.pos[0]), float(u.vel[0])])
                    if not np.allclose(got, np.asarray(var.params['u0'], dtype=float), rtol=8 * L.ULP, atol=1e-15):
                        violate('%s: u_exact(0) = %s differs from u0 = %s' % (vid, got, var.params['u0']), {'class': var.key, 'params': repr(var.params)},
                                {'kind': 'initial-condition', 'class': var.key}, ('init', vid))
                else:
                    u0 = var.params['u0']
                    got = np.concatenate((np.asarray(u.pos).ravel(), np.asarray(u.vel).ravel()))
                    wantv = np.array(list(u0[0]) + list(u0[1]), dtype=float)
                    if not np.allclose(got, wantv, rtol=1e-13, atol=1e-12):
                        violate('%s: u_exact(0) = %s differs from u0 = %s' % (vid, got, wantv), {'class': var.key}, {'kind': 'initial-condition', 'class': var.key},
                                ('init', vid))
                stiff = 4.0 if name == 'harmonic_oscillator' else 40.0
                h = 2.0 ** math.floor(math.log2(2.0 ** -7 / stiff))
                for j in range(2):
                    t = round(rng.uniform(4 * h, 1.0) / h) * h
                    with contextlib.redirect_stdout(io.StringIO()):
                        ue = prob.u_exact(t)
                        ex = [(c, prob.u_exact(t + k * h)) for k, c in D6]
                    dpos = sum(c * np.array(x.pos) for c, x in ex) / h
                    dvel = sum(c * np.array(x.vel) for c, x in ex) / h
                    f = prob.eval_f(ue, t)
                    acc = np.array(prob.build_f(f, ue, t)) if name == 'penningtrap' else np.array(f)
                    mag = (float(abs(ue)) * stiff + float(np.max(np.abs(acc)))) + 1e-300
                    err = max(float(np.max(np.abs(dpos - np.array(ue.vel)))), float(np.max(np.abs(dvel - acc))))
                    worst = max(worst, err / mag)
                    ck.case(key='exact|%s|%d' % (vid, j), nontrivial=True)
                    if not err <= EXACT_RTOL * mag:
                        violate('%s: d/dt u_exact(t) differs from (vel, acceleration(u_exact)) by %.3e at t=%g (scale %.3e)' % (vid, err, t, mag),
                                {'class': var.key, 'params': repr(var.params), 't': t, 'defect': err},
                                {'kind': 'exact-solution-derivative', 'class': var.key, 'variant': var.label}, ('exact', vid))
        except Exception as ex:
            violate('%s: particle-class check raised %s: %s' % (vid, type(ex).__name__, ex), {'class': var.key, 'params': repr(var.params)},
                    {'kind': 'particle-exception', 'class': var.key, 'variant': var.label}, ('part-exc', vid))
    ck.cov['particle_eval_f_cases'] = n
    ck.cov['particle_exact_worst_relative_defect'] = worst
