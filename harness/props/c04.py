"""C04 — k SDC iterations give order min(k, p); Runge-Kutta sweepers attain their order.

Coq side (Props/C04.v): Neumann expansion of every stability function (Taylor coefficient j = b.A^(j-1).1 with an
explicit remainder), order gain of preconditioned sweeps as formal power series (coefficients m <= k of the k-th
iterate are the collocation ones, for every Q and every sequence of preconditioners) and for actual iterates
(U^k - U_c = z^(k+1) g_k), soundness of the dyadic validators check_order / check_embedded / check_order_imex /
check_embedded_imex / check_series.

Tie to /repo (every run):
  * tables regenerated from the live code — Qmat/weights/order of every node family x quadrature type x M = 1..7,
    the Butcher tableaux of every RungeKutta / RungeKuttaIMEX / RungeKuttaNystrom subclass found by walking the two
    modules (documented orders in DOC_ORDER below, from the docstrings; get_update_order() from the class) — are
    validated by the verified Coq validators;
  * the REAL controller_nonMPI is run on the Dahlquist equation with a vector of complex lambdas on a circle; the
    ratios uend/u0 are Fourier-transformed into Taylor coefficients and compared (a) with the exact coefficients
    the Coq model computes from the same tables (series of k sweeps with the sweeper's actual QDelta matrices;
    b.A^j.1 for RK; the bivariate table for IMEX-RK) and (b), as implementation-side oracle independent of Coq,
    with 1/j! (1/(a! b!)) through order min(k, p) resp. the documented order, and u_secondary - uend through the
    order get_update_order() assumes.
"""
import concurrent.futures
import inspect
import logging
import math
import os
import re
from fractions import Fraction as F

import numpy as np

from harness.common import coq_list, float_to_dy, parse_coq_value, eval_outputs, zlit

LEVEL = 'proof'

NODE_TYPES = ['EQUID', 'LEGENDRE', 'CHEBY-1', 'CHEBY-2', 'CHEBY-3', 'CHEBY-4']
QUAD_TYPES = ['GAUSS', 'LOBATTO', 'RADAU-LEFT', 'RADAU-RIGHT']
UINT63_PRIMS = {'int', 'lsr', 'land', 'eqb', 'lor', 'lsl', 'add', 'sub', 'ltb', 'leb'}

# documented (docstring) orders of the Runge-Kutta sweeper classes; the check fails for a class that is not listed
DOC_ORDER = {
    'ForwardEuler': 1, 'BackwardEuler': 1, 'IMEXEuler': 1, 'IMEXEulerStifflyAccurate': 1,
    'CrankNicolson': 2, 'ExplicitMidpointMethod': 2, 'ImplicitMidpointMethod': 2, 'RK4': 4,
    'Heun_Euler': 2, 'Cash_Karp': 5, 'DIRK43': 4, 'DIRK43_2': 3, 'EDIRK4': 4, 'ESDIRK53': 5, 'ESDIRK43': 4,
    'ARK548L2SAERK': 5, 'ARK548L2SAESDIRK': 5, 'ARK54': 5, 'ARK548L2SAESDIRK2': 5, 'ARK548L2SAERK2': 5, 'ARK548L2SA': 5,
    'ARK324L2SAERK': 3, 'ARK324L2SAESDIRK': 3, 'ARK32': 3, 'ARK2': 2, 'ARK3': 3,
    'RKN': 4, 'Velocity_Verlet': 2,
}
DT = 0.5                         # step size of all runs (not 1, so that a missing/extra factor dt is visible); lambda = z / DT
TOL_TABLE = F(1, 2 ** 40)        # |c_j - 1/j!| for table coefficients (observed <= 2^-47, see evidence)
IMPLICIT_QD = ['IE', 'LU', 'MIN-SR-S', 'MIN-SR-NS', 'MIN-SR-FLEX', 'IEpar', 'Qpar', 'MIN', 'MIN3', 'PIC', 'LU2', 'VDHS', 'TRAP', 'GS', 'FB', 'FB2']
KDEP_QD = ['MIN-SR-FLEX', 'FB', 'FB2']     # sweep-dependent preconditioners of qmat (MIN_SR_FLEX, Jumper, FlexJumper)
EXPLICIT_QD = ['EE', 'PIC']


def dy_lit(x):
    if isinstance(x, F):
        den = x.denominator
        assert den & (den - 1) == 0
        m, e = x.numerator, -(den.bit_length() - 1)
        while m and m % 2 == 0:
            m //= 2
            e += 1
    else:
        m, e = float_to_dy(x)
    if m == 0:
        return 'd0'
    if abs(m) < 2 ** 62:
        return '(%s %d%%uint63 %s)' % ('Dp' if m > 0 else 'Dn', abs(m), zlit(e))
    return '(Dy %s %s)' % (zlit(m), zlit(e))


def vec_lit(v):
    return coq_list([dy_lit(x) for x in v])


def mat_lit(A):
    return coq_list([vec_lit(r) for r in A])


HEADER = ['From Coq Require Import ZArith QArith Qabs List Bool Uint63.',
          'From PySDC Require Import Base.Dyadic Model.Order Proofs.OrderProofs.',
          'Import ListNotations.', 'Open Scope Z_scope.',
          'Definition Dp (m : int) (e : Z) : dy := Dy (Uint63.to_Z m) e.',
          'Definition Dn (m : int) (e : Z) : dy := Dy (- Uint63.to_Z m) e.',
          'Definition pr (d : dy) : Z * Z := (dm d, de d).', '']


def fr(x):
    return F(float(x))


def frmat(A):
    return [[fr(x) for x in row] for row in np.atleast_2d(np.asarray(A, dtype=float))]


def dyfrac(p):
    m, e = p
    return F(m) * F(2) ** e


# ----------------------------------------------------------------------------- exact reference computations (oracle side)
def mv(A, x):
    return [sum(a * b for a, b in zip(row, x)) for row in A]


def stab_coefs(A, b, p):
    v = [F(1)] * len(A)
    out = []
    for _ in range(p):
        out.append(sum(x * y for x, y in zip(b, v)))
        v = mv(A, v)
    return out


def imex_coefs(AI, AE, bI, bE, p):
    n = len(AI)
    V = {(0, 0): [F(1)] * n}
    for s in range(1, p + 1):
        for a in range(s + 1):
            b = s - a
            v = [F(0)] * n
            if a > 0:
                v = [x + y for x, y in zip(v, mv(AI, V[(a - 1, b)]))]
            if b > 0:
                v = [x + y for x, y in zip(v, mv(AE, V[(a, b - 1)]))]
            V[(a, b)] = v
    c = {(0, 0): F(1)}
    for s in range(1, p + 1):
        for a in range(s + 1):
            b = s - a
            val = F(0)
            if a > 0:
                val += sum(x * y for x, y in zip(bI, V[(a - 1, b)]))
            if b > 0:
                val += sum(x * y for x, y in zip(bE, V[(a, b - 1)]))
            c[(a, b)] = val
    return c


class imex_dahlquist_factory:
    """u' = lamI u (implicit part) + lamE u (explicit part), vectorised; built lazily because pySDC must be imported first"""
    cls = None

    @classmethod
    def get(klass):
        if klass.cls is not None:
            return klass.cls
        from pySDC.core.problem import Problem
        from pySDC.implementations.datatype_classes.mesh import mesh, imex_mesh

        class imex_dahlquist(Problem):
            dtype_u = mesh
            dtype_f = imex_mesh

            def __init__(self, lamI=None, lamE=None, u0=1.0):
                lamI = np.asarray(lamI)
                lamE = np.asarray(lamE)
                super().__init__(init=(lamI.size, None, np.dtype('complex128')))
                self._makeAttributeAndRegister('lamI', 'lamE', 'u0', localVars=locals(), readOnly=True)

            def eval_f(self, u, t):
                f = self.dtype_f(self.init)
                f.impl[:] = self.lamI * u
                f.expl[:] = self.lamE * u
                return f

            def solve_system(self, rhs, factor, u0, t):
                me = self.dtype_u(self.init)
                me[:] = rhs / (1 - factor * self.lamI)
                return me

            def u_exact(self, t):
                me = self.dtype_u(self.init)
                me[:] = self.u0 * np.exp((self.lamI + self.lamE) * t)
                return me

        klass.cls = imex_dahlquist
        return imex_dahlquist


def fft_coefs(R, r, N):
    return np.fft.fft(np.asarray(R)) / N / r ** np.arange(N)


def run(ck):
    logging.disable(logging.WARNING)
    ck.rule = ('tables: every node family x quadrature type x M=1..7 and every RK class of the two modules; runs: seeded (family, type, M, '
               'sweeper, QDelta name, end-point mode, sweep mode) configurations x k = 1..min(p+2, K) iterations + every RK class; '
               'a case is one (configuration, k) run of the real controller or one validated table; distinct by that tuple; '
               'non-trivial when M >= 2 or the class has >= 2 stages')
    if os.environ.get('C04_SKIP_BUILD'):      # self-test (mutation runs) only
        ck.build = lambda: (True, '')
    ck.check_props(required=['C04_neumann_expansion', 'C04_stability_expansion', 'C04_order_gain_series', 'C04_order_gain',
                             'C04_error_propagation', 'C04_check_order_sound', 'C04_check_embedded_sound',
                             'C04_check_order_imex_sound', 'C04_dsdc_coefs_sound'])

    # report at most three violations per kind in full; the rest is counted in one summary violation per kind
    counts = {}
    raw_violation = ck.violation

    def limited(what, replay, match=None, no_input=False):
        kind = (match or {}).get('kind', '?')
        counts.setdefault(kind, []).append(what)
        if len(counts[kind]) <= 3:
            return raw_violation(what, replay, match=match, no_input=no_input)
        return False

    ck.violation = limited
    try:
        _run(ck)
    finally:
        ck.violation = raw_violation
    for kind, whats in sorted(counts.items()):
        if len(whats) > 3:
            ck.violation('%d violations of kind %s in total (first three reported individually)' % (len(whats), kind),
                         {'kind': kind, 'count': len(whats), 'all': whats[:80]}, match={'kind': kind, 'summary': True})


def _run(ck):
    from pySDC.core.collocation import CollBase
    from pySDC.implementations.problem_classes.TestEquation_0D import testequation0d
    from pySDC.implementations.controller_classes.controller_nonMPI import controller_nonMPI
    from pySDC.implementations.sweeper_classes.generic_implicit import generic_implicit
    from pySDC.implementations.sweeper_classes.explicit import explicit
    from pySDC.implementations.sweeper_classes.imex_1st_order import imex_1st_order
    import pySDC.implementations.sweeper_classes.Runge_Kutta as RKm
    import pySDC.implementations.sweeper_classes.Runge_Kutta_Nystrom as RKNm
    imex_dahlquist = imex_dahlquist_factory.get()
    rng = ck.rng
    thorough = ck.tier == 'thorough'
    tol = dy_lit(TOL_TABLE)
    files = {}

    # ------------------------------------------------------------------ 1. collocation tables
    colls = []       # (key, Q, w, p, right_is_node)
    for nt in NODE_TYPES:
        for qt in QUAD_TYPES:
            for M in range(1, 8):
                if M < 2 and qt in ('LOBATTO', 'RADAU-LEFT'):
                    continue
                c = CollBase(M, 0, 1, node_type=nt, quad_type=qt)
                colls.append(((nt, qt, M), np.asarray(c.Qmat)[1:, 1:].tolist(), list(c.weights), int(c.order), bool(c.right_is_node)))
    L = list(HEADER)
    L.append('Definition colls : list (list (list dy) * list dy * nat) := [\n%s].'
             % ';\n'.join('(%s, %s, %d%%nat)' % (mat_lit(Q), vec_lit(w), p) for _, Q, w, p, _ in colls))
    L.append("Eval vm_compute in map (fun '(Q, w, p) => check_order Q w p %s) colls." % tol)
    # end point taken from the last node: weights := last row of Q
    L.append("Eval vm_compute in map (fun '(Q, w, p) => check_order Q (last Q []) p %s) colls." % tol)
    L.append("Definition colls_ok := filter (fun '(Q, w, p) => check_order Q w p %s) colls." % tol)
    L.append("Lemma colls_ok_checked : forallb (fun '(Q, w, p) => check_order Q w p %s) colls_ok = true. "
             "Proof. vm_cast_no_check (@eq_refl bool true). Qed." % tol)
    L.append('Theorem colls_order : forall Q w p, In (Q, w, p) colls_ok -> forall j, (1 <= j <= p)%%nat -> '
             '(Qabs (stab_coef (length Q) (mofl Q) (vofl w) j - 1 / qfact j) <= D2Q %s)%%Q.' % tol)
    L.append("Proof. intros Q w p H. apply check_order_sound. pose proof colls_ok_checked as E. rewrite forallb_forall in E. exact (E _ H). Qed.")
    L.append('Print Assumptions colls_order.')
    L.append('Eval vm_compute in length colls_ok.')
    files['colls'] = ck.write_gen('Tables_coll.v', '\n'.join(L) + '\n')

    # ------------------------------------------------------------------ 2. Runge-Kutta classes
    def walk(mod):
        out = []
        for name, c in inspect.getmembers(mod, inspect.isclass):
            if issubclass(c, RKm.RungeKutta) and c.__module__ == mod.__name__ and getattr(c, 'matrix', None) is not None:
                out.append(c)
        return out

    rk_classes = walk(RKm)
    rkn_classes = walk(RKNm)
    ck.cov['rk_classes'] = [c.__name__ for c in rk_classes]
    ck.cov['rkn_classes'] = [c.__name__ for c in rkn_classes]
    ck.cov['documented_orders'] = {c.__name__: DOC_ORDER.get(c.__name__) for c in rk_classes + rkn_classes}
    rks = []     # dict per class
    for c in rk_classes:
        name = c.__name__
        if name not in DOC_ORDER:
            ck.violation('Runge-Kutta sweeper class %s has no documented order in the harness table' % name, {'class': name},
                         match={'kind': 'rk-undocumented', 'class': name}, no_input=True)
            continue
        imex = issubclass(c, RKm.RungeKuttaIMEX)
        emb = bool(c.is_embedded())
        tab = c.get_Butcher_tableau()
        A = np.asarray(tab.Qmat)[1:, 1:]
        W = np.atleast_2d(np.asarray(tab.weights, dtype=float))
        d = {'cls': c, 'name': name, 'imex': imex, 'emb': emb, 'p': DOC_ORDER[name], 'A': A.tolist(), 'stages': A.shape[0]}
        gsa = bool(tab.globally_stiffly_accurate)
        if imex:
            wE = c.weights if c.weights_explicit is None else c.weights_explicit      # what RungeKuttaIMEX.__init__ does
            tabE = c.ButcherTableauClass_explicit(wE, c.nodes, c.matrix_explicit)
            AE = np.asarray(tabE.Qmat)[1:, 1:]
            WE = np.atleast_2d(np.asarray(tabE.weights, dtype=float))
            gsa = gsa and bool(tabE.globally_stiffly_accurate)
            d.update(AE=AE.tolist(), bE=(AE[-1] if gsa else WE[0]).tolist(), bE2=(WE[1].tolist() if emb else None))
        d.update(gsa=gsa, b=(A[-1] if gsa else W[0]).tolist(), b2=(W[1].tolist() if emb else None))
        if emb:
            d['q'] = int(c.get_update_order())
        rks.append(d)

    L = list(HEADER)
    plain = [d for d in rks if not d['imex']]
    imexs = [d for d in rks if d['imex']]
    L.append('Definition rks : list (list (list dy) * list dy * nat) := [\n%s].'
             % ';\n'.join('(%s, %s, %d%%nat)' % (mat_lit(d['A']), vec_lit(d['b']), d['p']) for d in plain))
    L.append("Eval vm_compute in map (fun '(A, b, p) => check_order A b p %s) rks." % tol)
    L.append("Eval vm_compute in map (fun '(A, b, p) => map pr (dstab_coefs A b (p + 2))) rks.")
    embs = [d for d in plain if d['emb']]
    L.append('Definition embs : list (list (list dy) * list dy * list dy * nat) := [\n%s].'
             % ';\n'.join('(%s, %s, %s, %d%%nat)' % (mat_lit(d['A']), vec_lit(d['b']), vec_lit(d['b2']), d['q']) for d in embs))
    L.append("Eval vm_compute in map (fun '(A, b1, b2, q) => check_embedded A b1 b2 q %s) embs." % tol)
    L.append("Eval vm_compute in map (fun '(A, b1, b2, q) => map pr (dstab_coefs A b2 (q + 1))) embs.")
    L.append('Definition imexs : list (list (list dy) * list (list dy) * list dy * list dy * nat) := [\n%s].'
             % ';\n'.join('(%s, %s, %s, %s, %d%%nat)' % (mat_lit(d['A']), mat_lit(d['AE']), vec_lit(d['b']), vec_lit(d['bE']), d['p']) for d in imexs))
    L.append("Eval vm_compute in map (fun '(AI, AE, bI, bE, p) => check_order_imex AI AE bI bE p %s) imexs." % tol)
    L.append("Eval vm_compute in map (fun '(AI, AE, bI, bE, p) => map (fun ab => pr (dimex_coef AI AE bI bE (fst ab) (snd ab))) (pairs_upto (p + 1))) imexs.")
    iembs = [d for d in imexs if d['emb']]
    L.append('Definition iembs : list (list (list dy) * list (list dy) * list dy * list dy * list dy * list dy * nat) := [\n%s].'
             % ';\n'.join('(%s, %s, %s, %s, %s, %s, %d%%nat)' % (mat_lit(d['A']), mat_lit(d['AE']), vec_lit(d['b']), vec_lit(d['bE']),
                                                                   vec_lit(d['b2']), vec_lit(d['bE2']), d['q']) for d in iembs))
    L.append("Eval vm_compute in map (fun '(AI, AE, bI, bE, bI2, bE2, q) => check_embedded_imex AI AE bI bE bI2 bE2 q %s) iembs." % tol)
    # RKN: x'' = mu x.  families  beta . Abar^j . gamma  against 1/(2j+s)!
    rkns = []
    for c in rkn_classes:
        name = c.__name__
        if name not in DOC_ORDER:
            ck.violation('Runge-Kutta-Nystrom sweeper class %s has no documented order in the harness table' % name, {'class': name},
                         match={'kind': 'rk-undocumented', 'class': name}, no_input=True)
            continue
        tab, tabx = c.get_Butcher_tableau(), c.get_Butcher_tableau_bar()
        if tab.implicit:
            ck.cov.setdefault('rkn_not_table_checked', []).append(
                '%s: update_nodes replaces the tableau by the Boris scheme when coll.implicit (tableau not used as a Nystrom tableau)' % name)
            continue
        s = tab.num_nodes - tab.num_solution_stages
        Abar = np.asarray(tabx.Qmat)[1:s + 1, 1:s + 1]
        cvec = np.asarray(tab.nodes)[1:s + 1]
        bbar = np.asarray(tabx.Qmat)[-1, 1:s + 1]
        bvel = np.asarray(tab.Qmat)[-1, 1:s + 1]
        rkns.append({'name': name, 'p': DOC_ORDER[name], 'Abar': Abar.tolist(), 'c': cvec.tolist(), 'bbar': bbar.tolist(), 'b': bvel.tolist()})
    fams = []     # (label, Abar, beta, gamma, [targets])
    for d in rkns:
        p = d['p']
        ones = [1.0] * len(d['c'])
        for lab, beta, gamma, s in (('pos<-pos', d['bbar'], ones, 2), ('pos<-vel', d['bbar'], d['c'], 3),
                                    ('vel<-pos', d['b'], ones, 1), ('vel<-vel', d['b'], d['c'], 2)):
            ts = [math.factorial(2 * j + s) for j in range(p) if 2 * j + s <= p]
            fams.append((d['name'] + ' ' + lab, d['Abar'], beta, gamma, ts))
    L.append('Definition fams : list (list (list dy) * list dy * list dy * list Z) := [\n%s].'
             % ';\n'.join('(%s, %s, %s, %s)' % (mat_lit(A), vec_lit(b), vec_lit(g), coq_list([zlit(t) for t in ts])) for _, A, b, g, ts in fams))
    L.append("Eval vm_compute in map (fun '(A, b, g, ts) => check_series A b g ts %s) fams." % tol)
    L.append("Eval vm_compute in map (fun '(A, b, g, ts) => map pr (map (ddot b) (dpowers A g (S (length A))))) fams.")
    files['rk'] = ck.write_gen('Tables_rk.v', '\n'.join(L) + '\n')

    # ------------------------------------------------------------------ 3. SDC configurations for the tie
    def controller_run(desc):
        c = controller_nonMPI(num_procs=1, controller_params={'logger_level': 40}, description=desc)
        P = c.MS[0].levels[0].prob
        uend, _ = c.run(u0=P.u_exact(0), t0=0.0, Tend=DT)
        return np.asarray(uend), c.MS[0].levels[0].sweep

    NF = 64
    Kcap = 12 if thorough else 8
    Mmax = 7 if thorough else 5
    nconf = 90 if thorough else 26
    confs = []
    # forced configurations, every run: k sweeps done as maxiter = 1, nsweeps = k (the only way the controller advances the
    # sweep index handed to updateVariableCoeffs), for generic_implicit AND imex_1st_order, with every sweep-dependent
    # preconditioner and one fixed one; the model gets the per-sweep matrices QI_1, QI_2, ...
    fi = 0
    for kind in ('implicit', 'imex'):
        for QIname in KDEP_QD + ['LU']:
            for rep in range(2 if thorough else 1):
                qt = QUAD_TYPES[(fi + ck.seed) % 4]
                conf = {'nt': NODE_TYPES[(fi * 5 + ck.seed) % 6] if rep else 'LEGENDRE', 'qt': qt,
                        'M': rng.randint(2, 3 if not thorough else 5), 'kind': kind, 'upd': rng.random() < 0.5,
                        'nsweeps_mode': True, 'QI': QIname, 'Kcap': 6 if not thorough else 9}
                if kind == 'imex':
                    conf['QE'] = rng.choice(EXPLICIT_QD)
                    conf['alpha'] = rng.choice([F(1, 2), F(3, 4), F(1)])
                confs.append(conf)
                fi += 1
    # forced, every run: the `explicit` sweeper with QE in {EE, PIC} on all four quadrature types (GAUSS / RADAU-RIGHT have a
    # first node away from t0, where the first column of QE — dTau * f(u0) — is non-zero) x LEGENDRE / EQUID nodes, and the
    # explicit half of imex_1st_order (alpha = 0 and 1/4) on GAUSS and RADAU-RIGHT nodes
    for QEname in EXPLICIT_QD:
        for qt in QUAD_TYPES:
            for nt in ('LEGENDRE', 'EQUID'):
                confs.append({'nt': nt, 'qt': qt, 'M': rng.randint(2, 3 if not thorough else 5), 'kind': 'explicit', 'upd': rng.random() < 0.5,
                              'nsweeps_mode': rng.random() < 0.25, 'QE': QEname, 'Kcap': 5 if not thorough else 8})
    for qt, al in (('GAUSS', F(0)), ('RADAU-RIGHT', F(1, 4))):
        confs.append({'nt': 'LEGENDRE', 'qt': qt, 'M': rng.randint(2, 3), 'kind': 'imex', 'upd': rng.random() < 0.5, 'nsweeps_mode': False,
                      'QI': 'IE', 'QE': 'EE', 'alpha': al, 'Kcap': 5 if not thorough else 8})
    kinds = (['implicit'] * 5 + ['explicit'] * 2 + ['imex'] * 3)
    for ci in range(nconf):
        nt = NODE_TYPES[ci % 6]
        qt = QUAD_TYPES[(ci // 6 + ci) % 4]
        M = rng.randint(2 if qt in ('LOBATTO', 'RADAU-LEFT') else 1, Mmax)
        kind = kinds[ci % len(kinds)] if ci >= 14 else 'implicit'
        conf = {'nt': nt, 'qt': qt, 'M': M, 'kind': kind, 'upd': rng.random() < 0.5, 'nsweeps_mode': False}
        if kind == 'implicit':
            conf['QI'] = IMPLICIT_QD[ci % len(IMPLICIT_QD)]
            conf['nsweeps_mode'] = rng.random() < (0.7 if conf['QI'] in KDEP_QD else 0.2)
        elif kind == 'explicit':
            conf['QE'] = EXPLICIT_QD[ci % len(EXPLICIT_QD)]
        else:
            conf['QI'] = rng.choice(['IE', 'LU', 'MIN-SR-S'] + KDEP_QD)
            conf['QE'] = rng.choice(EXPLICIT_QD)
            conf['alpha'] = rng.choice([F(1, 4), F(1, 2), F(3, 4), F(1), F(0)])
            conf['nsweeps_mode'] = rng.random() < (0.7 if conf['QI'] in KDEP_QD else 0.2)
        confs.append(conf)

    skipped = []
    sdc = []
    for conf in confs:
        M, nt, qt = conf['M'], conf['nt'], conf['qt']
        sp = {'num_nodes': M, 'quad_type': qt, 'node_type': nt, 'initial_guess': 'spread', 'do_coll_update': conf['upd']}
        kind = conf['kind']
        if kind == 'implicit':
            sw_cls, sp['QI'] = generic_implicit, conf['QI']
        elif kind == 'explicit':
            sw_cls, sp['QE'] = explicit, conf['QE']
        else:
            sw_cls, sp['QI'], sp['QE'] = imex_1st_order, conf['QI'], conf['QE']
        try:
            probe = sw_cls(dict(sp), None)
        except Exception as e:          # preconditioner name not applicable to this sweeper / node set
            skipped.append((kind, conf.get('QI'), conf.get('QE'), nt, qt, M, type(e).__name__))
            continue
        coll = probe.coll
        p = int(coll.order)
        K = min(p + 2, conf.get('Kcap', Kcap))
        # the preconditioner matrices the controller will use in sweep s = 1..K
        QDs = []
        for s in range(1, K + 1):
            kk = s if conf['nsweeps_mode'] else 1
            if kind == 'implicit':
                QD = frmat(np.asarray(probe.get_Qdelta_implicit(conf['QI'], k=kk))[1:, 1:])
            elif kind == 'explicit':
                QD = frmat(np.asarray(probe.get_Qdelta_explicit(conf['QE'], k=kk))[1:, 1:])
            else:
                QI = frmat(np.asarray(probe.get_Qdelta_implicit(conf['QI'], k=kk))[1:, 1:])
                QE = frmat(np.asarray(probe.get_Qdelta_explicit(conf['QE'], k=kk))[1:, 1:])
                al = conf['alpha']
                QD = [[al * a + (1 - al) * b for a, b in zip(r1, r2)] for r1, r2 in zip(QI, QE)]
            QDs.append(QD)
        last = bool(coll.right_is_node and not conf['upd'])
        dmax = max([1.0] + [abs(float(QD[i][i])) for QD in QDs for i in range(M)])
        r = 0.3 / dmax
        lam = r * np.exp(2j * np.pi * np.arange(NF) / NF) / DT
        runs = []
        for k in range(1, K + 1):
            lp = {'dt': DT, 'restol': -1}
            stp = {'maxiter': k}
            if conf['nsweeps_mode']:
                lp['nsweeps'] = k
                stp = {'maxiter': 1}
            if kind == 'imex':
                al = float(conf['alpha'])
                desc = dict(problem_class=imex_dahlquist, problem_params={'lamI': al * lam, 'lamE': (1 - al) * lam, 'u0': 1.0})
            else:
                desc = dict(problem_class=testequation0d, problem_params={'lambdas': lam, 'u0': 1.0})
            desc.update(sweeper_class=sw_cls, sweeper_params=dict(sp), level_params=lp, step_params=stp)
            uend, sw = controller_run(desc)
            ck.traces += 1
            runs.append(fft_coefs(uend, r, NF))
        sdc.append({'conf': conf, 'p': p, 'K': K, 'last': last, 'r': r, 'runs': runs, 'QDs': QDs,
                    'Q': frmat(np.asarray(coll.Qmat)[1:, 1:]), 'w': [fr(x) for x in coll.weights]})
    ck.cov['sdc_configurations'] = len(sdc)
    ck.cov['sdc_skipped'] = skipped

    nfiles = 12
    for fi in range(nfiles):
        part = [(i, s) for i, s in enumerate(sdc) if i % nfiles == fi]
        if not part:
            continue
        L = list(HEADER)
        for i, s in part:
            L.append('Definition Q%d := %s.' % (i, mat_lit(s['Q'])))
            L.append('Definition QDs%d := %s.' % (i, coq_list([mat_lit(QD) for QD in s['QDs']])))
            N = s['K'] + 2
            if s['last']:
                L.append('Eval vm_compute in map (map pr) (dsdc_coefs_last Q%d QDs%d %d%%nat).' % (i, i, N))
            else:
                L.append('Eval vm_compute in map (map pr) (dsdc_coefs_upd Q%d QDs%d %s %d%%nat).' % (i, i, vec_lit(s['w']), N))
        files['sdc%d' % fi] = ck.write_gen('Series_%02d.v' % fi, '\n'.join(L) + '\n')

    # ------------------------------------------------------------------ compile everything in parallel
    def comp(item):
        return item[0], ck.coqc(item[1], timeout=1500)

    with concurrent.futures.ThreadPoolExecutor(max_workers=16) as ex:
        outs = dict(ex.map(comp, files.items()))
    for name, (rc, out) in outs.items():
        if rc != 0:
            ck.obligation('%s evaluates' % name, False, out[-1500:])
            ck.violation('generated file %s does not compile/evaluate' % files[name], {'log': out[-3000:]}, match={'kind': 'gen'}, no_input=True)
            return

    # ------------------------------------------------------------------ 4. verdicts: collocation tables
    vals = [parse_coq_value(v) for v in eval_outputs(outs['colls'][1])]
    okw, okl, ngood = vals[0], vals[1], vals[2]
    out = outs['colls'][1]
    ax = re.findall(r"^([A-Za-z_][A-Za-z_0-9\.']*) :", out.split('Axioms:')[-1], re.M) if 'Axioms:' in out else []
    closed = ('Closed under the global context' in out) or (ax and set(ax) <= UINT63_PRIMS)
    for a_ in ax:
        tnote = 'primitive used only to write mantissa literals in generated tables: Uint63.' + a_
        if tnote not in ck.trusted:
            ck.trusted.append(tnote)
    ck.obligation('colls_order: Taylor coefficients 1..order of %d collocation rules within 2^-40 of 1/j! (kernel-checked via check_order_sound)' % ngood, bool(closed))
    worst = F(0)
    nbad = 0
    for (key, Q, w, p, rnode), a, b in zip(colls, okw, okl):
        ck.case(key=('coll',) + key, nontrivial=key[2] >= 2, sample={'table': 'collocation', 'key': key, 'order': p})
        Qf, wf = frmat(Q), [fr(x) for x in w]
        for mode, ok, bvec in (('weights', a, wf), ('last-node', b, Qf[-1])):
            if mode == 'last-node' and not rnode:
                continue
            cs = stab_coefs(Qf, bvec, p)
            dev = max(abs(c - F(1, math.factorial(j))) for j, c in enumerate(cs, 1)) if cs else F(0)
            worst = max(worst, dev)
            o_ok = dev <= TOL_TABLE
            if ok != o_ok:
                ck.violation('Coq check_order and Python oracle disagree on collocation table %s (%s)' % (key, mode),
                             {'key': key, 'coq': ok, 'oracle': o_ok}, match={'kind': 'oracle-mismatch', 'table': 'coll'}, no_input=True)
            if not o_ok:
                nbad += 1
                jbad = next(j for j, c in enumerate(cs, 1) if abs(c - F(1, math.factorial(j))) > TOL_TABLE)
                ck.violation('collocation rule %s (%s as end point): Taylor coefficient %d of the stability function is %.15g, not 1/%d! '
                             '(reported order %d)' % (key, mode, jbad, float(cs[jbad - 1]), jbad, p),
                             {'call': 'CollBase', 'node_type': key[0], 'quad_type': key[1], 'num_nodes': key[2], 'order': p, 'mode': mode,
                              'coefficient_index': jbad, 'coefficient': float(cs[jbad - 1])}, match={'kind': 'coll-order', 'node_type': key[0], 'quad_type': key[1]})
    ck.obligation('check_order accepts every regenerated collocation table (%d)' % len(colls), nbad == 0)
    ck.cov['worst_table_coefficient_deviation'] = float(worst)
    ck.cov['table_tolerance'] = float(TOL_TABLE)

    # ------------------------------------------------------------------ 5. verdicts: RK tables
    vals = [parse_coq_value(v) for v in eval_outputs(outs['rk'][1])]
    ok_rk, coef_rk, ok_emb, coef_emb2, ok_imex, coef_imex, ok_iemb, ok_fams, coef_fams = vals
    worst_rk = F(0)
    for d, ok, cq in zip(plain, ok_rk, coef_rk):
        ck.case(key=('rk-table', d['name']), nontrivial=d['stages'] >= 2, sample={'table': 'RK', 'class': d['name'], 'order': d['p']})
        cs = stab_coefs(frmat(d['A']), [fr(x) for x in d['b']], d['p'] + 2)
        d['coefs'] = cs
        if [dyfrac(x) for x in cq] != cs:
            ck.violation('Coq dstab_coefs and Python oracle disagree for %s' % d['name'], {'class': d['name']},
                         match={'kind': 'oracle-mismatch', 'table': 'rk'}, no_input=True)
        dev = max(abs(c - F(1, math.factorial(j))) for j, c in enumerate(cs[:d['p']], 1))
        worst_rk = max(worst_rk, dev)
        if ok != (dev <= TOL_TABLE):
            ck.violation('Coq check_order and Python oracle disagree for %s' % d['name'], {'class': d['name'], 'coq': ok},
                         match={'kind': 'oracle-mismatch', 'table': 'rk'}, no_input=True)
        if dev > TOL_TABLE:
            jbad = next(j for j, c in enumerate(cs, 1) if abs(c - F(1, math.factorial(j))) > TOL_TABLE)
            ck.violation('%s: Taylor coefficient %d of the stability function from the class tableau is %.15g, not 1/%d! (documented order %d)'
                         % (d['name'], jbad, float(cs[jbad - 1]), jbad, d['p']),
                         {'class': d['name'], 'coefficient_index': jbad, 'coefficient': float(cs[jbad - 1]), 'documented_order': d['p'],
                          'matrix': d['A'], 'weights_used': d['b']}, match={'kind': 'rk-order', 'class': d['name']})
    for d, ok, cq in zip(embs, ok_emb, coef_emb2):
        ck.case(key=('rk-embedded-table', d['name']), nontrivial=True)
        c1 = stab_coefs(frmat(d['A']), [fr(x) for x in d['b']], d['q'] + 1)
        c2 = stab_coefs(frmat(d['A']), [fr(x) for x in d['b2']], d['q'] + 1)
        d['coefs2'] = c2
        dev = max([abs(x - y) for x, y in list(zip(c1, c2))[:d['q'] - 1]] + [F(0)])
        if ok != (dev <= TOL_TABLE) or [dyfrac(x) for x in cq] != c2:
            ck.violation('Coq check_embedded and Python oracle disagree for %s' % d['name'], {'class': d['name'], 'coq': ok},
                         match={'kind': 'oracle-mismatch', 'table': 'rk-embedded'}, no_input=True)
        if dev > TOL_TABLE:
            jbad = next(j for j, (x, y) in enumerate(zip(c1, c2), 1) if abs(x - y) > TOL_TABLE)
            ck.violation('%s: primary and embedded weights differ already in Taylor coefficient %d, but get_update_order() = %d assumes '
                         'uend - u_secondary = O(dt^%d)' % (d['name'], jbad, d['q'], d['q']),
                         {'class': d['name'], 'coefficient_index': jbad, 'update_order': d['q'], 'difference': float(c1[jbad - 1] - c2[jbad - 1])},
                         match={'kind': 'rk-embedded-order', 'class': d['name']})
    for d, ok, cq in zip(imexs, ok_imex, coef_imex):
        ck.case(key=('imex-table', d['name']), nontrivial=d['stages'] >= 2, sample={'table': 'IMEX-RK', 'class': d['name'], 'order': d['p']})
        cs = imex_coefs(frmat(d['A']), frmat(d['AE']), [fr(x) for x in d['b']], [fr(x) for x in d['bE']], d['p'] + 1)
        d['coefs'] = cs
        pairs = [(a, s - a) for s in range(d['p'] + 2) for a in range(s + 1)]
        pairs_coq = [(a, b) for a in range(d['p'] + 2) for b in range(d['p'] + 2 - a)]
        got = {ab: dyfrac(x) for ab, x in zip(pairs_coq, cq)}
        if any(got[ab] != cs[ab] for ab in pairs):
            ck.violation('Coq dimex_coef and Python oracle disagree for %s' % d['name'], {'class': d['name']},
                         match={'kind': 'oracle-mismatch', 'table': 'imex'}, no_input=True)
        bad = [(a, b) for (a, b) in pairs if a + b <= d['p'] and abs(cs[(a, b)] - F(1, math.factorial(a) * math.factorial(b))) > TOL_TABLE]
        if ok != (not bad):
            ck.violation('Coq check_order_imex and Python oracle disagree for %s' % d['name'], {'class': d['name'], 'coq': ok},
                         match={'kind': 'oracle-mismatch', 'table': 'imex'}, no_input=True)
        if bad:
            a, b = bad[0]
            ck.violation('%s: coefficient of zI^%d zE^%d of the IMEX stability function is %.15g, not 1/(%d! %d!) (documented order %d)'
                         % (d['name'], a, b, float(cs[(a, b)]), a, b, d['p']),
                         {'class': d['name'], 'a': a, 'b': b, 'coefficient': float(cs[(a, b)]), 'documented_order': d['p']},
                         match={'kind': 'rk-order', 'class': d['name']})
    for d, ok in zip(iembs, ok_iemb):
        ck.case(key=('imex-embedded-table', d['name']), nontrivial=True)
        c1 = imex_coefs(frmat(d['A']), frmat(d['AE']), [fr(x) for x in d['b']], [fr(x) for x in d['bE']], d['q'])
        c2 = imex_coefs(frmat(d['A']), frmat(d['AE']), [fr(x) for x in d['b2']], [fr(x) for x in d['bE2']], d['q'])
        d['coefs2'] = c2
        bad = [ab for ab in c1 if sum(ab) < d['q'] and abs(c1[ab] - c2[ab]) > TOL_TABLE]
        if ok != (not bad):
            ck.violation('Coq check_embedded_imex and Python oracle disagree for %s' % d['name'], {'class': d['name'], 'coq': ok},
                         match={'kind': 'oracle-mismatch', 'table': 'imex-embedded'}, no_input=True)
        if bad:
            ck.violation('%s: primary and embedded IMEX solutions differ in the coefficient of zI^%d zE^%d although get_update_order() = %d'
                         % (d['name'], bad[0][0], bad[0][1], d['q']), {'class': d['name'], 'pair': bad[0], 'update_order': d['q']},
                         match={'kind': 'rk-embedded-order', 'class': d['name']})
    for (lab, A, b, g, ts), ok in zip(fams, ok_fams):
        ck.case(key=('rkn-table', lab), nontrivial=True)
        v = [fr(x) for x in g]
        cs = []
        for _ in ts:
            cs.append(sum(x * y for x, y in zip([fr(x) for x in b], v)))
            v = mv(frmat(A), v)
        bad = [j for j, (c, t) in enumerate(zip(cs, ts)) if abs(c - F(1, t)) > TOL_TABLE]
        if ok != (not bad):
            ck.violation('Coq check_series and Python oracle disagree for %s' % lab, {'family': lab, 'coq': ok},
                         match={'kind': 'oracle-mismatch', 'table': 'rkn'}, no_input=True)
        if bad:
            ck.violation('%s: Nystrom coefficient %d is %.15g, not 1/%d' % (lab, bad[0], float(cs[bad[0]]), ts[bad[0]]),
                         {'family': lab, 'index': bad[0], 'coefficient': float(cs[bad[0]]), 'target_reciprocal': ts[bad[0]]},
                         match={'kind': 'rk-order', 'class': lab.split()[0]})
    # ---- RKN: run the real sweeper on x'' = mu x (harmonic oscillator, k = -mu) and recover the four response polynomials
    if rkns:
        from pySDC.implementations.problem_classes.HarmonicOscillator import harmonic_oscillator

        class ho(harmonic_oscillator):          # the Nystrom sweeper asks the problem to assemble f (as the Penning trap does)
            def build_f(self, f, part, t):
                return f

        fam_coefs = {lab: [dyfrac(x) for x in cq] for (lab, _, _, _, _), cq in zip(fams, coef_fams)}
        for d in rkns:
            cls = [c for c in rkn_classes if c.__name__ == d['name']][0]
            s_ = len(d['c'])
            mus = np.cos(np.pi * (np.arange(2 * s_ + 3) + 0.5) / (2 * s_ + 3)) * 0.8
            resp = {}
            try:
                for u0 in ((1.0, 0.0), (0.0, 1.0)):
                    pos, vel = [], []
                    for mu_ in mus:
                        desc = dict(problem_class=ho, problem_params={'k': float(-mu_) / DT ** 2, 'mu': 0.0, 'u0': u0}, sweeper_class=cls, sweeper_params={},
                                    level_params={'dt': DT, 'restol': -1}, step_params={'maxiter': 1})
                        c = controller_nonMPI(num_procs=1, controller_params={'logger_level': 40}, description=desc)
                        P = c.MS[0].levels[0].prob
                        me = P.dtype_u(P.init)
                        me.pos[:] = u0[0]
                        me.vel[:] = u0[1] / DT            # responses are taken in the variables (x, dt * v)
                        uend, _ = c.run(u0=me, t0=0.0, Tend=DT)
                        ck.traces += 1
                        pos.append(float(uend.pos[0]))
                        vel.append(float(uend.vel[0]) * DT)
                    src = 'pos' if u0[0] else 'vel'
                    resp['pos<-' + src] = np.polynomial.polynomial.polyfit(mus, pos, s_ + 1)
                    resp['vel<-' + src] = np.polynomial.polynomial.polyfit(mus, vel, s_ + 1)
            except Exception as e:
                ck.violation('running %s on the harmonic oscillator raised %s: %s' % (d['name'], type(e).__name__, e), {'class': d['name']},
                             match={'kind': 'rk-run', 'class': d['name']})
                continue
            ck.case(key=('rkn-run', d['name']), nontrivial=True, sample={'rkn-run': d['name'], 'order': d['p']})
            for lab, lead, sh in (('pos<-pos', 1.0, 2), ('pos<-vel', 1.0, 3), ('vel<-pos', 0.0, 1), ('vel<-vel', 1.0, 2)):
                model = [lead] + [float(x) for x in fam_coefs[d['name'] + ' ' + lab]]       # coefficient of mu^0, mu^1, ...
                got = resp[lab]
                for j in range(len(got)):
                    mj = model[j] if j < len(model) else 0.0
                    if abs(got[j] - mj) > 1e-10:
                        ck.violation('%s %s: the real step differs from the tableau model in the coefficient of mu^%d (%.15g vs %.15g)'
                                     % (d['name'], lab, j, got[j], mj), {'class': d['name'], 'response': lab, 'power': j, 'impl': float(got[j]), 'model': mj},
                                     match={'kind': 'rk-run-series', 'class': d['name']}, no_input=True)
                        break
                # oracle: exact flow of x'' = mu x: cosh/sinh series, powers of dt up to the documented order
                for j in range(1, len(got)):
                    if 2 * (j - 1) + sh <= d['p'] and abs(got[j] - 1.0 / math.factorial(2 * (j - 1) + sh)) > 1e-10:
                        ck.violation('%s %s: coefficient of mu^%d is %.15g, not 1/%d! (documented order %d)'
                                     % (d['name'], lab, j, got[j], 2 * (j - 1) + sh, d['p']),
                                     {'class': d['name'], 'response': lab, 'power': j, 'impl': float(got[j])},
                                     match={'kind': 'rk-run-order', 'class': d['name']})
                        break

    ck.obligation('order validators evaluated on %d RK, %d embedded, %d IMEX, %d embedded IMEX tableaux and %d Nystrom families'
                  % (len(plain), len(embs), len(imexs), len(iembs), len(fams)), True)
    ck.cov['worst_rk_coefficient_deviation'] = float(worst_rk)

    # ------------------------------------------------------------------ 6. verdicts: SDC runs vs Coq series vs 1/j!
    worst_tie = 0.0
    worst_or = 0.0
    hist = {}
    for fi in range(nfiles):
        part = [(i, s) for i, s in enumerate(sdc) if i % nfiles == fi]
        if not part:
            continue
        vals = [parse_coq_value(v) for v in eval_outputs(outs['sdc%d' % fi][1])]
        assert len(vals) == len(part)
        for (i, s), rows in zip(part, vals):
            conf = s['conf']
            r, K, p = s['r'], s['K'], s['p']
            label = (conf['nt'], conf['qt'], conf['M'], conf['kind'], conf.get('QI'), conf.get('QE'), str(conf.get('alpha')),
                     'last-node' if s['last'] else 'coll-update', 'nsweeps' if conf['nsweeps_mode'] else 'maxiter')
            hist[conf['kind']] = hist.get(conf['kind'], 0) + 1
            assert len(rows) == K + 1
            for k in range(1, K + 1):
                ck.case(key=label + (k,), nontrivial=conf['M'] >= 2,
                        sample={'sdc': label, 'k': k, 'order': p, 'radius': r})
                model = [dyfrac(x) for x in rows[k]]
                impl = s['runs'][k - 1]
                base = {'call': 'controller_nonMPI.run on the Dahlquist equation, lambdas on a circle', 'node_type': conf['nt'], 'quad_type': conf['qt'],
                        'num_nodes': conf['M'], 'sweeper': conf['kind'], 'QI': conf.get('QI'), 'QE': conf.get('QE'), 'alpha': str(conf.get('alpha')),
                        'do_coll_update': conf['upd'], 'k': k, 'radius': r, 'n_lambdas': NF, 'nsweeps_mode': conf['nsweeps_mode']}
                # (a) correspondence: real code vs exact series of the model
                mism = None
                for j in range(len(model)):
                    err = abs(impl[j] - float(model[j])) * r ** j
                    worst_tie = max(worst_tie, err)
                    if err > 1e-11 and mism is None:
                        mism = j
                # (b) oracle, independent of Coq: agreement with exp(z) through order min(k, p)
                orc = None
                for j in range(min(k, p) + 1):
                    err = abs(impl[j] - 1.0 / math.factorial(j)) * r ** j
                    worst_or = max(worst_or, err)
                    if err > 1e-11 and orc is None:
                        orc = j
                if orc is not None:
                    ck.violation('after %d sweeps the Taylor coefficient %d of uend/u0 is %s, not 1/%d! (order of the rule %d): %s'
                                 % (k, orc, complex(impl[orc]), orc, p, label),
                                 dict(base, coefficient_index=orc, coefficient=[impl[orc].real, impl[orc].imag], expected=1.0 / math.factorial(orc)),
                                 match={'kind': 'sdc-order', 'sweeper': conf['kind'], 'mode': label[7]})
                elif mism is not None:
                    ck.violation('uend/u0 of the real sweeps differs from the exact series of the model in Taylor coefficient %d (k = %d): %s'
                                 % (mism, k, label), dict(base, coefficient_index=mism, impl=[impl[mism].real, impl[mism].imag], model=float(model[mism])),
                                 match={'kind': 'sdc-series', 'sweeper': conf['kind'], 'mode': label[7]}, no_input=True)
                # (c) the model's own exact coefficients satisfy the theorem's conclusion (sanity of the tie to the theorem)
                for j in range(min(k, p) + 1):
                    if abs(model[j] - F(1, math.factorial(j))) > TOL_TABLE:
                        ck.violation('exact series coefficient %d after %d sweeps deviates from 1/%d!: %s' % (j, k, j, label),
                                     dict(base, coefficient_index=j, model=float(model[j])), match={'kind': 'sdc-order-model', 'sweeper': conf['kind']})
                        break
    ck.cov['sdc_sweeper_histogram'] = hist
    ck.cov['worst_scaled_tie_error'] = worst_tie
    ck.cov['worst_scaled_oracle_error'] = worst_or
    ck.cov['tie_tolerance'] = 1e-11
    ck.obligation('series of the Coq model evaluated for %d SDC configurations (k = 1..K each)' % len(sdc), True)

    # ------------------------------------------------------------------ 7. RK classes: real runs
    worst_rk_tie = 0.0
    for d in rks:
        c = d['cls']
        dmax = max([1.0] + [abs(d['A'][i][i]) for i in range(d['stages'])])
        r = 0.3 / dmax
        p = d['p']
        base = {'call': 'controller_nonMPI.run with sweeper_class=%s on the Dahlquist equation' % d['name'], 'class': d['name'], 'radius': r}
        try:
            if d['imex']:
                N2 = 32
                th = 2 * np.pi * np.arange(N2) / N2
                zI = (r * np.exp(1j * th))[:, None] * np.ones(N2)[None, :] / DT
                zE = np.ones(N2)[:, None] * (r * np.exp(1j * th))[None, :] / DT
                desc = dict(problem_class=imex_dahlquist, problem_params={'lamI': zI.ravel(), 'lamE': zE.ravel(), 'u0': 1.0})
            else:
                lam = r * np.exp(2j * np.pi * np.arange(NF) / NF) / DT
                desc = dict(problem_class=testequation0d, problem_params={'lambdas': lam, 'u0': 1.0})
            desc.update(sweeper_class=c, sweeper_params={}, level_params={'dt': DT, 'restol': -1}, step_params={'maxiter': 1})
            uend, sw = controller_run(desc)
            sec = np.asarray(sw.u_secondary) if d['emb'] else None
        except Exception as e:
            ck.violation('running %s on the Dahlquist equation raised %s: %s' % (d['name'], type(e).__name__, e), base,
                         match={'kind': 'rk-run', 'class': d['name']})
            continue
        ck.traces += 1
        ck.case(key=('rk-run', d['name']), nontrivial=d['stages'] >= 2, sample={'rk-run': d['name'], 'order': p, 'radius': r})
        if 'coefs' not in d:
            continue
        if d['imex']:
            def tc(R):
                C = np.fft.fft2(np.asarray(R).reshape(N2, N2)) / N2 ** 2
                return C / (r ** np.arange(N2))[:, None] / (r ** np.arange(N2))[None, :]
            co = tc(uend)
            first_or = first_mm = None
            for (a, b), cm in sorted(d['coefs'].items()):
                err = abs(co[a, b] - float(cm)) * r ** (a + b)
                worst_rk_tie = max(worst_rk_tie, err)
                if err > 1e-11 and first_mm is None:
                    first_mm = (a, b)
                if a + b <= p and abs(co[a, b] - 1.0 / (math.factorial(a) * math.factorial(b))) * r ** (a + b) > 1e-11 and first_or is None:
                    first_or = (a, b)
            if first_or:
                a, b = first_or
                ck.violation('%s: coefficient of zI^%d zE^%d of uend/u0 is %s, not 1/(%d! %d!) (documented order %d)'
                             % (d['name'], a, b, complex(co[a, b]), a, b, p), dict(base, a=a, b=b), match={'kind': 'rk-run-order', 'class': d['name']})
            elif first_mm:
                ck.violation('%s: real step differs from the tableau model in the coefficient of zI^%d zE^%d' % ((d['name'],) + first_mm),
                             dict(base, pair=first_mm), match={'kind': 'rk-run-series', 'class': d['name']}, no_input=True)
            if d['emb'] and 'coefs2' in d:
                cs = tc(sec)
                bad = [(a, b) for (a, b) in d['coefs2'] if a + b < d['q'] and abs(cs[a, b] - co[a, b]) * r ** (a + b) > 1e-11]
                if bad:
                    ck.violation('%s: uend - u_secondary has a nonzero coefficient zI^%d zE^%d although get_update_order() = %d'
                                 % (d['name'], bad[0][0], bad[0][1], d['q']), dict(base, pair=bad[0], update_order=d['q']),
                                 match={'kind': 'rk-run-embedded', 'class': d['name']})
        else:
            co = fft_coefs(uend, r, NF)
            first_or = first_mm = None
            for j, cm in enumerate([F(1)] + d['coefs']):
                err = abs(co[j] - float(cm)) * r ** j
                worst_rk_tie = max(worst_rk_tie, err)
                if err > 1e-11 and first_mm is None:
                    first_mm = j
                if j <= p and abs(co[j] - 1.0 / math.factorial(j)) * r ** j > 1e-11 and first_or is None:
                    first_or = j
            if first_or is not None:
                ck.violation('%s: Taylor coefficient %d of uend/u0 is %s, not 1/%d! (documented order %d)'
                             % (d['name'], first_or, complex(co[first_or]), first_or, p), dict(base, coefficient_index=first_or),
                             match={'kind': 'rk-run-order', 'class': d['name']})
            elif first_mm is not None:
                ck.violation('%s: real step differs from the tableau model in Taylor coefficient %d' % (d['name'], first_mm),
                             dict(base, coefficient_index=first_mm, impl=[co[first_mm].real, co[first_mm].imag]),
                             match={'kind': 'rk-run-series', 'class': d['name']}, no_input=True)
            if d['emb'] and 'coefs2' in d:
                cs = fft_coefs(sec, r, NF)
                bad = [j for j in range(d['q']) if abs(cs[j] - co[j]) * r ** j > 1e-11]
                mm2 = [j for j, cm in enumerate([F(1)] + d['coefs2']) if abs(cs[j] - float(cm)) * r ** j > 1e-11]
                if bad:
                    ck.violation('%s: uend - u_secondary has a nonzero Taylor coefficient %d although get_update_order() = %d'
                                 % (d['name'], bad[0], d['q']), dict(base, coefficient_index=bad[0], update_order=d['q']),
                                 match={'kind': 'rk-run-embedded', 'class': d['name']})
                elif mm2:
                    ck.violation('%s: u_secondary differs from the tableau model in Taylor coefficient %d' % (d['name'], mm2[0]),
                                 dict(base, coefficient_index=mm2[0]), match={'kind': 'rk-run-series', 'class': d['name']}, no_input=True)
    ck.cov['worst_scaled_rk_tie_error'] = worst_rk_tie

    # ------------------------------------------------------------------ 8. the order the step-size controller assumes
    # Real AdaptivityRK on one step: choose e_tol = 64 * estimate, take the dt_new the controller proposes and measure the
    # estimate of a step with dt_new.  If uend - u_secondary = C dt^q' with q' >= q (= update_order used by the controller),
    # then  e_new / (e_tol beta^q) = beta^(q'-q) 64^(q'/q-1) (1 + O(dt)) >= ~1;  q' = q-1 gives <= 0.5.
    from pySDC.implementations.convergence_controller_classes.adaptivity import AdaptivityRK

    def adaptive_step(cls, dt, e_tol):
        if issubclass(cls, RKm.RungeKuttaIMEX):
            pb = dict(problem_class=imex_dahlquist, problem_params={'lamI': np.array([-0.6 + 0j]), 'lamE': np.array([-0.4 + 0j]), 'u0': 1.0})
        else:
            pb = dict(problem_class=testequation0d, problem_params={'lambdas': np.array([-1.0 + 0j]), 'u0': 1.0})
        desc = dict(sweeper_class=cls, sweeper_params={}, level_params={'dt': dt, 'restol': -1}, step_params={'maxiter': 1},
                    convergence_controllers={AdaptivityRK: {'e_tol': e_tol}}, **pb)
        c = controller_nonMPI(num_procs=1, controller_params={'logger_level': 40, 'mssdc_jac': False}, description=desc)
        P = c.MS[0].levels[0].prob
        uend, _ = c.run(u0=P.u_exact(0), t0=0.0, Tend=dt)
        Lv = c.MS[0].levels[0]
        cc = [x for x in c.convergence_controllers if isinstance(x, AdaptivityRK)][0]
        est = abs(np.asarray(uend) - np.asarray(Lv.sweep.u_secondary))[0]
        return est, Lv.status.dt_new, int(cc.params.update_order), float(cc.params.beta)

    ratios = {}
    for d in rks:
        if not d['emb']:
            continue
        c = d['cls']
        try:
            dt0 = 0.02
            e0, _, q, beta = adaptive_step(c, dt0, 1.0)
            e_tol = 64 * e0
            _, dtn, q, beta = adaptive_step(c, dt0, e_tol)
            e2, _, _, _ = adaptive_step(c, dtn, 1.0)
        except Exception as e:
            ck.violation('AdaptivityRK step with %s raised %s: %s' % (d['name'], type(e).__name__, e), {'class': d['name']},
                         match={'kind': 'adaptivity-run', 'class': d['name']})
            continue
        ck.traces += 3
        ck.case(key=('adaptivity', d['name']), nontrivial=True)
        ratio = e2 / (e_tol * beta ** q)
        ratios[d['name']] = round(float(ratio), 4)
        if q != d['q']:
            ck.violation('AdaptivityRK assumes update order %d for %s but get_update_order() = %d' % (q, d['name'], d['q']),
                         {'class': d['name'], 'assumed': q, 'get_update_order': d['q']}, match={'kind': 'adaptivity-order', 'class': d['name']})
        if not (ratio > 0.75):
            ck.violation('%s with AdaptivityRK: the proposed step size does not bring the embedded estimate to e_tol*beta^q (ratio %.3f): '
                         'uend - u_secondary is of lower order than the controller assumes (q = %d)' % (d['name'], ratio, q),
                         {'call': 'controller_nonMPI + AdaptivityRK, Dahlquist lambda=-1', 'class': d['name'], 'dt': dt0, 'e_tol': e_tol,
                          'estimate_dt': e0, 'dt_new': dtn, 'estimate_dt_new': e2, 'beta': beta, 'assumed_order': q, 'ratio': float(ratio)},
                         match={'kind': 'adaptivity-order', 'class': d['name']})
    ck.cov['adaptivity_ratio_e_new_over_etol_beta_q'] = ratios
