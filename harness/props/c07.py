"""C07 — block protocol of controller_nonMPI is safe for every convergence pattern.

Proved (Coq, Props/C07.v, all closed under the global context, for EVERY number of steps, levels, maxiter,
nsweeps, predictor in {None, fine_only, pfasst_burnin}, coupling mode, all_to_done and EVERY oracle of
converged / force_done / force_continue flags): pfasst never raises (stage ControllerError, CommunicationError,
UnlockError, ... unreachable), all running steps share a stage, done steps form a prefix, a DONE step is never
touched again, every receive finds its tag, the block terminates within 2 + 5(B+1) pfasst calls, the callbacks
of each slot follow the grammar, all_to_done gives equal iteration counts.

Tie to /repo (every run): the REAL controller_nonMPI is driven by harness/scripted.py through scripted
convergence patterns; its totally ordered event trace (all user callbacks with status snapshot, predict /
update_nodes / compute_residual / compute_end_point calls, the tags written by send and expected+found by recv,
every Step.transfer) is compared EXACTLY, event by event, with the trace of the executable Coq model
(Model/Controller.v) evaluated by the Coq kernel on the same oracle table.  Exhaustive over all convergence
assignments in a bounded sub-space, sampled (with forced-stop flags, more steps/levels/sweeps) beyond it.

Implementation-side oracle (independent of the model): a trace monitor (grammar regex per slot, steps finish
in time order, nothing happens to a finished step incl. its level data, tags, iteration bound, equal niter
under all_to_done, stats niter), evaluated on every run.
"""
import itertools
import json
import multiprocessing as mp
import os
import re
import sys
import time
from concurrent.futures import ThreadPoolExecutor

from harness.common import eval_outputs, parse_coq_value

LEVEL = 'proof'
PT = {None: 'PNone', 'fine_only': 'PFineOnly', 'pfasst_burnin': 'PBurnin'}
OUTCOME_CODE = {'ok': 0, 'ControllerError': 1, 'CommunicationError': 2, 'UnlockError': 3, 'AssertionError': 4,
                'NotImplementedError': 5, 'IndexError': 6}
DT = 0.125

HOOK_CH = {'pre_step': 'S', 'pre_predict': 'P', 'post_predict': 'p', 'pre_iteration': 'I', 'pre_sweep': 'W',
           'post_sweep': 'w', 'post_iteration': 'i', 'post_step': 's'}
GRAMMAR = re.compile(r'S(Pp)?(I(Ww)+i)*s\Z')


# ----------------------------------------------------------------------------- implementation-side oracle

def monitor(cfg, masks, res):
    """Independent check of the property on one implementation trace. Returns list of (kind, detail)."""
    from harness import scripted as sc
    n, nl, mi, nsw, pt, jac, a2d, W = cfg
    bad = []
    if res.outcome != 'ok':
        bad.append(('exception', '%s: %s' % (res.outcome, res.error)))
    if not res.observer_ok:
        bad.append(('observer', 'send/recv observer could not be installed'))
    evs = sc.compared(res.events)
    hooks = {s: '' for s in range(n)}
    pending = {}      # (sender slot, level) -> [tag, payload]: sent, not yet consumed by the next step
    expect_u0 = {}    # (slot, level) -> payload just received: the next sweep/check on that level must start from it
    finished = []
    last_iter = {}
    fin_vals = {}
    for e in evs:
        k = e[0]
        if k == 'observer_error':
            bad.append(('observer', e[1]))
            continue
        slot = e[2] if k == 'hook' else e[1]
        if slot in finished:
            bad.append(('frame', 'event %s for slot %d after its post_step' % (sc.show(e), slot)))
        if k == 'hook':
            hooks[slot] = hooks.get(slot, '') + HOOK_CH[e[1]]
            last_iter[slot] = e[4]
            if e[1] == 'post_step':
                if finished and slot < finished[-1] or any(s not in finished for s in range(slot)):
                    bad.append(('done_prefix', 'slot %d finished before an earlier slot (finished so far %s)' % (slot, finished)))
                if not e[7]:
                    bad.append(('done_flag', 'post_step of slot %d with status.done False' % slot))
                finished.append(slot)
                fin_vals[slot] = (e[4], e[9]['u'])
        elif k == 'send':
            lvl, tag = e[2], e[3]
            if tag != (lvl, last_iter.get(slot, 0), slot):
                bad.append(('tag', 'send on slot %d level %d wrote tag %s' % (slot, lvl, tag)))
            # every forward transfer is consumed: the previous message of this (step, level) must have been received
            if (slot, lvl) in pending:
                bad.append(('unconsumed_send', 'message %s sent by slot %d on level %d was never received by slot %d '
                            '(next send %s)' % (pending[(slot, lvl)][0], slot, lvl, slot + 1, tag)))
            pending[(slot, lvl)] = [tag, None]
        elif k == 'endpt':
            if (slot, e[2]) in pending and pending[(slot, e[2])][1] is None and len(e) > 3:
                pending[(slot, e[2])][1] = e[3]
        elif k == 'transfer':
            if e[2] < e[3]:
                expect_u0.pop((slot, e[3]), None)      # restriction overwrites u[0] of the coarser level
        elif k in ('sweep', 'resid'):
            lvl = e[2]
            u0 = e[3] if k == 'sweep' else (e[4] if len(e) > 4 else None)
            if (slot, lvl) in expect_u0 and (k == 'sweep' or e[3] == 'IT_CHECK'):
                want = expect_u0.pop((slot, lvl))
                if u0 is not None and want is not None and u0 != want:
                    bad.append(('stale_u0', 'slot %d level %d works on u[0] = %r after receiving %r' % (slot, lvl, u0, want)))
        elif k == 'recv':
            lvl, tag, found = e[2], e[3], e[4]
            if tag != found:
                bad.append(('tag', 'recv on slot %d level %d expected %s found %s' % (slot, lvl, tag, found)))
            if tag[0] != lvl or tag[2] != slot - 1 or tag[1] != last_iter.get(slot, 0):
                bad.append(('tag', 'recv on slot %d level %d expects tag %s' % (slot, lvl, tag)))
            msg = pending.pop((slot - 1, lvl), None)
            payload = e[5] if len(e) > 5 else None
            if msg is None:
                bad.append(('recv_without_send', 'slot %d receives on level %d (tag %s) but slot %d has no unconsumed message '
                            'on that level' % (slot, lvl, tag, slot - 1)))
            elif msg[0] != tag or (msg[1] is not None and payload is not None and msg[1] != payload):
                bad.append(('recv_wrong_payload', 'slot %d level %d consumed %s/%r, last sent was %s/%r'
                            % (slot, lvl, tag, payload, msg[0], msg[1])))
            expect_u0[(slot, lvl)] = payload
    if res.outcome == 'ok':
        for s in range(n):
            if not GRAMMAR.match(hooks.get(s, '')):
                bad.append(('grammar', 'slot %d: %s' % (s, hooks.get(s, ''))))
        if sorted(finished) != list(range(n)):
            bad.append(('termination', 'finished slots %s' % finished))
        for (sl, lvl), msg in sorted(pending.items()):
            bad.append(('unconsumed_send', 'message %s sent by slot %d on level %d was never received by slot %d'
                        % (msg[0], sl, lvl, sl + 1)))
        # iteration bound: nothing forces continuation from max(maxiter, W) on
        B = max(mi, W)
        for s, (it, _) in fin_vals.items():
            if it > B:
                bad.append(('iter_bound', 'slot %d finished with iter %d > %d' % (s, it, B)))
        if a2d and len({it for it, _ in fin_vals.values()}) > 1:
            bad.append(('all_to_done', 'niter %s' % {s: it for s, (it, _) in fin_vals.items()}))
        # a step finishes only when its own stopping criterion holds (under all_to_done: when everybody's does)
        cv, fd, fc = masks
        def bit(m, s, i):
            return i < W and (m >> (s * W + i)) & 1
        def raw(s, k):
            forced = any(bit(fd, s, i) for i in range(k + 1))
            return (k >= mi or bit(cv, s, k) or forced) and not bit(fc, s, k)
        for s, (it, _) in fin_vals.items():
            who = range(n) if a2d else [s]
            if not all(raw(x, it) for x in who):
                bad.append(('premature_done', 'slot %d finished at iteration %d although %s' % (
                    s, it, 'not every step met its stopping criterion' if a2d else 'its stopping criterion is not met')))
        # frame on the data: level values of a finished step are those it had at post_step
        for s, (it, u) in fin_vals.items():
            st = res.steps[s]
            if st['u'] != u or st['iter'] != it or st['stage'] != 'DONE' or not st['done']:
                bad.append(('frame', 'slot %d changed after post_step' % s))
        # stats
        try:
            from pySDC.helpers.stats_helper import get_sorted
            nit = sorted(get_sorted(res.stats, type='niter', sortby='time'))
            want = sorted((res.steps[s]['time'], fin_vals[s][0]) for s in fin_vals)
            if [v for _, v in nit] != [v for _, v in want]:
                bad.append(('stats_niter', 'stats %s vs post_step %s' % (nit, want)))
        except Exception as ex:  # stats machinery failing is a finding, not a crash
            bad.append(('stats_niter', 'get_sorted failed: %r' % ex))
    return bad


# ----------------------------------------------------------------------------- worker (one process per task batch)

def masks_to_script(n, W, cv, fd, fc):
    from harness.scripted import Script
    def tab(m):
        return {(0, s, i): True for s in range(n) for i in range(W) if (m >> (s * W + i)) & 1}
    return Script(conv=tab(cv), force_done=tab(fd), force_cont=tab(fc))


def run_task(task):
    """task = (cfg, [ (cv, fd, fc), ... ]) -> (cfg, groups, problems, nreads)
    groups: {trace_tuple: (code, [masks...])}; problems: list of (masks, kind, detail)."""
    import logging
    from harness import scripted as sc
    cfg, mask_list = task
    n, nl, mi, nsw, pt, jac, a2d, W = cfg
    groups = {}
    problems = []
    ctrl = None
    paths = set()
    for masks in mask_list:
        if ctrl is None:
            ctrl, rec = sc.make_controller(n, nl, mi, nsw, pt, jac, a2d, dt=DT)
        script = masks_to_script(n, W, *masks)
        res = sc.run_scripted(ctrl, rec, script, 0.0, DT * n)
        try:
            trace = tuple(sc.encode_events(res.events))
        except Exception as ex:
            trace = ()
            problems.append((masks, 'encode', repr(ex)))
        code = OUTCOME_CODE.get(res.outcome, 9)
        g = groups.setdefault((code, trace), [])
        g.append(masks)
        for kind, detail in monitor(cfg, masks, res):
            problems.append((masks, kind, detail))
        paths.add(tuple(script.reads))
        if res.outcome != 'ok':
            ctrl = None   # do not reuse a controller after an exception
    return cfg, [(k[0], list(k[1]), v) for k, v in groups.items()], problems, len(paths)


# ----------------------------------------------------------------------------- case generation

def level_sweeps(nl, nsw0, nswmid=1):
    return [nsw0] + [nswmid] * (nl - 2) + ([1] if nl > 1 else [])


def exhaustive_tasks(thorough):
    tasks = []
    space = []
    if not thorough:
        ns, nls, mis, sws = (1, 2, 3), (1, 2), (1, 2, 3), (1, 2)
    else:
        ns, nls, mis, sws = (1, 2, 3, 4), (1, 2, 3), (1, 2, 3, 4), (1, 2)
    for n, nl, mi, s0 in itertools.product(ns, nls, mis, sws):
        if thorough and (n * mi > 12 or (nl == 3 and n * mi > 9)):
            continue  # (4,4) and the large 3-level tables: handled separately on a subset of configurations
        mids = (1, 2) if (nl > 2 and thorough) else (1,)
        for mid in mids:
            nsw = level_sweeps(nl, s0, mid)
            pts = (None, 'fine_only', 'pfasst_burnin') if nl > 1 else (None,)
            jacs = (True, False) if nl == 1 else (True,)
            for pt, jac, a2d in itertools.product(pts, jacs, (False, True)):
                cfg = (n, nl, mi, tuple(nsw), pt, jac, a2d, mi)
                tasks.append((cfg, [(m, 0, 0) for m in range(1 << (n * mi))]))
                space.append(cfg)
    if not thorough:
        # a small 3-level sub-space (mid-level sweeps and transfers of it_down / it_up) also in the quick tier
        for n, mi, mid, pt, a2d in itertools.product((2, 3), (1, 2), (1, 2), (None, 'fine_only', 'pfasst_burnin'), (False, True)):
            cfg = (n, 3, mi, tuple(level_sweeps(3, 1, mid)), pt, True, a2d, mi)
            tasks.append((cfg, [(m, 0, 0) for m in range(1 << (n * mi))]))
            space.append(cfg)
    if thorough:
        for nl, pt, jac, a2d in [(2, 'pfasst_burnin', True, False)]:
            cfg = (4, nl, 4, tuple(level_sweeps(nl, 1)), pt, jac, a2d, 4)
            allm = [(m, 0, 0) for m in range(1 << 16)]
            for i in range(0, len(allm), 4096):
                tasks.append((cfg, allm[i:i + 4096]))
            space.append(cfg)
    return tasks, space


def forced_tasks(thorough):
    """exhaustive over all (converged, force_done, force_continue) tables for n<=2, maxiter=2, width 2"""
    tasks = []
    for n in (1, 2):
        for nl in (1, 2):
            pts = (None, 'pfasst_burnin') if nl > 1 else (None,)
            jacs = (True, False) if nl == 1 else (True,)
            for pt, jac, a2d in itertools.product(pts, jacs, (False, True)):
                cfg = (n, nl, 2, tuple(level_sweeps(nl, 1)), pt, jac, a2d, 2)
                bits = n * 2
                allm = [(a, b, c) for a in range(1 << bits) for b in range(1 << bits) for c in range(1 << bits)]
                if not thorough and n == 2:
                    # quick: force tables restricted to one flag table at a time being non-zero plus a sample
                    allm = [m for m in allm if m[1] == 0 or m[2] == 0]
                for i in range(0, len(allm), 1024):
                    tasks.append((cfg, allm[i:i + 1024]))
    return tasks


def sampled_tasks(rng, count, thorough):
    tasks = []
    for _ in range(count):
        n = rng.randint(1, 6 if thorough else 5)
        nl = rng.randint(1, 4)
        mi = rng.randint(1, 6 if thorough else 5)
        nsw = [rng.randint(1, 3)] + [rng.randint(1, 2) for _ in range(nl - 2)] + ([1] if nl > 1 else [])
        pt = rng.choice([None, 'fine_only', 'pfasst_burnin'])
        if nl == 1:
            pt = rng.choice([None, None, 'pfasst_burnin'])   # ignored by the controller on a single level
        jac = rng.random() < 0.5
        a2d = rng.random() < 0.3
        W = mi + rng.randint(0, 2)
        cfg = (n, nl, mi, tuple(nsw), pt, jac, a2d, W)
        ml = []
        for _ in range(4):
            pc = rng.choice([0.15, 0.4, 0.7])
            cv = sum(1 << b for b in range(n * W) if rng.random() < pc)
            fd = sum(1 << b for b in range(n * W) if rng.random() < rng.choice([0, 0, 0.1]))
            fc = sum(1 << b for b in range(n * W) if rng.random() < rng.choice([0, 0.1, 0.3]))
            ml.append((cv, fd, fc))
        tasks.append((cfg, ml))
    return tasks


# ----------------------------------------------------------------------------- Coq side

def coq_cfg(cfg):
    n, nl, mi, nsw, pt, jac, a2d, W = cfg
    if nl == 1:
        ptc = PT.get(pt, 'POther')   # never looked at on a single level
    else:
        ptc = PT[pt]
    return '(mkCfg %d %d [%s]%%nat %s %s %s)' % (nl, mi, ';'.join(str(x) for x in nsw), ptc,
                                                   'true' if jac else 'false', 'true' if a2d else 'false')


HEADER = '''From Coq Require Import List ZArith Bool.
From PySDC Require Import Model.Controller.
Import ListNotations.
Open Scope Z_scope.
Definition chk (c : cfg) (n W : nat) (code : nat) (T : list Z) (m : Z * Z * Z) : bool :=
  let '(cv, fd, fc) := m in
  let r := outcome_code (run_model c (bit_oracle W cv fd fc) n (fuel_for (Nat.max (maxiter c) W))) in
  if Nat.eqb (fst r) code then zlist_eqb (snd r) T else false.
Definition bad (c : cfg) (n W : nat) (code : nat) (T : list Z) (ms : list (Z * Z * Z)) : list (Z * Z * Z) :=
  filter (fun m => negb (chk c n W code T m)) ms.
'''


def write_shard(ck, idx, items):
    """items: list of (cfg, code, trace, masks), sorted by trace. Traces are front-coded: each distinct trace is
    written as (common prefix with the previous one) ++ suffix, so that Coq parses few numerals. Returns path."""
    lines = [HEADER]
    traces = {}
    prev = None
    for cfg, code, trace, masks in items:
        key = tuple(trace)
        if key in traces:
            continue
        name = 'T%d' % len(traces)
        traces[key] = name
        if prev is None:
            lines.append('Definition %s : list Z := [%s].' % (name, ';'.join(hex(x) for x in key)))
        else:
            pk, pname = prev
            p = 0
            while p < len(pk) and p < len(key) and pk[p] == key[p]:
                p += 1
            lines.append('Definition %s : list Z := firstn %d%%nat %s ++ [%s].'
                         % (name, p, pname, ';'.join(hex(x) for x in key[p:])))
        prev = (key, name)
    exprs = []
    for cfg, code, trace, masks in items:
        n, W = cfg[0], cfg[7]
        ml = ';'.join('(%d,%d,%d)' % m for m in masks)
        exprs.append('bad %s %d %d %d %s [%s]' % (coq_cfg(cfg), n, W, code, traces[tuple(trace)], ml))
    lines.append('Definition results : list (list (Z * Z * Z)) := [\n' + ';\n'.join(exprs) + '].')
    lines.append('Eval vm_compute in (map (fun l => match l with [] => [] | x :: _ => [x] end) results).')
    lines.append('Example all_ok : forallb (fun l => match l with [] => true | _ => false end) results = true.')
    lines.append('Proof. vm_compute. reflexivity. Qed.')
    return ck.write_gen('Cases_%03d.v' % idx, '\n'.join(lines) + '\n')


def model_trace(ck, cfg, masks):
    """Ask Coq for the model's outcome code and per-event codes of one case (diagnosis only)."""
    n, W = cfg[0], cfg[7]
    txt = ('From Coq Require Import List ZArith Bool.\nFrom PySDC Require Import Model.Controller.\nImport ListNotations.\n'
           'Open Scope Z_scope.\nEval vm_compute in (outcome_code (run_model %s (bit_oracle %d %d %d %d) %d (fuel_for (Nat.max %d %d)))).\n'
           % (coq_cfg(cfg), W, masks[0], masks[1], masks[2], n, cfg[2], W))
    path = ck.write_gen('Diag_%d.v' % (abs(hash((cfg, masks))) % 100000), txt)
    rc, out = ck.coqc(path)
    try:
        v = parse_coq_value(eval_outputs(out)[0])
        return v[0], list(v[1])
    except Exception:
        return None, None


def run(ck):
    thorough = ck.tier == 'thorough'
    rng = ck.rng
    ck.rule = ('a case = (num_procs, levels, maxiter, nsweeps per level, predict_type, mssdc_jac, all_to_done) x tables of '
               'converged / force_done / force_continue flags per (slot, iteration); exhaustive sub-space: ALL converged-tables '
               'for the listed configurations, all three tables for n<=2, maxiter=2; sampled: random configurations up to '
               '6 steps, 4 levels, maxiter 6, 3 sweeps with random tables. Distinct = distinct (configuration, implementation '
               'trace); non-trivial = more than one step or a step finishing before maxiter')
    ck.check_props(required=['C07_pfasst_never_raises', 'C07_run_never_raises', 'C07_lockstep', 'C07_done_prefix',
                             'C07_done_frame', 'C07_tags_match', 'C07_block_terminates', 'C07_callback_grammar',
                             'C07_all_to_done_equal_niter'])

    replay = getattr(ck, 'replay_file', None)
    if replay:
        rp = json.load(open(replay))['replay']
        cfg = tuple(tuple(x) if isinstance(x, list) else x for x in rp['cfg'])
        tasks = [(cfg, [tuple(rp['masks'])])]
        ex_tasks, space, f_tasks, s_tasks = tasks, [], [], []
    else:
        ex_tasks, space = exhaustive_tasks(thorough)
        f_tasks = forced_tasks(thorough)
        s_tasks = sampled_tasks(rng, 400 if thorough else 150, thorough)
        tasks = ex_tasks + f_tasks + s_tasks
    ck.log('%d task batches, %d runs' % (len(tasks), sum(len(t[1]) for t in tasks)))

    # ---- implementation runs (process pool; every process imports pySDC once)
    tasks_sorted = sorted(range(len(tasks)), key=lambda i: -len(tasks[i][1]))
    ctx = mp.get_context('fork')
    t0 = time.time()
    with ctx.Pool(min(16, os.cpu_count() or 4)) as pool:
        results = pool.map(run_task, [tasks[i] for i in tasks_sorted], chunksize=1)
    ck.log('implementation runs done in %.1fs' % (time.time() - t0))

    # ---- collect
    items = []          # (cfg, code, trace, masks)
    nruns = 0
    problems = []
    npaths = 0
    hist = {'n': {}, 'levels': {}, 'maxiter': {}, 'predict': {}, 'outcome': {}}
    for cfg, groups, probs, paths in results:
        npaths += paths
        for code, trace, masks in groups:
            items.append((cfg, code, trace, masks))
            nruns += len(masks)
            nontrivial = cfg[0] > 1 or len(trace) > 0
            ck.evaluations += len(masks) - 1
            ck.case(key=(cfg, hash(tuple(trace))), nontrivial=nontrivial,
                    sample={'cfg': cfg, 'masks': masks[0], 'events': len(trace), 'outcome_code': code})
            for k, v in (('n', cfg[0]), ('levels', cfg[1]), ('maxiter', cfg[2]), ('predict', str(cfg[4])), ('outcome', code)):
                hist[k][v] = hist[k].get(v, 0) + len(masks)
        for masks, kind, detail in probs:
            problems.append((cfg, masks, kind, detail))
    ck.traces = nruns
    ck.cov['input_histogram'] = hist
    ck.cov['exhaustive'] = bool(space) and not replay
    ck.cov['exhaustive_subspace'] = {
        'configurations': len(space),
        'description': ('all 2^(num_procs*maxiter) converged-tables for num_procs<=%d, levels<=%d, maxiter<=%d, nsweeps[0]<=2 '
                        'x predictor types x mssdc_jac x all_to_done%s; all (converged, force_done, force_continue) tables for '
                        'num_procs<=2, maxiter=2%s'
                        % ((4, 3, 4, ' (16-bit tables (4 steps x 4 iterations) on 1 configuration, 3-level configurations up to 9-bit tables)', '') if thorough else
                           (3, 2, 3, ' + 3 levels for num_procs<=3, maxiter<=2', ' (num_procs=2: at most one force table non-zero)'))),
        'runs': sum(len(t[1]) for t in ex_tasks + f_tasks)}
    ck.cov['distinct_decision_paths_read_by_impl'] = npaths

    # ---- implementation-side oracle verdicts
    seen = set()
    for cfg, masks, kind, detail in problems:
        key = (kind, cfg[1] > 1, cfg[6])
        if key in seen or len(seen) >= 12:
            continue
        seen.add(key)
        ck.violation('block protocol violated (%s): %s' % (kind, detail),
                     {'cfg': cfg, 'masks': masks, 'kind': kind, 'detail': detail},
                     match={'kind': kind, 'predict_type': str(cfg[4]), 'levels': cfg[1], 'all_to_done': cfg[6]})
    ck.obligation('implementation-side trace monitor on %d runs' % nruns, not problems,
                  '%d findings' % len(problems), kind='oracle')

    # ---- model correspondence, evaluated by the Coq kernel
    items.sort(key=lambda x: (tuple(x[2]), x[0][:3]))
    # cost model: numerals to parse (front-coded suffixes) + model evaluations
    costs = []
    prev = None
    for it in items:
        key = tuple(it[2])
        if prev is None or key != prev:
            p = 0
            if prev is not None:
                while p < len(prev) and p < len(key) and prev[p] == key[p]:
                    p += 1
            c = len(key) - p
        else:
            c = 0
        prev = key
        costs.append(c + 0.3 * len(it[3]) * (1 + len(key) / 100.0))
    total = sum(costs) or 1
    nshards = max(1, min(32, int(total / 4000) + 1))
    shards, cur, acc = [], [], 0.0
    for it, c in zip(items, costs):
        cur.append(it)
        acc += c
        if acc >= total / nshards and len(shards) < nshards - 1:
            shards.append(cur)
            cur, acc = [], 0.0
    if cur:
        shards.append(cur)
    paths = [write_shard(ck, i, sh) for i, sh in enumerate(shards)]
    t0 = time.time()
    with ThreadPoolExecutor(max_workers=16) as ex:
        outs = list(ex.map(lambda p: ck.coqc(p, timeout=2400), paths))
    ck.log('%d Coq shards evaluated in %.1fs' % (len(paths), time.time() - t0))
    mismatches = []
    for sh, (rc, out) in zip(shards, outs):
        vals = eval_outputs(out)
        if rc != 0 and not vals:
            ck.obligation('correspondence shard', False, out[-800:])
            ck.violation('Coq could not evaluate a correspondence shard', {'log': out[-3000:]},
                         match={'kind': 'shard-failed'}, no_input=True)
            continue
        res = parse_coq_value(vals[0])
        ok = True
        for it, r in zip(sh, res):
            if r:
                ok = False
                m = r[0]
                mismatches.append((it, tuple(int(x) for x in m)))
        ck.obligation('model trace = implementation trace (%d groups, %d runs)' % (len(sh), sum(len(i[3]) for i in sh)),
                      ok and rc == 0, '' if ok else 'mismatch', kind='correspondence')
    problem_keys = {(cfg, masks) for cfg, masks, _, _ in problems}
    for (cfg, code, trace, masks), m in mismatches[:5]:
        mcode, mtrace = model_trace(ck, cfg, m)
        first = None
        if mtrace is not None:
            first = next((i for i, (a, b) in enumerate(zip(mtrace, trace)) if a != b), min(len(mtrace), len(trace)))
        oracle_failed = any(c == cfg for c, _, _, _ in problems)
        ck.violation('model and implementation traces differ (impl outcome code %d, model %s, first difference at event %s of %d/%s)'
                     % (code, mcode, first, len(trace), None if mtrace is None else len(mtrace)),
                     {'cfg': cfg, 'masks': m, 'impl_outcome_code': code, 'model_outcome_code': mcode, 'first_diff_event': first},
                     match={'kind': 'correspondence', 'predict_type': str(cfg[4]), 'levels': cfg[1]},
                     no_input=not oracle_failed)
