"""C19 — runs are reproducible, re-entrant and composable at block boundaries.

Coq side (Props/C19.v): split_compose (law-free time loop, valid for IEEE doubles), its refutation
without the boundary-time premise, the frame/initialisation theorem for reset_stats + restart_block,
rerun_equal (+ the two refutations: stale inactive steps, sweeper RNG), two_controllers_independent
(+ the class-counter exception).

Tie, every run, on seeded configurations executed by the REAL controller_nonMPI in separate processes:
  * the PrimFloat instance of the Coq time loop reproduces the (slot, start, dt) sequence of every real
    run bit for bit (kernel-evaluated), and for every split the Coq model evaluates premises (a), (b)
    and the conclusion of split_compose on the actual numbers;
  * the Coq model of reset_stats / restart_block applied to the (poisoned) snapshot of the real
    controller equals, field by field, the snapshot the real controller has in the post_setup hook.
Oracle (implementation side, bytes): fresh-controller repeat (fresh and shared description dicts),
same-controller repeat (plain, poisoned persistent state, after a different run), a short run on a
used controller vs on a fresh one, split at every block boundary continued on a fresh and on the same
controller, interleavings of 2-3 differently configured controllers in one process vs each alone in
its own process, LogToPickleFile file names alone vs interleaved.
"""
import concurrent.futures as cf
import json
import os
import subprocess

from harness import c19_lib as L
from harness.common import REPO, VERIF, PY, coq_list, eval_outputs, parse_coq_value

LEVEL = 'proof'
NONE = -999999


# ---------------------------------------------------------------------------------------- workers

def work(sc, timeout=120):
    env = dict(os.environ, PYTHONPATH=REPO + ':' + VERIF, PYTHONHASHSEED='0', OMP_NUM_THREADS='1', OPENBLAS_NUM_THREADS='1',
               MKL_NUM_THREADS='1', PYTHONDONTWRITEBYTECODE='1')
    try:
        p = subprocess.run([PY, '-m', 'harness.c19_lib'], input=json.dumps(sc), capture_output=True, text=True, env=env,
                           cwd=VERIF, timeout=timeout)
    except subprocess.TimeoutExpired:
        return {'crash': 'timeout'}
    if '@@C19RESULT@@' not in p.stdout:
        return {'crash': (p.stderr or p.stdout)[-1500:]}
    return json.loads(p.stdout.split('@@C19RESULT@@')[1])


# ---------------------------------------------------------------------------------------- comparison helpers

def rec_equal(a, b, fields=('uend', 'stats', 'steps')):
    if a.get('error') or b.get('error'):
        return False
    return all(a.get(f) == b.get(f) for f in fields)


def stats_diff(a, b, limit=4):
    A = {json.dumps(k): v for k, v in a}
    B = {json.dumps(k): v for k, v in b}
    return {'only_first': [k for k in A if k not in B][:limit], 'only_second': [k for k in B if k not in A][:limit],
            'different_value': [k for k in A if k in B and A[k] != B[k]][:limit],
            'n_only_first': sum(1 for k in A if k not in B), 'n_only_second': sum(1 for k in B if k not in A),
            'n_different': sum(1 for k in A if k in B and A[k] != B[k])}


def brief(rec):
    return {'t0': rec.get('t0'), 'Tend': rec.get('Tend'), 'error': rec.get('error'), 'uend': (rec.get('uend') or '')[:64],
            'nstats': len(rec.get('stats', [])), 'steps': [s[:5] for s in rec.get('steps', [])][:24]}


def describe_diff(a, b):
    d = {'first': brief(a), 'second': brief(b), 'uend_equal': a.get('uend') == b.get('uend'),
         'steps_equal': [s[:5] for s in a.get('steps', [])] == [s[:5] for s in b.get('steps', [])]}
    if not a.get('error') and not b.get('error'):
        d['stats'] = stats_diff(a['stats'], b['stats'])
    return d


SPLIT_SKIP_TYPES = ('e_global_post_run', 'e_global_rel_post_run')


def union_stats(r1, r2, skip=()):
    m = {}
    for k, v in r1['stats'] + r2['stats']:
        if k[6] in skip:
            continue
        m[json.dumps(k)] = v
    return m


def full_stats(r, skip=()):
    return {json.dumps(k): v for k, v in r['stats'] if k[6] not in skip}


# ---------------------------------------------------------------------------------------- Coq literals

def fl(h):
    """Coq primitive float literal from a Python float.hex() string."""
    return '(%s)%%float' % h


def vlit(v):
    if v is None:
        return 'None'
    return '(Some %s%%Z)' % (('(%d)' % v) if v < 0 else str(v))


def plit(b):
    return '(Some tt)' if b else 'None'


class Names:
    def __init__(self):
        self.m = {}

    def code(self, name):
        return self.m.setdefault(name, len(self.m) + 1)


def ctrl_term(snap, names, nbufs=0):
    steps = []
    for S in snap['steps']:
        st = S['status'] + S['extra']
        lv = []
        for Lv in S['levels']:
            d = Lv['data']
            ext = coq_list(['%d%%Z' % names.code(n) for n in Lv['extra']])
            lstat = '(mkLStat %s %s)' % (' '.join(vlit(x) for x in Lv['status']), ext)
            ldata = '(mkLData %s %s %s %s %s %s)' % (plit(d['uend']), coq_list([plit(x) for x in d['u']]), coq_list([plit(x) for x in d['uold']]),
                                                     coq_list([plit(x) for x in d['f']]), coq_list([plit(x) for x in d['fold']]),
                                                     coq_list([plit(x) for x in d['tau']]))
            lv.append('(mkLev %s %s %s %s %d)' % (lstat, ldata, vlit(Lv['tag']), coq_list([plit(x) for x in d['keep']]), Lv['nn']))
        prev = 'None' if S['prev'] is None else '(Some %d)' % S['prev']
        steps.append('(mkStp (mkSStat %s) %s %s)' % (' '.join(vlit(x) for x in st), coq_list(lv), prev))
    hooks = ['(mkHook %s None None)' % coq_list(['(0%Z, 0%Z)'] * n) for _, n in snap['hooks']]
    return '(mkCtrl %s %s [] 0%%Z : Ctrl unit)' % (coq_list(steps), coq_list(hooks))


def flat_snapshot(snap, names):
    """Python mirror of Coq's flat_ctrl."""
    def z(v):
        return NONE if v is None else v
    steps = []
    for S in snap['steps']:
        st = [z(x) for x in S['status'] + S['extra']] + [z(S['prev'])]
        lv = []
        for Lv in S['levels']:
            d = Lv['data']
            bits = [int(d['uend'])] + [int(x) for x in d['u'] + d['uold'] + d['f'] + d['fold'] + d['tau'] + d['keep']]
            lv.append(([z(x) for x in Lv['status']] + [z(Lv['tag'])] + [Lv['nn']], [names.code(n) for n in Lv['extra']], bits))
        steps.append((st, lv))
    return (steps, [n for _, n in snap['hooks']])


def tolist(x):
    if isinstance(x, (list, tuple)):
        return [tolist(y) for y in x]
    return x


# ---------------------------------------------------------------------------------------- the check

def run(ck):
    rng = ck.rng
    thorough = ck.tier == 'thorough'
    ck.rule = ('seeded configurations: sweeper family (generic_implicit, imex_1st_order, explicit, 13 Runge-Kutta schemes) x problem '
               '(testequation0d, heatNd_unforced/forced, advectionNd, vanderpol; mesh data) x 1-2 levels x 1-4 steps x QDelta x initial_guess '
               '(incl. random) x extra hooks x extra convergence controllers x (t0, dt, number of blocks, partial last block); a case is '
               'distinct by its full configuration + interval and non-trivial when the run has >= 2 blocks')
    ck.check_props(required=['C19_split_compose_partial', 'C19_split_compose_refuted', 'C19_run_entry_frame', 'C19_rerun_equal',
                             'C19_rerun_equal_after_history', 'C19_two_controllers_independent', 'C19_rerun_equal_refuted_stale_inactive',
                             'C19_rerun_equal_refuted_rng', 'C19_two_controllers_refuted_class_counter', 'C19_shared_description_frame'])

    findings = {}     # json(match) -> {'what', 'match', 'examples': [...], 'count', 'no_input'}

    def report(what, match, example, no_input=False):
        key = json.dumps(match, sort_keys=True)
        f = findings.setdefault(key, {'what': what, 'match': match, 'examples': [], 'count': 0, 'no_input': no_input})
        f['count'] += 1
        f['no_input'] = f['no_input'] and no_input
        if len(f['examples']) < 3:
            f['examples'].append(example)

    # ------------------------------------------------------------------ scenarios
    ncase = 64 if thorough else 22
    cases = []
    families = ['sdc_test', 'sdc_heat', 'imex_heat', 'sdc_adv', 'sdc_vdp', 'explicit', 'rk', 'rk_imex', 'ml_heat', 'ml_imex', 'ml_test', 'ml_adv']
    for i in range(ncase):
        c = L.gen_config(rng, fixed_step=True, family=families[i % len(families)] if i < 2 * len(families) else None)
        if i % 5 == 3:
            c['P'] = rng.choice([3, 4]) if not c['family'].startswith('rk') else c['P']
        t0 = rng.choice(L.T0S)
        nb = rng.randint(2, 3)
        extra = rng.choice([0, 0, 1]) if c['P'] > 1 else 0
        Tend = t0 + (nb * c['P'] + extra) * c['dt']
        t_other = t0 + rng.choice([0.25, 0.0, 1.5])
        cases.append({'kind': 'case', 'cfg': c, 'seed': rng.randrange(1 << 30), 't0': L.fhex(t0), 'Tend': L.fhex(Tend),
                      'scale': rng.choice([1.0, 0.5, 1.25]), 't_other': L.fhex(t_other),
                      'T_other': L.fhex(t_other + rng.randint(1, c['P']) * c['dt'])})
    # sweep-dependent preconditioners with several sweeps per iteration, several steps and a partially filled last block
    # (the sweepers' QI tables are state that survives a run); the last one is the Gauss-Seidel variant
    nk = 6 if thorough else 3
    for i in range(nk):
        c = L.gen_config(rng, fixed_step=True, allow_random=False, family=rng.choice(['sdc_test', 'sdc_heat', 'sdc_adv', 'sdc_vdp']))
        gs = (i == nk - 1)
        c.update(levels=1, QI=L.KDEP_QI[(i + ck.seed) % len(L.KDEP_QI)], nsweeps=rng.choice([2, 3]), P=rng.choice([2, 3, 4]), mssdc_jac=not gs, ccs=[],
                 hooks=sorted(set(c['hooks']) - {'LogEmbeddedErrorEstimate', 'LogExtrapolationErrorEstimate'}), maxiter=rng.choice([2, 3]), fixed_step=True)
        t0 = rng.choice(L.T0S)
        Tend = t0 + (rng.randint(1, 2) * c['P'] + rng.randint(1, c['P'] - 1)) * c['dt']
        cases.append({'kind': 'case', 'cfg': c, 'seed': rng.randrange(1 << 30), 't0': L.fhex(t0), 'Tend': L.fhex(Tend), 'scale': rng.choice([1.0, 0.5]),
                      't_other': L.fhex(t0 + 0.25), 'T_other': L.fhex(t0 + 0.25 + rng.randint(1, c['P']) * c['dt'])})
    ninter = 12 if thorough else 4
    inters = []
    alone = []
    for i in range(ninter):
        k = rng.choice([2, 3])
        cfgs = [L.gen_config(rng, fixed_step=(j != 0), allow_random=True) for j in range(k)]
        runs = []
        for c in cfgs:
            rr = []
            for _ in range(2):
                t0 = rng.choice(L.T0S)
                rr.append({'t0': L.fhex(t0), 'Tend': L.fhex(t0 + (rng.randint(1, 2) * c['P'] + rng.choice([0, 1])) * c['dt']), 'scale': rng.choice([1.0, 0.5])})
            runs.append(rr)
        # events: creations and runs interleaved at random; a controller is created before its first run
        pending = [[('create', j)] + [('run', j, r) for r in range(2)] for j in range(k)]
        events = []
        while any(pending):
            j = rng.choice([j for j in range(k) if pending[j]])
            events.append(list(pending[j].pop(0)))
        inters.append({'kind': 'interleave', 'cfgs': cfgs, 'runs': runs, 'events': events})
        for j in range(k):
            alone.append((i, j, {'kind': 'alone', 'cfg': cfgs[j], 'runs': runs[j]}))
    # LogToPickleFile (class-level counter)
    pk_cfg = L.gen_config(rng, family='sdc_test')
    pk_cfg.update(P=1, hooks=[], ccs=[], guess='spread', fixed_step=True)
    pk_cfg2 = dict(pk_cfg, dt=0.05)
    pk_runs = [[{'t0': L.fhex(0.0), 'Tend': L.fhex(3 * pk_cfg['dt']), 'scale': 1.0}] * 2, [{'t0': L.fhex(0.0), 'Tend': L.fhex(2 * 0.05), 'scale': 1.0}]]
    pk_alone = {'kind': 'pickle', 'path': os.path.join(ck.gen, 'pickle_alone'), 'cfgs': [pk_cfg, pk_cfg2], 'runs': pk_runs,
                'events': [['create', 0], ['run', 0, 0], ['run', 0, 1]]}
    pk_inter = {'kind': 'pickle', 'path': os.path.join(ck.gen, 'pickle_inter'), 'cfgs': [pk_cfg, pk_cfg2], 'runs': pk_runs,
                'events': [['create', 0], ['create', 1], ['run', 1, 0], ['run', 0, 0], ['run', 0, 1]]}

    # caller-owned dicts: controller B built from the SAME description / controller_params objects used for A before, one key edited
    def base_cfg(fam, **kw):
        c = L.gen_config(rng, fixed_step=True, allow_random=False, family=fam)
        c.update(levels=1, ccs=[], hooks=sorted(set(c['hooks']) - {'LogEmbeddedErrorEstimate', 'LogExtrapolationErrorEstimate', 'LogStepSize'}), fixed_step=True)
        if isinstance(c.get('nvars'), list):
            c['nvars'] = c['nvars'][0]
        c.update(kw)
        return c
    sdc = ['sdc_test', 'sdc_heat', 'sdc_adv']
    pairs = [(base_cfg(rng.choice(sdc), quad='GAUSS'), ['quad', 'RADAU-RIGHT']),
             (base_cfg('imex_heat', quad='RADAU-LEFT'), ['quad', 'LOBATTO']),
             (base_cfg(rng.choice(sdc), ccs=['EstimateExtrapolationErrorNonMPI'], mssdc_jac=False), ['drop_ccs']),
             (base_cfg(rng.choice(sdc), ccs=['Adaptivity'], mssdc_jac=False, P=rng.choice([1, 2]), restol=-1.0, maxiter=3, fixed_step=False), ['drop_ccs']),
             (base_cfg(rng.choice(sdc + ['imex_heat']), guess='random'), ['guess', 'spread']),
             (base_cfg('rk'), ['sweeper', 'generic_implicit']),
             rng.choice([(base_cfg(rng.choice(sdc + ['imex_heat']), ccs=['EstimateEmbeddedError']), ['drop_ccs']),
                         (base_cfg('explicit', quad='GAUSS'), ['quad', 'LOBATTO']),
                         (base_cfg(rng.choice(sdc), quad='RADAU-LEFT'), ['dt', 0.0625]),
                         (base_cfg(rng.choice(sdc + ['sdc_vdp'])), ['maxiter', 2])])]
    if thorough:
        for _ in range(10):
            pairs.append(rng.choice([(base_cfg(rng.choice(sdc + ['imex_heat', 'explicit']), quad=rng.choice(['GAUSS', 'RADAU-LEFT'])), ['quad', rng.choice(['RADAU-RIGHT', 'LOBATTO'])]),
                                     (base_cfg(rng.choice(sdc + ['imex_heat']), ccs=[rng.choice(['EstimateEmbeddedError', 'EstimateContractionFactor', 'StoreUOld'])]), ['drop_ccs']),
                                     (base_cfg('rk_imex'), ['sweeper', 'imex']),
                                     (base_cfg(rng.choice(sdc), guess=rng.choice(['random', 'copy', 'zero'])), ['none'])]))
    shared = []
    for pi_, (ca, edit) in enumerate(pairs):
        t0 = rng.choice(L.T0S)
        shared.append({'kind': 'shared', 'cfg': ca, 'edit': edit, 't0': L.fhex(t0), 'Tend': L.fhex(t0 + 2 * ca['P'] * ca['dt']),
                       'scale': rng.choice([1.0, 0.5]), 'reset_hook_list': pi_ >= 7 and pi_ % 3 == 0})

    # space-transfer matrices of multi-level controllers: order 8 (scipy BarycentricInterpolator permutes its nodes with an
    # unseeded generator) and a low-order control, 4 fresh controllers each + the helper called directly
    def ml_cfg(order):
        c = L.gen_config(rng, fixed_step=True, allow_random=False, family=rng.choice(['ml_heat', 'ml_adv', 'ml_imex']))
        per = c['bc'] == 'periodic'
        c.update(nvars=[64, 32] if per else [63, 31], iorder=order, rorder=order, ccs=[], hooks=['LogSolution'], guess='spread', P=rng.choice([1, 2]),
                 maxiter=2, restol=-1.0, nsweeps=1, fixed_step=True)
        return c
    transfer = {'kind': 'transfer', 'cfgs': [ml_cfg(8), ml_cfg(rng.choice([2, 4]))], 'nfresh': 4, 'scale': 1.0, 't0': L.fhex(rng.choice(L.T0S)), 'nsteps': 2,
                'helper': [{'nfine': 63, 'k': 8, 'periodic': False, 'equidist_nested': True}, {'nfine': 64, 'k': 8, 'periodic': True, 'equidist_nested': rng.choice([True, False])},
                           {'nfine': 63, 'k': rng.choice([2, 4, 6]), 'periodic': False, 'equidist_nested': True}]}

    jobs = cases + inters + [a[2] for a in alone] + shared + [transfer] + [pk_alone, pk_inter]
    ck.log('running %d scenario processes (%d cases, %d interleavings, %d shared-dict pairs)' % (len(jobs), len(cases), len(inters), len(shared)))
    with cf.ThreadPoolExecutor(14) as ex:
        results = list(ex.map(lambda j: work(j, 300 if thorough else 120), jobs))
    res_cases = results[:len(cases)]
    res_inter = results[len(cases):len(cases) + len(inters)]
    res_alone = results[len(cases) + len(inters):len(cases) + len(inters) + len(alone)]
    res_shared = results[len(cases) + len(inters) + len(alone):len(cases) + len(inters) + len(alone) + len(shared)]
    res_pk = results[-2:]
    res_transfer = results[-3]
    ck.log('scenarios done')

    for sc, r in zip(jobs, results):
        if 'crash' in r:
            report('scenario process crashed: ' + r['crash'][-300:], {'kind': 'crash', 'scenario': sc['kind']},
                   {'scenario': sc, 'log': r['crash']}, no_input=False)

    # ------------------------------------------------------------------ oracle on the cases
    tl_cases = []      # time-loop correspondence: (label, P, dt, t0, Tend, blocks)
    split_cases = []   # (label, P, dt, t0, tk, Tend, impl_equal)
    snap_cases = []    # (label, cfg, t0, Tend, snap_before, snap_entry)
    hist = {}
    for ci, (sc, r) in enumerate(zip(cases, res_cases)):
        if 'crash' in r:
            continue
        c = sc['cfg']
        hist[c['family']] = hist.get(c['family'], 0) + 1
        base = r['base']
        inp = {'cfg': c, 't0': sc['t0'], 'Tend': sc['Tend'], 'scale': sc['scale'], 'seed': sc['seed']}
        blocks = L.blocks_of(base['steps'], c['P']) if not base['error'] else []
        ck.case(key=json.dumps([c, sc['t0'], sc['Tend']], sort_keys=True, default=str), nontrivial=len(blocks) >= 2,
                sample={'family': c['family'], 'sweeper': c['sweeper'], 'prob': c['prob'], 'P': c['P'], 'levels': c['levels'], 'dt': c['dt'],
                        't0': sc['t0'], 'Tend': sc['Tend'], 'blocks': len(blocks), 'hooks': c['hooks'], 'ccs': c['ccs'], 'guess': c['guess']})
        if base['error']:
            report('run() raised on a fresh controller: %s' % base['error'], {'kind': 'crash', 'scenario': 'base-run'}, {'input': inp, 'error': base['error']})
            continue
        ck.traces += 1
        for ch in r.get('dict_changes', []):
            key = ch['path'].split('/')[1] if '/' in ch['path'] else ''
            report('constructing/running a controller changed the caller\'s %s at %s (%s, during %s)' % (ch['dict'], ch['path'] or '/', ch['change'], ch['stage']),
                   {'kind': 'caller-dict-mutated', 'dict': ch['dict'], 'key': key}, {'input': inp, 'change': ch})
        if not r.get('u0_unchanged_after_run', True):
            report('run() modified the caller\'s u0', {'kind': 'u0-modified'}, {'input': inp})
        uses_rng = c['guess'] == 'random' and not c['sweeper'].startswith('RK:')
        has_extra = 'EstimateExtrapolationErrorNonMPI' in c['ccs']
        # sweep-dependent QI + Gauss-Seidel MSSDC: it_coarse never calls updateVariableCoeffs, it_fine (used when a
        # single step is left in a partially filled block) does and leaves QI(k = nsweeps) behind
        kdep_gs = (c.get('QI') in L.KDEP_QI and c.get('nsweeps', 1) > 1 and c['P'] > 1 and not c['mssdc_jac'] and c['sweeper'] == 'generic_implicit'
                   and c['levels'] == 1)
        # --- fresh-controller repeats
        for name in ('fresh', 'fresh_shared_dicts'):
            if not rec_equal(base, r[name]):
                report('a second, freshly constructed controller (%s) does not reproduce the run bit for bit' % name,
                       {'kind': 'fresh-repeat', 'variant': name}, {'input': inp, 'diff': describe_diff(base, r[name])})
        # --- same-controller repeats
        repaired_ok = 'same_repaired' in r and rec_equal(base, r['same_repaired'])
        for name in ('same', 'same_poisoned', 'same_after_other'):
            if rec_equal(base, r[name]):
                continue
            cause = 'unexplained'
            if (uses_rng or has_extra) and repaired_ok:
                # identical again once the RNG is re-seeded / the estimator storage re-initialised by hand
                cause = 'EstimateExtrapolationError-buffers' if has_extra and (r[name]['error'] or not uses_rng) else 'sweeper-rng-not-reseeded'
            elif kdep_gs and repaired_ok:
                cause = 'variable-QI-stale-after-partial-block'     # identical again once the QI tables are rebuilt by hand
            report('run() repeated on the same controller (%s) differs from its first execution [%s]' % (name, cause),
                   {'kind': 'same-controller-repeat', 'cause': cause} if cause != 'unexplained' else
                   {'kind': 'same-controller-repeat', 'cause': cause, 'variant': name},
                   {'input': inp, 'variant': name, 'diff': describe_diff(base, r[name])})
        if 'same_repaired' in r and not repaired_ok:
            report('same-controller repeat differs even after re-seeding the sweeper RNG / resetting estimator storage by hand',
                   {'kind': 'same-controller-repeat', 'cause': 'unexplained', 'variant': 'same_repaired'},
                   {'input': inp, 'diff': describe_diff(base, r['same_repaired'])})
        # --- a different (short) run on the used controller vs on a fresh one
        oth, othf = r['other'], r['other_fresh']
        if not rec_equal(othf, oth):
            cause = 'unexplained'
            if not oth['error'] and not othf['error'] and oth['uend'] == othf['uend'] and oth['steps'] == othf['steps']:
                d = stats_diff(oth['stats'], othf['stats'], limit=10 ** 6)
                act = {s[0] for s in oth['steps']}
                stale_only = (d['n_only_second'] == 0 and d['n_different'] == 0 and d['n_only_first'] > 0 and
                              all(json.loads(k)[6] in SPLIT_SKIP_TYPES and json.loads(k)[0] not in act for k in d['only_first']))
                if stale_only:
                    cause = 'stale-inactive-step-status'
            if cause == 'unexplained' and has_extra and othf['error'] and 'NoneType' in othf['error']:
                cause = 'EstimateExtrapolationError-never-active-step'      # the FRESH controller raises (status.slot None), the used one does not
            if cause == 'unexplained' and (uses_rng or has_extra) and repaired_ok:
                cause = 'EstimateExtrapolationError-buffers' if has_extra and (oth['error'] or not uses_rng) else 'sweeper-rng-not-reseeded'
            if cause == 'unexplained' and kdep_gs and repaired_ok:
                cause = 'variable-QI-stale-after-partial-block'
            inp2 = dict(inp, t_other=sc['t_other'], T_other=sc['T_other'])
            report('a run on a previously used controller differs from the same run on a fresh controller [%s]' % cause,
                   {'kind': 'reentrant', 'cause': cause}, {'input': inp2, 'diff': describe_diff(oth, othf)})
        # --- time-loop correspondence input
        tl_cases.append((('base', ci), c['P'], L.fhex(c['dt']), sc['t0'], sc['Tend'], blocks))
        snap_cases.append((('fresh-entry', ci), c, sc['t0'], sc['Tend'], base['snap_before'], base['snap_entry']))
        sp = r['same_poisoned']
        if not sp['error'] and sp.get('snap_entry'):
            snap_cases.append((('poisoned-entry', ci), c, sc['t0'], sc['Tend'], sp['snap_before'], sp['snap_entry']))
        elif sp.get('snap_entry') is None and not (uses_rng or has_extra):
            report('no post_setup snapshot on the poisoned controller', {'kind': 'same-controller-repeat', 'cause': 'unexplained', 'variant': 'poisoned-entry'},
                   {'input': inp, 'error': sp['error']})
        # --- splits
        full_steps = sorted(s[:5] for s in base['steps'])
        for s in r['splits']:
            k = s['k']
            first = s['first']
            inps = dict(inp, split_block=k, tk=s['tk'])
            if first['error']:
                report('first part of a split run raised: %s' % first['error'], {'kind': 'split', 'cause': 'crash'}, {'input': inps})
                continue
            tl_cases.append((('split-first', ci, k), c['P'], L.fhex(c['dt']), sc['t0'], s['tk'], L.blocks_of(first['steps'], c['P'])))
            # value chain: the first part must end with the value the uninterrupted run has at t_k
            chain_ok = any(st[3] == s['tk'] and st[5] == first['uend'] for st in base['steps'])
            impl_steps_equal = None
            for variant in ('second_fresh', 'second_same'):
                sec = s.get(variant)
                if sec is None:
                    continue
                if sec['error']:
                    cause = 'crash'
                    if has_extra:
                        # prepare_next_block of the estimator compares against status.slot of steps that were never active (None)
                        cause = 'EstimateExtrapolationError-never-active-step' if (variant == 'second_fresh' and 'NoneType' in sec['error']) \
                            else 'EstimateExtrapolationError-buffers'
                    report('continuation of a split run raised: %s' % sec['error'], {'kind': 'split', 'cause': cause}, {'input': inps, 'variant': variant})
                    continue
                if variant == 'second_fresh':
                    tl_cases.append((('split-second', ci, k), c['P'], L.fhex(c['dt']), s['tk'], sc['Tend'], L.blocks_of(sec['steps'], c['P'])))
                steps_eq = sorted(x[:5] for x in first['steps'] + sec['steps']) == full_steps
                if variant == 'second_fresh':
                    impl_steps_equal = steps_eq
                # time-arithmetic: is the time list run() builds from tk the one the first part ended with?
                dt = c['dt']
                tk = L.unhex(s['tk'])
                last_block = L.blocks_of(first['steps'], c['P'])[-1]
                ended = [L.unhex(x[1]) for x in last_block]           # starts of the last block ...
                seq_times = [tk]
                for _ in range(1, len(last_block)):
                    seq_times.append(seq_times[-1] + dt)              # ... advanced as run() does between blocks
                init = [tk + sum(dt for _ in range(p)) for p in range(len(last_block))]
                premise_b_py = (init == seq_times)
                skip = SPLIT_SKIP_TYPES + (('error_extrapolation_estimate',) if variant == 'second_fresh' else ())
                stats_eq = union_stats(first, sec, skip) == full_stats(base, skip)
                ok = steps_eq and chain_ok and sec['uend'] == base['uend'] and stats_eq
                if ok:
                    continue
                if uses_rng and variant == 'second_fresh' and steps_eq and chain_ok:
                    cause = 'sweeper-rng-not-reseeded'       # a fresh controller restarts the random sequence
                elif not premise_b_py:
                    cause = 'first-block-time-summation'
                elif has_extra and steps_eq and chain_ok and sec['uend'] == base['uend']:
                    cause = 'EstimateExtrapolationError-buffers'
                else:
                    cause = 'unexplained'
                m = {'kind': 'split', 'cause': cause}
                if cause == 'unexplained':
                    m['variant'] = variant
                report('split at block boundary %d + continuation (%s) differs from the uninterrupted run [%s]' % (k, variant, cause), m,
                       {'input': inps, 'variant': variant, 'steps_equal': steps_eq, 'value_chain_ok': chain_ok, 'uend_equal': sec['uend'] == base['uend'],
                        'stats_equal': stats_eq, 'init_times_from_tk': [L.fhex(x) for x in init], 'times_reached_sequentially': [L.fhex(x) for x in seq_times],
                        'full_steps': full_steps[:16], 'split_steps': sorted(x[:5] for x in first['steps'] + sec['steps'])[:16]})
            split_cases.append((('split', ci, k), c['P'], L.fhex(c['dt']), sc['t0'], s['tk'], sc['Tend'], impl_steps_equal, len(blocks)))
    ck.cov['families'] = hist

    # ------------------------------------------------------------------ interleavings vs alone
    alone_map = {(i, j): ra for (i, j, _), ra in zip(alone, res_alone)}
    leaks = set()
    for i, (sc, r) in enumerate(zip(inters, res_inter)):
        if 'crash' in r:
            continue
        for j, c in enumerate(sc['cfgs']):
            ra = alone_map[(i, j)]
            if 'crash' in ra:
                continue
            for q in range(2):
                a = ra['runs'][q]
                b = r['runs']['%d:%d' % (j, q)]
                ck.case(key=json.dumps(['inter', i, j, q, c], sort_keys=True, default=str), nontrivial=len(a['steps']) >= 2)
                ck.traces += 1
                if a['error']:
                    if 'EstimateExtrapolationErrorNonMPI' in c['ccs'] and ('NoneType' in a['error'] or q >= 1):
                        cause = 'EstimateExtrapolationError-never-active-step' if 'NoneType' in a['error'] else 'EstimateExtrapolationError-buffers'
                        report('run() raised for a controller alone in its process (run %d on it): %s' % (q, a['error']),
                               {'kind': 'same-controller-repeat' if cause.endswith('buffers') else 'reentrant', 'cause': cause}, {'cfg': c, 'runs': sc['runs'][j], 'run': q})
                    else:
                        report('run() raised for a controller alone in its process: %s' % a['error'], {'kind': 'crash', 'scenario': 'alone'}, {'cfg': c, 'run': sc['runs'][j][q]})
                    continue
                if not rec_equal(a, b):
                    report('a controller gives different results when other controllers live in the same process',
                           {'kind': 'interleave', 'cause': 'unexplained'},
                           {'cfgs': sc['cfgs'], 'events': sc['events'], 'runs': sc['runs'], 'controller': j, 'run': q, 'diff': describe_diff(a, b)})
            extra_attrs = sorted(set(r['class_state_end']['level_status_attrs']) - set(ra['class_state_after']['level_status_attrs']))
            if extra_attrs:
                leaks.add(tuple(extra_attrs))
    ck.cov['class_level_status_attrs_registered_by_other_controllers'] = [list(x) for x in sorted(leaks)][:6]

    # ------------------------------------------------------------------ shared caller-owned dicts
    nshared = 0
    for sc, r in zip(shared, res_shared):
        if 'crash' in r:
            continue
        ca = sc['cfg']
        inp = {'cfg_A': ca, 'edit': sc['edit'], 'cfg_B': r.get('cfg_B'), 't0': sc['t0'], 'Tend': sc['Tend'], 'scale': sc['scale'],
               'reset_hook_list': sc['reset_hook_list'],
               'how': 'X, Y = description, controller_params of cfg_A; A = controller_nonMPI(P, Y, X); A.run(...); apply edit to X; '
                      'B = controller_nonMPI(P, Y, X); compare B.run(...) with B built from brand-new dicts'}
        ck.case(key=json.dumps(['shared', ca, sc['edit']], sort_keys=True, default=str), nontrivial=True,
                sample={'kind': 'shared-dicts', 'family': ca['family'], 'edit': sc['edit'], 'quad_A': ca['quad'], 'ccs_A': ca['ccs']})
        ck.traces += 1
        for ch in r.get('dict_changes', []):
            key = ch['path'].split('/')[1] if '/' in ch['path'] else ''
            report('constructing/running a controller changed the caller\'s %s at %s (%s, during %s)' % (ch['dict'], ch['path'] or '/', ch['change'], ch['stage']),
                   {'kind': 'caller-dict-mutated', 'dict': ch['dict'], 'key': key}, {'input': inp, 'change': ch})
        bf, bs = r['B_fresh'], r['B_shared']
        if bf['error']:
            report('run() raised on a fresh controller: %s' % bf['error'], {'kind': 'crash', 'scenario': 'shared-B-fresh'}, {'input': inp, 'error': bf['error']})
            continue
        nshared += 1
        ck.log('shared-dict pair %s ccs_A=%s quad_A=%s reset_hook_list=%s: B(shared) == B(fresh): %s' % (sc['edit'], ca['ccs'], ca['quad'], sc['reset_hook_list'], rec_equal(bf, bs)))
        if not rec_equal(bf, bs):
            report('controller B built from the description / controller_params objects used for controller A before (edit %s) differs from B built from '
                   'brand-new dicts: hooks %s vs %s, do_coll_update %s' % (sc['edit'], r['B_shared_hooks'], r['B_fresh_hooks'], r.get('do_coll_update')),
                   {'kind': 'shared-dicts', 'edit': sc['edit'][0]}, {'input': inp, 'diff': describe_diff(bs, bf), 'hooks_shared': r['B_shared_hooks'],
                                                                      'hooks_fresh': r['B_fresh_hooks'], 'do_coll_update_fresh_shared': r.get('do_coll_update')})
    ck.cov['shared_dict_pairs'] = nshared

    # ------------------------------------------------------------------ space-transfer matrices / fresh multi-level controllers
    r = res_transfer
    if 'crash' not in r:
        seen_tm = 0
        for ent in r['cfgs']:
            c = ent['cfg']
            order = c['iorder']
            ck.case(key=json.dumps(['transfer', c], sort_keys=True, default=str), nontrivial=True,
                    sample={'kind': 'fresh-multilevel', 'family': c['family'], 'nvars': c['nvars'], 'order': order, 'fresh_controllers': len(ent['runs'])})
            ck.traces += len(ent['runs'])
            inp = {'cfg': c, 't0': transfer['t0'], 'nsteps': transfer['nsteps'], 'scale': transfer['scale'],
                   'how': '%d controllers, each built from a brand-new description; compare base_transfer.space_transfer.Pspace/Rspace and run() results' % len(ent['runs'])}
            tm = {'kind': 'fresh-repeat', 'cause': 'transfer-matrix-unseeded-barycentric', 'order': order}
            if ent['matrix_diffs']:
                seen_tm += 1
                d = max(ent['matrix_diffs'], key=lambda x: x.get('max_abs_diff', 0))
                report('mesh_to_mesh order %d: the space-transfer matrices of two freshly built controllers are not bit-identical (%s: max abs diff %.3g, %d entries)'
                       % (order, d['matrix'], d.get('max_abs_diff', float('nan')), d.get('n_entries_differ', -1)), tm, {'input': inp, 'matrix_diffs': ent['matrix_diffs'][:6]})
            for q in range(1, len(ent['runs'])):
                a, b = ent['runs'][0], ent['runs'][q]
                if a['error'] or b['error']:
                    report('run() raised on a fresh multi-level controller: %s' % (a['error'] or b['error']), {'kind': 'crash', 'scenario': 'transfer'}, {'input': inp})
                    break
                if not rec_equal(a, b):
                    differing = [d for d in ent['matrix_diffs'] if d['controllers'] == [0, q]]
                    if differing:
                        report('mesh_to_mesh order %d: two fresh controllers built from the same description give different results; their Pspace/Rspace differ '
                               '(max abs diff %.3g)' % (order, max(d.get('max_abs_diff', 0) for d in differing)), tm,
                               {'input': inp, 'controllers': [0, q], 'matrix_diffs': differing[:4], 'diff': describe_diff(a, b)})
                    else:
                        report('a second, freshly constructed multi-level controller does not reproduce the run bit for bit (transfer matrices identical)',
                               {'kind': 'fresh-repeat', 'variant': 'multilevel-order-%d' % order}, {'input': inp, 'controllers': [0, q], 'diff': describe_diff(a, b)})
        for ent in r['helper']:
            h = ent['call']
            ck.case(key=json.dumps(['transfer-helper', h], sort_keys=True), nontrivial=True)
            if ent['diffs']:
                seen_tm += 1
                d = max(ent['diffs'], key=lambda x: x.get('max_abs_diff', 0))
                report('%s(k=%d, %d fine points, periodic=%s) called repeatedly in one process returns matrices that are not bit-identical (max abs diff %.3g)'
                       % (d['function'], h['k'], h['nfine'], h['periodic'], d.get('max_abs_diff', float('nan'))),
                       {'kind': 'state', 'cause': 'transfer-matrix-unseeded-barycentric', 'order': h['k']}, {'call': h, 'diffs': ent['diffs'][:6]})
        ck.cov['transfer_matrix_differences_seen'] = seen_tm

    # ------------------------------------------------------------------ LogToPickleFile
    pa, pi = res_pk
    if 'crash' not in pa and 'crash' not in pi:
        fa = [f for f in pa['files'] if f['run'] == [0, 0]][0]
        fi = [f for f in pi['files'] if f['run'] == [0, 0]][0]
        ck.case(key='pickle-files', nontrivial=True)
        if fa['error'] or fi['error']:
            report('run with LogToPickleFile raised', {'kind': 'crash', 'scenario': 'pickle'}, {'alone': fa, 'interleaved': fi})
        elif fa['new'] != fi['new']:
            report('LogToPickleFile: the files a controller writes depend on runs of ANOTHER controller (class-level counter): alone %s, interleaved %s'
                   % (fa['new'], fi['new']), {'kind': 'interleave', 'cause': 'LogToPickleFile.counter'},
                   {'cfgs': [pk_cfg, pk_cfg2], 'alone': pa['files'], 'interleaved': pi['files']})
        ck.cov['pickle_same_controller_second_run_files'] = [f['new'] for f in pa['files']]

    # ------------------------------------------------------------------ Coq: time loop + splits
    hdr = ['From Coq Require Import List Bool Arith ZArith PrimFloat.', 'From PySDC Require Import Model.Rerun Proofs.RerunProofs.',
           'Import ListNotations.', '']
    T = list(hdr)
    T.append('Definition chk (P : nat) (dt t0 Tend : float) (fuel : nat) (expected : list (list (nat * float * float))) : bool :=')
    T.append('  match frun unit w_blk (repeat dt P) fuel t0 Tend tt with Done _ _ tr => steps_eqb (steps_of float unit tr) expected | _ => false end.')
    T.append('Definition cases : list (nat * float * float * float * nat * list (list (nat * float * float))) := [')
    items = []
    for lab, P, dt, t0, Tend, blocks in tl_cases:
        exp = coq_list([coq_list(['(%d, %s, %s)' % (s[0], fl(s[1]), fl(s[2])) for s in b]) for b in blocks])
        items.append('  (%d, %s, %s, %s, %d, %s)' % (P, fl(dt), fl(t0), fl(Tend), len(blocks) + 2, exp))
    T.append(';\n'.join(items))
    T.append('].')
    T.append("Eval vm_compute in map (fun '(P, dt, t0, Tend, fuel, e) => chk P dt t0 Tend fuel e) cases.")
    T.append('Definition split (P : nat) (dt t0 tk Tend : float) (fuel : nat) : bool * bool * bool * bool :=')
    T.append('  let dts := repeat dt P in')
    T.append('  match floop unit w_blk dts fuel (fthr tk) (finit dts t0) tt, floop unit w_blk dts fuel (fthr Tend) (finit dts tk) tt,')
    T.append('        floop unit w_blk dts (fuel + fuel) (fthr Tend) (finit dts t0) tt with')
    T.append('  | Some (times_k, _, tr1), Some (_, _, tr2), Some (_, _, trF) =>')
    T.append('      (forallb (mask_agree float PrimFloat.ltb unit (fthr tk) (fthr Tend)) tr1, list_beq feqb (finit dts tk) times_k,')
    T.append('       steps_eqb (steps_of float unit trF) (steps_of float unit tr1 ++ steps_of float unit tr2), feqb (nth 0 times_k 0%float) tk)')
    T.append('  | _, _, _ => (false, false, false, false) end.')
    T.append('Definition splits : list (nat * float * float * float * float * nat) := [')
    T.append(';\n'.join('  (%d, %s, %s, %s, %s, %d)' % (P, fl(dt), fl(t0), fl(tk), fl(Tend), nb + 2) for lab, P, dt, t0, tk, Tend, _, nb in split_cases))
    T.append('].')
    T.append("Eval vm_compute in map (fun '(P, dt, t0, tk, Tend, fuel) => split P dt t0 tk Tend fuel) splits.")
    path = ck.write_gen('Cases_timeloop.v', '\n'.join(T) + '\n')

    # ------------------------------------------------------------------ Coq: entry resets on real snapshots
    names = Names()
    S = list(hdr)
    S.append('Definition ent (slots : list nat) (times : list val) (c : Ctrl unit) := flat_ctrl (run_entry slots times tt c).')
    exp_flat = []
    chunks = []
    for lab, c, t0h, Tendh, before, entry in snap_cases:
        t0 = L.unhex(t0h)
        Tend = L.unhex(Tendh)
        dt = c['dt']
        times = [t0 + sum(dt for _ in range(p)) for p in range(c['P'])]
        eps10 = 10 * 2.0 ** -52
        slots = [p for p in range(c['P']) if times[p] < Tend - eps10]
        tl = coq_list([vlit(L.enc(t)) for t in times])
        chunks.append('Eval vm_compute in ent %s %s %s.' % (coq_list([str(p) for p in slots]), tl, ctrl_term(before, names)))
        exp_flat.append(tolist(flat_snapshot(entry, names)))
    S += chunks
    path2 = ck.write_gen('Cases_entry.v', '\n'.join(S) + '\n')

    with cf.ThreadPoolExecutor(2) as ex:
        f1 = ex.submit(ck.coqc, path, 900)
        f2 = ex.submit(ck.coqc, path2, 900)
        (rc1, out1), (rc2, out2) = f1.result(), f2.result()
    if rc1 != 0 or rc2 != 0:
        ck.obligation('generated Coq cases evaluate', False, (out1 if rc1 else out2)[-1500:])
        report('generated Coq case files do not compile', {'kind': 'gen'}, {'log': (out1 if rc1 else out2)[-3000:]}, no_input=True)
    else:
        vals = [parse_coq_value(v) for v in eval_outputs(out1)]
        tl_ok = vals[0] if tl_cases else []
        nbad = 0
        for (lab, P, dt, t0, Tend, blocks), ok in zip(tl_cases, tl_ok):
            ck.evaluations += 1
            if not ok:
                nbad += 1
                report('the (slot, start, dt) sequence of a real run differs from the Coq time-loop model (PrimFloat instance)',
                       {'kind': 'timeloop-correspondence'}, {'case': lab, 'P': P, 'dt': dt, 't0': t0, 'Tend': Tend, 'blocks': [[s[:3] for s in b] for b in blocks]},
                       no_input=False)
        ck.obligation('Coq time loop (PrimFloat) reproduces %d real (slot, start, dt) sequences bit-exactly' % len(tl_cases), nbad == 0)
        sp = vals[1] if split_cases else []
        nb_ok = nthm = nref = 0
        for (lab, P, dt, t0, tk, Tend, impl_eq, nbk), (a, b, concl, tk_ok) in zip(split_cases, sp):
            ck.evaluations += 1
            if a and b:
                nthm += 1
            if a and b and not concl:
                report('kernel evaluation contradicts split_compose', {'kind': 'gen'}, {'case': lab}, no_input=True)
            if not b:
                nref += 1
            if not tk_ok:
                report('the time reached by the first part of a split differs from the model', {'kind': 'timeloop-correspondence'},
                       {'case': lab, 'P': P, 'dt': dt, 't0': t0, 'tk': tk, 'Tend': Tend})
            if impl_eq is not None and bool(concl) != bool(impl_eq):
                report('split composition of (slot, start, dt) sequences: model says %s, real runs say %s' % (concl, impl_eq),
                       {'kind': 'timeloop-correspondence'}, {'case': lab, 'P': P, 'dt': dt, 't0': t0, 'tk': tk, 'Tend': Tend})
            else:
                nb_ok += 1
        ck.obligation('split_compose premises/conclusion evaluated by the kernel on %d real splits (premises hold in %d, premise (b) fails in %d); '
                      'model verdict = real runs in %d' % (len(split_cases), nthm, nref, nb_ok), nb_ok == len(split_cases))
        ck.cov['splits'] = {'total': len(split_cases), 'premises_hold': nthm, 'premise_b_fails': nref}
        ents = [tolist(parse_coq_value(v)) for v in eval_outputs(out2)]
        nbad = 0
        if len(ents) != len(snap_cases):
            ck.obligation('entry snapshots parsed', False, 'got %d of %d' % (len(ents), len(snap_cases)))
        for (lab, c, t0h, Tendh, before, entry), got, exp in zip(snap_cases, ents, exp_flat):
            ck.evaluations += 1
            if got != exp:
                nbad += 1
                # locate the first differing field
                where = None
                for p, (gs, es) in enumerate(zip(got[0], exp[0])):
                    if gs != es:
                        if gs[0] != es[0]:
                            idx = [i for i, (x, y) in enumerate(zip(gs[0], es[0])) if x != y]
                            fields = L.STEP_FIELDS + L.EXTRA_KEYS + ['prev']
                            where = {'step': p, 'fields': [fields[i] for i in idx], 'model': [gs[0][i] for i in idx], 'impl': [es[0][i] for i in idx]}
                        else:
                            for li, (gl, el) in enumerate(zip(gs[1], es[1])):
                                if gl != el:
                                    lf = L.LEVEL_FIELDS + ['tag', 'num_nodes']
                                    idx = [i for i, (x, y) in enumerate(zip(gl[0], el[0])) if x != y]
                                    where = {'step': p, 'level': li, 'fields': [lf[i] for i in idx], 'model': gl, 'impl': el}
                                    break
                        break
                if where is None and got[1] != exp[1]:
                    where = {'hooks_stats_len_model': got[1], 'impl': exp[1]}
                report('state of the controller at post_setup (after reset_stats + restart_block) differs from the Coq model of the entry resets: %s' % (where,),
                       {'kind': 'entry-reset-correspondence', 'case': lab[0]},
                       {'case': lab, 'cfg': c, 't0': t0h, 'Tend': Tendh, 'where': where}, no_input=True)
        ck.obligation('Coq run_entry = real controller state at post_setup on %d snapshots (fresh and poisoned)' % len(snap_cases), nbad == 0)

    # ------------------------------------------------------------------ emit
    for key in sorted(findings):
        f = findings[key]
        ck.violation('%s  [%d occurrence(s)]' % (f['what'], f['count']), {'occurrences': f['count'], 'examples': f['examples']},
                     match=f['match'], no_input=f['no_input'])
    ck.cov['finding_classes'] = {k: findings[k]['count'] for k in sorted(findings)}
