"""C06 — accepted steps tile [t0, Tend] contiguously and chain their values exactly.

Proved (Coq, Props/C06.v) about the executable model Model/TimeLoop.v of controller_nonMPI.run's time/slot
bookkeeping, generic in the number type (no algebraic law) and with the block as an oracle (restart flags, new
step sizes, values): tiling, chaining, no accepted start beyond Tend - tol, the run does not stop early, the
exact step count for integer time, and by vm_compute on IEEE doubles the refutations (101 steps for
(0, 0.1, 10); first-block start times are not the literal chain; the ParaDiag controller starts steps beyond Tend).

Tie to /repo (every run): the REAL controller_nonMPI (and controller_ParaDiag_nonMPI) is run on seeded
(t0, dt, Tend, slots, levels) incl. non-multiples, large |t0|, blocks longer than the remaining interval and
scripted restart / step-size-change sequences; the recording hook logs (slot, L.time, L.dt, restart, u[0], uend)
at pre_step / post_step; the PrimFloat instance of the model is evaluated by the Coq kernel on the same inputs
(restart flags and new step sizes of every block taken from the run) and every time of every active step of
every block is compared BIT-EXACTLY, as are the accepted-step list and the returned value.

Implementation-side oracle: exact rational recomputation of tiling / chaining / end conditions / step count from
the logged floats.
"""
import math
import os
import multiprocessing as mp
import time
from concurrent.futures import ThreadPoolExecutor
from fractions import Fraction as F

from harness.common import eval_outputs, parse_coq_value

LEVEL = 'proof'
EPS = 2.0 ** -52
TOL = 10 * EPS


def fhex(x):
    return float(x).hex()


def flit(x):
    x = float(x)
    if x == 0:
        return '0%float'
    h = x.hex()
    return '(%s)%%float' % h


# ----------------------------------------------------------------------------- one real run -> blocks

def extract_blocks(res, nprocs):
    """From the event list: per block the active slots with their (time, dt, u0, uend, restart) and the step sizes
    of all steps at the start of the block."""
    from harness import scripted as sc
    blocks = []
    cur = None
    for e in res.events:
        if e[0] != 'hook':
            continue
        name, slot, info = e[1], e[2], e[9]
        if name == 'pre_step':
            if info['first']:
                cur = {'slots': [], 'pre': {}, 'post': {}, 'all_dt': info.get('all_dt')}
                blocks.append(cur)
            cur['slots'].append(slot)
            cur['pre'][slot] = info
        elif name == 'post_step':
            cur['post'][slot] = info
    return blocks


def run_case(case):
    """case: dict(P, nlev, t0, dt, tend, maxiter, conv_p, restarts{(b,s)}, dtnew{(b,s):f}, seed, paradiag)"""
    import random
    from harness import scripted as sc
    rng = random.Random(case['seed'])
    P, nlev = case['P'], case['nlev']
    out = {'case': case}
    try:
        if case.get('paradiag'):
            ctrl = make_paradiag(P, case['dt'])
            script = sc.Script()
            rec = sc.Recorder(ctrl)
            sc.install_observer()
        else:
            nsw = [1] * nlev
            ctrl, rec = sc.make_controller(P, nlev, case['maxiter'], nsw, None if nlev == 1 else rng.choice([None, 'pfasst_burnin']),
                                           True, False, dt=case['dt'], lam=-0.5, own_dt=bool(case.get('own_dt')))
            conv = {}
            for b in range(400):
                for s in range(P):
                    for i in range(case['maxiter']):
                        if rng.random() < case['conv_p']:
                            conv[(b, s, i)] = True
            script = sc.Script(conv=conv, restart={k: True for k in case['restarts']}, dt_new=dict(case['dtnew']),
                               step_dt=dict(case.get('step_dt') or []))
        res = sc.run_scripted(ctrl, rec, script, case['t0'], case['tend'], u0=1.0, max_events=60000)
    except Exception as ex:
        out['error'] = 'setup: %r' % ex
        return out
    out['outcome'] = res.outcome
    out['error'] = res.error
    if res.outcome != 'ok':
        return out
    blocks = extract_blocks(res, P)
    out['blocks'] = [{'slots': b['slots'],
                      'time': [b['pre'][s]['time0'] for s in b['slots']],
                      'dt': [b['pre'][s]['dt0'] for s in b['slots']],
                      'restart': [bool(b['post'][s]['restart']) for s in b['slots']],
                      'u0_pre': [b['pre'][s]['u0'] for s in b['slots']],
                      'u0': [b['post'][s]['u0'] for s in b['slots']],
                      'uend': [b['post'][s]['uend'] for s in b['slots']],
                      'all_dt': b['all_dt']} for b in blocks]
    out['final_dt'] = [st['dt'] for st in res.steps]
    out['uend'] = (id(res.uend), sc._val(res.uend))
    out['u0_caller'] = (id(res.u0_obj), res.u0_val)
    return out


def make_paradiag(P, dt):
    import numpy as np
    from pySDC.implementations.controller_classes.controller_ParaDiag_nonMPI import controller_ParaDiag_nonMPI
    from pySDC.implementations.problem_classes.TestEquation_0D import testequation0d
    from pySDC.implementations.sweeper_classes.ParaDiagSweepers import QDiagonalization
    from harness import scripted as sc
    description = {'problem_class': testequation0d, 'problem_params': {'lambdas': -1.0 * np.ones(shape=(1)), 'u0': 1},
                   'sweeper_class': QDiagonalization,
                   'sweeper_params': {'quad_type': 'RADAU-RIGHT', 'num_nodes': 2, 'initial_guess': 'spread'},
                   'level_params': {'dt': dt, 'restol': 1e-8}, 'step_params': {'maxiter': 30}}
    cparams = {'logger_level': 40, 'dump_setup': False, 'hook_class': [sc.RecordingHook], 'mssdc_jac': False,
               'alpha': 1e-4, 'average_jacobian': False}
    sc.CTX.on = False
    ctrl = controller_ParaDiag_nonMPI(controller_params=cparams, description=description, num_procs=P)
    for prob in [S.levels[0].prob for S in ctrl.MS]:
        prob.init = tuple([*prob.init[:2]] + [np.dtype('complex128')])
    return ctrl


# ----------------------------------------------------------------------------- implementation-side oracle

def ulp(x):
    return math.ulp(abs(x)) if x != 0 else 5e-324


def oracle(out):
    """Exact recomputation of the property from the logged floats. Returns list of (kind, cause, detail)."""
    case = out['case']
    t0, tend, P = case['t0'], case['tend'], case['P']
    name = 'controller_ParaDiag_nonMPI' if case.get('paradiag') else 'controller_nonMPI'
    bad = []
    acc = []   # accepted steps in order
    for bi, b in enumerate(out['blocks']):
        r = b['restart'].index(True) if True in b['restart'] else len(b['slots'])
        for j in range(r):
            acc.append({'block': bi, 'slot': b['slots'][j], 'start': b['time'][j], 'dt': b['dt'][j],
                        'u0': b['u0'][j], 'uend': b['uend'][j], 'pos': j})
    out['accepted'] = acc
    if not acc:
        bad.append(('no_accepted_step', '', 'run finished without an accepted step'))
        return [(k, c, d, name) for k, c, d in bad]
    # tiling
    if float(acc[0]['start']) != float(t0):
        bad.append(('tiling', 'first_start', 'first accepted step starts at %r, t0 = %r' % (acc[0]['start'], t0)))
    for a, b in zip(acc, acc[1:]):
        want = a['start'] + a['dt']
        if b['start'] != want:
            gap = F(b['start']) - (F(a['start']) + F(a['dt']))
            # was the start computed by run()'s initial formula t0 + sum(dt_0..dt_{p-1}) (first block, or the restart
            # position inside the first block)?  evaluated with the interpreter's own sum(), as the code does
            p = b['slot'] if b['block'] == 0 else a['pos'] + 1
            init_form = t0 + sum(case['dt'] for _ in range(p))
            if a['block'] == 0 and b['start'] == init_form:
                bad.append(('tiling', 'initial_times_association',
                            'start time %s of slot %d computed in the first block as t0 + sum(dt) differs from the end %s of the step in slot %d (chained sum)'
                            % (fhex(b['start']), b['slot'], fhex(want), a['slot'])))
            else:
                bad.append(('tiling', 'gap', 'step starting %s does not start at the end %s of its predecessor (gap %s)'
                            % (fhex(b['start']), fhex(want), float(gap))))
    # chaining of values
    if acc[0]['block'] == 0 and acc[0]['pos'] == 0:
        pass
    b0 = out['blocks'][0]
    if b0['u0_pre'][0][1] != out['u0_caller'][1]:
        bad.append(('chain', 'first_u0', 'first step starts from %r, caller passed %r' % (b0['u0_pre'][0][1], out['u0_caller'][1])))
    if b0['u0_pre'][0][0] == out['u0_caller'][0]:
        bad.append(('chain', 'first_u0_alias', 'first step uses the caller\'s u0 object itself, not a copy'))
    if acc[0]['u0'][1] != out['u0_caller'][1]:
        bad.append(('chain', 'first_u0', 'first accepted step has u[0] = %r, caller passed %r' % (acc[0]['u0'][1], out['u0_caller'][1])))
    for a, b in zip(acc, acc[1:]):
        if case.get('paradiag'):
            # all steps of a ParaDiag block are solved simultaneously: the chain holds up to the residual tolerance
            if abs(b['u0'][1] - a['uend'][1]) > 1e-5:
                bad.append(('chain', 'value', 'step at %s starts from %r but its predecessor ended with %r'
                            % (fhex(b['start']), b['u0'][1], a['uend'][1])))
        elif fhex(b['u0'][1]) != fhex(a['uend'][1]):
            bad.append(('chain', 'value', 'step at %s starts from %r but its predecessor ended with %r'
                        % (fhex(b['start']), b['u0'][1], a['uend'][1])))
    if fhex(out['uend'][1]) != fhex(acc[-1]['uend'][1]):
        bad.append(('chain', 'return', 'returned %r, last accepted step ended with %r' % (out['uend'][1], acc[-1]['uend'][1])))
    # start / end conditions
    for a in acc:
        if F(a['start']) >= F(tend):
            bad.append(('start_before_Tend', '', 'accepted step starts at %r >= Tend = %r' % (a['start'], tend)))
            break
    for b in out['blocks']:
        for s, t in zip(b['slots'], b['time']):
            if F(t) >= F(tend) and not any(k == 'start_before_Tend' for k, _, _ in bad):
                bad.append(('start_before_Tend', '', 'a step (slot %d) is started at %r >= Tend = %r' % (s, t, tend)))
    end = acc[-1]['start'] + acc[-1]['dt']
    if end < tend - TOL:     # the controller's own tolerance, evaluated in double precision as the code does
        bad.append(('stops_early', '', 'last accepted step ends at %r < Tend - 10 eps (Tend = %r)' % (end, tend)))
    # step count for a fixed step size
    fixed = (not case['restarts'] and not case['dtnew'] and not case.get('step_dt')
             and all(x['dt'] == case['dt'] for x in acc))
    if fixed and not case.get('paradiag'):
        dt = case['dt']
        # "up to rounding": the rounding of ONE evaluation of t0 + N*dt (a few ulps), not the error accumulated by N additions
        delta = max(8 * F(ulp(max(abs(t0), abs(tend)))), F(TOL))   # never tighter than the controller's own 10 eps
        nstar = max(1, math.ceil((F(tend) - delta - F(t0)) / F(dt)))
        if len(acc) != nstar:
            last = acc[-1]
            cause = 'other'
            if abs(len(acc) - nstar) == 1:
                # did the accumulated floating-point time decide differently from the exact t0 + k*dt at the step in question?
                k = min(len(acc), nstar)
                float_k = acc[k]['start'] if k < len(acc) else last['start'] + last['dt']
                float_active = float_k < tend - TOL
                exact_active = F(t0) + k * F(dt) < F(tend) - delta
                if float_active != exact_active:
                    cause = 'accumulated_float_time'
            bad.append(('step_count', cause,
                        '%d accepted steps, smallest N with t0 + N*dt >= Tend (up to max(8 ulp, 10 eps)) is %d; last step starts at %s (t0=%r dt=%r Tend=%r)'
                        % (len(acc), nstar, fhex(last['start']), t0, dt, tend)))
    for k in bad:
        pass
    return [(k, c, d, name) for k, c, d in bad]


# ----------------------------------------------------------------------------- Coq side

def tokens(out):
    tok = {}
    def t(v):
        key = fhex(v[1]) if v[1] is not None else 'None'
        if key not in tok:
            tok[key] = len(tok) + 1
        return tok[key]
    return t


def coq_case(idx, out):
    case = out['case']
    P = case['P']
    t = tokens(out)
    u0tok = t(out['u0_caller'])
    blocks = out['blocks']
    tab = []
    for bi, b in enumerate(blocks):
        newdt = blocks[bi + 1]['all_dt'] if bi + 1 < len(blocks) else out['final_dt']
        tab.append('mkBO [%s] [%s] [%s] [%s]' % (
            ';'.join('true' if r else 'false' for r in b['restart']),
            ';'.join(str(t(v)) for v in b['u0']), ';'.join(str(t(v)) for v in b['uend']),
            ';'.join(flit(x) for x in newdt)))
    exp_log = ';'.join('([%s]%%nat, [%s])' % (';'.join(str(s) for s in b['slots']), ';'.join(flit(x) for x in b['time'])) for b in blocks)
    acc = out['accepted']
    exp_acc = ';'.join('(%d, %d, %s, %s, %d, %d)' % (a['block'], a['slot'], flit(a['start']), flit(a['dt']), t(a['u0']), t(a['uend'])) for a in acc)
    uend_tok = t(out['uend'])
    dts0 = ';'.join(flit(case['dt']) for _ in range(P))
    return ('Definition c%d := check_case %s (table_oracle [%s] (mkBO [] [] [] [])) %d %s %s [%s] %d [%s] [%s] %d.'
            % (idx, 'true' if case.get('paradiag') else 'false', ';\n   '.join(tab), len(blocks) + 3, flit(case['t0']), flit(case['tend']),
               dts0, u0tok, exp_log, exp_acc, uend_tok))


HEADER = '''From Coq Require Import List Bool Arith PrimFloat.
From PySDC Require Import Model.TimeLoop.
Import ListNotations.
Definition tol := (0x1.4p-49)%float.   (* 10 * 2^-52 *)
Definition acc_eqb (a : acc float nat) (e : nat * nat * float * float * nat * nat) : bool :=
  let '(b, s, st, dt, u0, ue) := e in
  (a_block a =? b) && (a_slot a =? s) && PrimFloat.eqb (a_start a) st && PrimFloat.eqb (a_dt a) dt
  && (a_u0 a =? u0) && (a_uend a =? ue).
Fixpoint all2 {A B} (f : A -> B -> bool) (x : list A) (y : list B) : bool :=
  match x, y with [], [] => true | a :: x', b :: y' => f a b && all2 f x' y' | _, _ => false end.
Definition log_eqb (l : list nat * list float) (e : list nat * list float) : bool :=
  nat_list_eqb (fst l) (fst e) && flist_eqb (map (fun s => nth s (snd l) 0%float) (fst e)) (snd e).
(* result: finished?, times of every active step of every block equal, accepted list equal, returned value equal,
   active slots always a prefix, number of blocks, number of accepted steps *)
Definition check_case (pd : bool) orc (fuel : nat) (t0 tend : float) (dts : list float) (u0 : nat)
    (elog : list (list nat * list float)) (eacc : list (nat * nat * float * float * nat * nat)) (euend : nat)
  : bool * bool * bool * bool * bool * nat * nat :=
  match frun pd orc fuel t0 tend tol dts u0 with
  | Finished u st => (true, all2 log_eqb (s_log st) elog, all2 acc_eqb (s_acc st) eacc, u =? euend, s_pfx st,
                      s_blocks st, length (s_acc st))
  | _ => (false, false, false, false, false, 0, 0)
  end.
'''


def gen_cases(rng, thorough):
    cases = []
    def add(**kw):
        c = dict(P=1, nlev=1, t0=0.0, dt=0.1, tend=1.0, maxiter=1, conv_p=0.5, restarts=[], dtnew=[], paradiag=False,
                 own_dt=False, step_dt=[])
        c.update(kw)
        c['seed'] = rng.randrange(1 << 30)
        cases.append(c)
    # the canonical fixed-step cases
    for P in (1, 2, 3, 4, 8):
        add(P=P, t0=0.0, dt=0.1, tend=10.0)
    add(P=3, t0=0.2, dt=0.05, tend=0.5)
    add(P=4, t0=0.0, dt=0.125, tend=2.0)
    nrand = 1000 if thorough else 330
    for _ in range(nrand):
        P = rng.randint(1, 8)
        kind = rng.choice(['zero', 'small', 'large', 'neg'])
        t0 = {'zero': 0.0, 'small': round(rng.uniform(0, 3), rng.randint(0, 3)), 'large': rng.uniform(-1e6, 1e6),
              'neg': -rng.uniform(0, 50)}[kind]
        dt = rng.choice([0.1, 0.05, 0.2, 0.25, 0.3, 0.01, 1.0 / 3, rng.uniform(1e-3, 1.0), rng.uniform(0.01, 0.5)])
        nsteps = rng.randint(1, 40)
        shape = rng.choice(['multiple', 'multiple', 'fraction', 'tiny_over', 'tiny_under', 'short'])
        if shape == 'multiple':
            tend = t0 + nsteps * dt
        elif shape == 'fraction':
            tend = t0 + (nsteps + rng.random()) * dt
        elif shape == 'tiny_over':
            tend = t0 + nsteps * dt + rng.choice([1e-15, 1e-13, 1e-10]) * max(1.0, abs(t0))
        elif shape == 'tiny_under':
            tend = t0 + nsteps * dt - rng.choice([1e-15, 1e-13, 1e-10]) * max(1.0, abs(t0))
        else:
            tend = t0 + rng.uniform(0.05, 0.95) * dt * min(P, nsteps)    # block longer than the interval
        if not tend > t0:
            tend = t0 + dt
        nlev = rng.choice([1, 1, 2])
        mode = rng.choice(['plain', 'plain', 'restart', 'dtnew', 'both'])
        restarts, dtnew = [], []
        if mode in ('restart', 'both'):
            for _ in range(rng.randint(1, 4)):
                restarts.append((rng.randint(0, 6), rng.randint(0, P - 1)))
        if mode in ('dtnew', 'both'):
            for _ in range(rng.randint(1, 4)):
                dtnew.append(((rng.randint(0, 6), rng.randint(0, P - 1)), dt * rng.choice([0.5, 0.7, 0.9, 0.25])))
        add(P=P, nlev=nlev, t0=t0, dt=dt, tend=tend, maxiter=rng.randint(1, 2), conv_p=rng.choice([0.2, 0.6, 1.0]),
            restarts=sorted(set(restarts)), dtnew=dtnew)
    # DIFFERENT step sizes for the individual steps of one block ("any sequence of ... step-size changes"):
    #  (a) directly in prepare_next_block (ScriptedDtCC, after the spreading controller),
    #  (b) per-step level.status.dt_new with the spreading controller replaced by OwnDtSpreader
    for P, t0, dt, tend, sd in [(3, 0.0, 0.25, 3.0, [((0, 0), 0.25), ((0, 1), 0.125), ((0, 2), 0.5)]),
                                (2, 1.0, 0.1, 2.0, [((1, 0), 0.05), ((1, 1), 0.2)])]:
        add(P=P, t0=t0, dt=dt, tend=tend, step_dt=sd)
    for _ in range(60 if thorough else 24):
        P = rng.randint(2, 6)
        t0 = rng.choice([0.0, round(rng.uniform(0, 3), 2), rng.uniform(-50, 50)])
        dt = rng.choice([0.1, 0.25, 0.2, rng.uniform(0.05, 0.5)])
        tend = t0 + rng.uniform(2, 6) * P * dt
        facs = [1.0, 0.5, 0.75, 1.25, 0.3, 0.9, 1.5]
        restarts = sorted({(rng.randint(0, 4), rng.randint(0, P - 1)) for _ in range(rng.choice([0, 0, 1, 2]))})
        if rng.random() < 0.5:
            sd = []
            for b in sorted(rng.sample(range(0, 5), rng.randint(1, 3))):
                f0 = rng.randrange(len(facs))
                for s in range(P):
                    if rng.random() < 0.8:
                        sd.append(((b, s), dt * facs[(f0 + s) % len(facs)]))
            add(P=P, nlev=rng.choice([1, 2]), t0=t0, dt=dt, tend=tend, maxiter=rng.randint(1, 2), conv_p=rng.choice([0.3, 1.0]),
                restarts=restarts, step_dt=sd)
        else:
            dn = []
            for b in sorted(rng.sample(range(0, 5), rng.randint(1, 3))):
                f0 = rng.randrange(len(facs))
                for s in range(P):
                    if rng.random() < 0.8:
                        dn.append(((b, s), dt * facs[(f0 + s) % len(facs)]))
            add(P=P, nlev=rng.choice([1, 2]), t0=t0, dt=dt, tend=tend, maxiter=rng.randint(1, 2), conv_p=rng.choice([0.3, 1.0]),
                restarts=restarts, dtnew=dn, own_dt=True)
    # ParaDiag controller: whole block activated
    for P, dt, tend in [(4, 0.1, 0.25), (4, 0.1, 0.8), (3, 0.125, 0.5)]:
        add(P=P, t0=0.0, dt=dt, tend=tend, paradiag=True)
    return cases


def run(ck):
    thorough = ck.tier == 'thorough'
    rng = ck.rng
    ck.rule = ('a case = (slots 1-8, levels 1-2, t0 in {0, small decimal, |t0| up to 1e6, negative}, dt, Tend as exact multiple / '
               'fraction / multiple +- tiny / shorter than one block, scripted restarts and step-size changes); distinct = distinct '
               '(slots, levels, t0, dt, Tend, script); non-trivial = at least two accepted steps')
    ck.check_props(required=['C06_tiling_chain', 'C06_chain', 'C06_no_start_beyond', 'C06_reaches_Tend',
                             'C06_count_float_refuted', 'C06_count_exact', 'C06_tiling_exact', 'C06_tiling_float_refuted',
                             'C06_paradiag_start_beyond_refuted'])
    cases = gen_cases(rng, thorough)
    ctx = mp.get_context('fork')
    t0 = time.time()
    with ctx.Pool(min(16, os.cpu_count() or 4)) as pool:
        outs = pool.map(run_case, cases, chunksize=2)
    ck.log('%d implementation runs in %.1fs' % (len(outs), time.time() - t0))

    good = []
    hist = {}
    findings = {}
    for out in outs:
        case = out['case']
        key = (case['P'], case['nlev'], fhex(case['t0']), fhex(case['dt']), fhex(case['tend']), tuple(case['restarts']),
               tuple(map(tuple, case['dtnew'])), case['paradiag'], case['own_dt'], tuple(map(tuple, case['step_dt'])))
        if out.get('outcome') != 'ok':
            ck.case(key=key, nontrivial=False)
            name = 'controller_ParaDiag_nonMPI' if case.get('paradiag') else 'controller_nonMPI'
            findings.setdefault(('exception', str(out.get('outcome')), name), []).append(
                (dict(out, blocks=[]), 'run raised %s: %s' % (out.get('outcome'), out.get('error'))))
            continue
        probs = oracle(out)
        ck.traces += 1
        ck.case(key=key, nontrivial=len(out['accepted']) >= 2,
                sample={'case': {k: case[k] for k in ('P', 'nlev', 't0', 'dt', 'tend', 'restarts', 'paradiag')},
                        'blocks': len(out['blocks']), 'accepted': len(out['accepted'])})
        mixed = any(len(set(b['dt'])) > 1 for b in out['blocks'])
        h = ('paradiag' if case['paradiag'] else 'mixed_dt_in_block' if mixed else
             'restart' if case['restarts'] else 'dtnew' if case['dtnew'] or case['step_dt'] else 'fixed')
        hist[h] = hist.get(h, 0) + 1
        for kind, cause, detail, name in probs:
            fk = (kind, cause, name)
            findings.setdefault(fk, []).append((out, detail))
        out['oracle_failed'] = bool(probs)
        good.append(out)
    for (kind, cause, name), lst in sorted(findings.items()):
        out, detail = min(lst, key=lambda x: (abs(x[0]['case']['t0']), x[0]['case']['P'], len(x[0]['blocks'])))
        case = out['case']
        m = {'kind': kind, 'controller': name}
        if cause:
            m['cause'] = cause
        ck.violation('%s (%s, %s): %s  [%d of %d runs affected]' % (kind, cause or '-', name, detail, len({id(o) for o, _ in lst}), len(outs)),
                     {'case': case, 'detail': detail,
                      'blocks': [{k: b[k] for k in ('slots', 'time', 'dt', 'restart')} for b in out['blocks']][:12]},
                     match=m)
    ck.cov['findings_by_kind'] = {'%s/%s/%s' % k: len(v) for k, v in findings.items()}
    ck.cov['input_histogram'] = hist
    ck.cov['max_accepted_steps'] = max([len(o['accepted']) for o in good] or [0])

    # ---- model correspondence (PrimFloat instance, Coq kernel)
    shards = [good[i::8] for i in range(8)]
    paths = []
    for si, sh in enumerate(shards):
        if not sh:
            continue
        lines = [HEADER] + [coq_case(i, o) for i, o in enumerate(sh)]
        lines.append('Eval vm_compute in [%s].' % '; '.join('c%d' % i for i in range(len(sh))))
        paths.append((sh, ck.write_gen('Cases_%d.v' % si, '\n'.join(lines) + '\n')))
    with ThreadPoolExecutor(max_workers=8) as ex:
        res = list(ex.map(lambda p: ck.coqc(p[1], timeout=1200), paths))
    nbad = 0
    for (sh, path), (rc, txt) in zip(paths, res):
        vals = eval_outputs(txt)
        if rc != 0 or not vals:
            ck.obligation('correspondence shard %s' % os.path.basename(path), False, txt[-800:])
            ck.violation('Coq could not evaluate a correspondence shard', {'log': txt[-3000:]}, match={'kind': 'shard-failed'}, no_input=True)
            continue
        parsed = parse_coq_value(vals[0])
        ok_all = True
        for o, v in zip(sh, parsed):
            fin, tlog, tacc, tu, pfx, nb, na = v
            ok = fin and tlog and tacc and tu and pfx and nb == len(o['blocks']) and na == len(o['accepted'])
            if not ok:
                ok_all = False
                nbad += 1
                if nbad <= 4:
                    ck.violation('model (PrimFloat) and implementation disagree on the time bookkeeping: finished=%s times=%s accepted=%s '
                                 'returned=%s prefix=%s blocks %s/%d accepted %s/%d'
                                 % (fin, tlog, tacc, tu, pfx, nb, len(o['blocks']), na, len(o['accepted'])),
                                 {'case': o['case'], 'blocks': [{k: b[k] for k in ('slots', 'time', 'dt', 'restart')} for b in o['blocks']][:12]},
                                 match={'kind': 'correspondence', 'controller': 'controller_ParaDiag_nonMPI' if o['case']['paradiag'] else 'controller_nonMPI'},
                                 no_input=not o['oracle_failed'])
        ck.obligation('PrimFloat model = implementation, bit-exact times (%d runs)' % len(sh), ok_all, '', kind='correspondence')
