"""C15 — ParaDiag diagonalises the all-at-once system and converges to the serial answer.

Proof side (Props/C15.v, every field, every N): weighted transforms inverse to each other, they
diagonalise E_alpha with factors d_l = -alpha^(1/N) exp(-2 pi i l/N) (= what get_G_inv_matrix computes),
closed form of G^-1, QDiagonalization one-shot solve, the increment of one ParaDiag iteration solves
the alpha-circulant all-at-once system exactly, a fixed point satisfies the sequential collocation
recurrences.

Tie to /repo (every run):
  T1  every helper matrix (FFT, J, J^-1, weighted FFT/iFFT, E, H) for n_steps 1..16 x alpha over ten
      decades (+ seeded random alphas), entry by entry against the closed forms of the model
      (theorems C15_weighted_*_closed_form) evaluated with 40 digits (mpmath);
  T2  for N | 4, alpha = r^N: the same matrices, E, the per-step factor and G^-1 against the EXACT
      kernel-evaluated Gaussian-rational instance of the model (coqc, vm_compute);
  T3  get_G_inv_matrix(l, L, alpha) for every step against the model's closed form;
  T4  the executable Coq model of k ParaDiag iterations (N in {1,2,4}, one node, Dahlquist with
      Gaussian-dyadic lambdas) against the real controller run with maxiter = k: node values of all steps.
Implementation-side oracles (no model; the theorems' conclusions evaluated on the real code):
  O1  live matrices: V W = I, W V = I, W E V = diag(d) with tolerance scaled by N/alpha;
  O2  live QDiagonalization.update_nodes on linear problems vs a 30-digit solve of
      (G (x) I - dt Q (x) A) x = r;
  O2b ONE sweeper object walked with the public set_G_inv through the factors of several (n_steps, alpha): after each
      call params.G_inv is the argument, update_nodes solves the system of that factor and equals a sweeper constructed
      with it (C15_set_G_inv_frame, C15_one_shot_after_set_G_inv); controllers retuned to another alpha vs sequential;
  O3  one real it_ParaDiag from the spread initial guess: the increment solves the alpha-circulant system;
  O4  converged controller_ParaDiag_nonMPI runs (scalar/vector Dahlquist, heat, advection; IMEX;
      averaged Jacobian on/off; 1..5 RADAU-RIGHT nodes) vs sequential collocation time stepping,
      every step; iteration count vs the alpha/(1-alpha) contraction bound for the non-IMEX runs.
Runs start at t0 = k*dt with k zero, negative, small, large, odd (dt a power of two: all step times are exact floats) and end at
Tend = t0 + blocks * block length (the controller deliberately solves past Tend otherwise); the number of steps taken and every
step's start/end time are compared with t0 + k*dt, and the forced heat equation makes the times visible in the values.
"""
import contextlib
import logging
import math
import signal
import warnings
from fractions import Fraction as Fr

import numpy as np

from harness.common import parse_coq_value, eval_outputs, zlit

LEVEL = 'proof'

REQUIRED = ['C15_weighted_fft_inverse', 'C15_weighted_fft_inverse_right', 'C15_weighted_fft_closed_form',
            'C15_weighted_ifft_closed_form', 'C15_diagonalises_alpha_circulant', 'C15_local_factor_is_eigenvalue',
            'C15_G_inverse_closed_form', 'C15_qdiag_one_shot', 'C15_paradiag_increment_solves_alpha_system',
            'C15_paradiag_fixed_point_is_sequential', 'C15_paradiag_error_equation', 'C15_set_G_inv_frame', 'C15_one_shot_after_set_G_inv', 'C15_gaussian_rationals_field', 'C15_nonvacuous_roots',
            'C15_nonvacuous_one_shot', 'C15_nonvacuous_fixed_point']

EPS = 2.0 ** -52
# tolerances (calibrated on the unchanged tree, observed maxima are recorded in the evidence)
TOL_ENTRY = 1e-11         # relative, helper matrix entries vs 40-digit closed forms (observed <= 6e-14)
TOL_EXACT = 1e-12         # relative, vs exact Coq instance (observed <= 5e-16)
C_INV = 400.0             # |V W - I| <= C_INV * eps * N / alpha            (observed ratio <= 1.5)
C_DIAG = 400.0            # |W E V - D| <= C_DIAG * eps * N                   (observed ratio <= 2)
TOL_GINV = 1e-11          # relative to max(1, 1/|1+d|)                      (observed <= 3e-15)
TOL_SWEEP = 1e-12         # relative, one-shot sweep vs 40-digit solve, times max(1, cond(S)) (observed <= 1e-15)
C_INC = 500.0             # residual of alpha-system <= C_INC * eps * N / alpha * scale (observed ratio <= 2)
RESTOL = 1e-9
TOL_RUN = 1e-7            # converged run vs sequential oracle, relative to max(1,|u|) (observed <= 4e-10)
C_MODEL = 100.0           # Coq model iteration vs real controller: err <= C_MODEL * eps * N / alpha (observed ratio <= 3)


# ----------------------------------------------------------------------------- helpers

class RunTimeout(Exception):
    pass


@contextlib.contextmanager
def time_limit(seconds):
    """The code under test may fail to terminate (e.g. a block whose time does not advance): bound every run."""
    def handler(signum, frame):
        raise RunTimeout('no termination within %d s' % seconds)
    old = signal.signal(signal.SIGALRM, handler)
    signal.setitimer(signal.ITIMER_REAL, seconds)
    try:
        yield
    finally:
        signal.setitimer(signal.ITIMER_REAL, 0)
        signal.signal(signal.SIGALRM, old)


def _imports():
    from pySDC.helpers import ParaDiagHelper as H
    from pySDC.implementations.controller_classes.controller_ParaDiag_nonMPI import controller_ParaDiag_nonMPI
    from pySDC.implementations.sweeper_classes.ParaDiagSweepers import QDiagonalization, QDiagonalizationIMEX
    from pySDC.implementations.problem_classes.TestEquation_0D import testequation0d, test_equation_IMEX
    from pySDC.implementations.problem_classes.HeatEquation_ND_FD import heatNd_unforced, heatNd_forced
    from pySDC.implementations.problem_classes.AdvectionEquation_ND_FD import advectionNd
    from pySDC.implementations.hooks.log_solution import LogSolution
    from pySDC.helpers.stats_helper import get_sorted
    return dict(H=H, ctrl=controller_ParaDiag_nonMPI, QD=QDiagonalization, QDI=QDiagonalizationIMEX,
                dahl=testequation0d, dahl_imex=test_equation_IMEX, heat=heatNd_unforced, heatf=heatNd_forced,
                adv=advectionNd, LogSolution=LogSolution, get_sorted=get_sorted)


def dense(a):
    return np.asarray(a.toarray() if hasattr(a, 'toarray') else a)


def build_controller(I, kind, pp, L, M, alpha, dt, restol, avg, maxiter=99, hooks=True):
    pc, sw = {'dahl': (I['dahl'], I['QD']), 'dahl_imex': (I['dahl_imex'], I['QDI']), 'heat': (I['heat'], I['QD']),
              'heatf': (I['heatf'], I['QDI']), 'adv': (I['adv'], I['QD'])}[kind]
    desc = dict(problem_class=pc, problem_params=dict(pp), sweeper_class=sw,
                sweeper_params=dict(quad_type='RADAU-RIGHT', num_nodes=M, initial_guess='spread'),
                level_params=dict(dt=dt, restol=restol), step_params=dict(maxiter=maxiter))
    cp = dict(logger_level=40, hook_class=[I['LogSolution']] if hooks else [], mssdc_jac=False, alpha=alpha,
              average_jacobian=avg)
    c = I['ctrl'](num_procs=L, controller_params=cp, description=desc)
    for S in c.MS:   # as the repo's own tests do: the time transforms need complex data
        P = S.levels[0].prob
        P.init = tuple([*P.init[:2]] + [np.dtype('complex128')])
    return c


def problem_matrices(I, c):
    """(A_full, A_solve, forcing(t) or None) of the linear problem, from the live problem object."""
    P = c.MS[0].levels[0].prob
    if isinstance(P, I['dahl_imex']):
        Ai = np.diag(np.asarray(P.lambdas_implicit, dtype=complex))
        Ae = np.diag(np.asarray(P.lambdas_explicit, dtype=complex))
        return Ai + Ae, Ai, None
    A = dense(P.A).astype(complex)
    if isinstance(P, I['heatf']):
        def forcing(t):
            z = P.u_init
            z[:] = 0
            return np.asarray(P.eval_f(z, t).expl, dtype=complex).flatten()
        return A, A, forcing
    return A, A, None


def sequential_oracle(Q, nodes, A, forcing, dt, u0, t0, nsteps):
    """Sequential collocation time stepping: on every step solve (I - dt Q (x) A) U = 1 (x) u0 + dt (Q (x) I) g."""
    M = Q.shape[0]
    n = u0.size
    K = np.eye(M * n) - dt * np.kron(Q, A)
    out = []
    t = t0
    for _ in range(nsteps):
        g = np.zeros((M, n), dtype=complex)
        if forcing is not None:
            for m in range(M):
                g[m] = forcing(t + dt * nodes[m])
        rhs = np.kron(np.ones(M), u0) + dt * (np.kron(Q, np.eye(n)) @ g.flatten())
        U = np.linalg.solve(K, rhs)
        U = U + np.linalg.solve(K, rhs - K @ U)     # one step of iterative refinement
        U = U.reshape(M, n)
        u0 = U[-1].copy()
        out.append(U)
        t += dt
    return out


def model_closed_forms(N, alpha, mp):
    """W, V, d of the model (C15_weighted_*_closed_form, d_fac) in 40 digits."""
    a = mp.mpf(alpha)
    gam = a ** (mp.mpf(1) / N)
    s = 1 / mp.sqrt(N)
    om = [mp.expjpi(mp.mpf(-2 * k) / N) for k in range(N)]      # om^k, k mod N
    W = [[om[(j * k) % N] * s * gam ** k for k in range(N)] for j in range(N)]
    V = [[gam ** (-j) * mp.conj(om[(j * k) % N]) * s for k in range(N)] for j in range(N)]
    d = [-gam * om[l % N] for l in range(N)]
    return W, V, d, gam, s, om


def rel_err(live, ref, mp):
    """max over entries of |live - ref| / |ref| (absolute where ref == 0)."""
    worst = 0.0
    where = None
    for j, row in enumerate(ref):
        for k, r in enumerate(row):
            x = live[j][k]
            lv = mp.mpc(float(np.real(x)), float(np.imag(x)))
            e = abs(lv - r)
            e = float(e / abs(r)) if r != 0 else float(e)
            if not (e <= worst):
                worst, where = e, (j, k)
    return worst, where


# ----------------------------------------------------------------------------- T1/O1/T3 helper matrices

def alphas_for(ck, tier):
    decades = [10.0 ** (-k) for k in range(0, 10)]
    extra = [10.0 ** (-ck.rng.uniform(0, 9)) for _ in range(4 if tier == 'quick' else 12)]
    return decades + extra


def check_helper_matrices(ck, I, mp):
    H = I['H']
    obs = dict(entry=0.0, inv=0.0, diag=0.0, ginv=0.0)
    Ns = list(range(1, 17))
    alphas = alphas_for(ck, ck.tier)
    nbad = 0
    for N in Ns:
        for alpha in alphas:
            W, V, d, gam, s, om = model_closed_forms(N, alpha, mp)
            replay = {'n_steps': N, 'alpha': alpha}
            try:
                Fl = np.asarray(H.get_FFT_matrix(N))
                Wl = np.asarray(H.get_weighted_FFT_matrix(N, alpha))
                Vl = np.asarray(H.get_weighted_iFFT_matrix(N, alpha))
                El = dense(H.get_E_matrix(N, alpha))
                Jl = dense(H.get_J_matrix(N, alpha))
                Jil = dense(H.get_J_inv_matrix(N, alpha))
            except Exception as ex:
                nbad += 1
                ck.violation('helper matrix construction raised %s: %s' % (type(ex).__name__, str(ex)[:200]), replay,
                             match={'kind': 'exception', 'stage': 'helper-matrix', 'exception': type(ex).__name__})
                continue
            shapes_ok = all(x.shape == (N, N) for x in (Fl, Wl, Vl, El, Jl, Jil))
            if not shapes_ok:
                ck.violation('helper matrix has wrong shape', replay, match={'kind': 'helper-matrix', 'what': 'shape'})
                nbad += 1
                continue
            Fm = [[om[(j * k) % N] * s for k in range(N)] for j in range(N)]
            Jm = [[gam ** (-k) if j == k else mp.mpf(0) for k in range(N)] for j in range(N)]
            Jim = [[gam ** k if j == k else mp.mpf(0) for k in range(N)] for j in range(N)]
            Em = [[(-mp.mpf(alpha) if (j == 0 and k + 1 == N) else (mp.mpf(-1) if j == k + 1 else mp.mpf(0)))
                   for k in range(N)] for j in range(N)]
            for name, live, ref, tol in (('get_FFT_matrix', Fl, Fm, TOL_ENTRY), ('get_weighted_FFT_matrix', Wl, W, TOL_ENTRY),
                                         ('get_weighted_iFFT_matrix', Vl, V, TOL_ENTRY), ('get_J_matrix', Jl, Jm, TOL_ENTRY),
                                         ('get_J_inv_matrix', Jil, Jim, TOL_ENTRY), ('get_E_matrix', El, Em, 0.0)):
                e, where = rel_err(live, ref, mp)
                if name != 'get_E_matrix':
                    obs['entry'] = max(obs['entry'], e)
                if not (e <= tol):
                    # correspondence differs -> evaluate the oracle (the identities) on this input below
                    nbad += 1
                    ck.violation('%s differs from the model closed form at entry %s (rel. err %.3e)' % (name, where, e),
                                 dict(replay, function=name, entry=where, rel_err=e),
                                 match={'kind': 'helper-matrix', 'what': name})
            # O1: the identities on the live matrices
            I_N = np.eye(N)
            D = np.array([complex(x) for x in d])
            e_inv = max(np.abs(Vl @ Wl - I_N).max(), np.abs(Wl @ Vl - I_N).max())
            e_diag = np.abs(Wl @ El @ Vl - np.diag(D)).max()
            obs['inv'] = max(obs['inv'], e_inv / (EPS * N / alpha))
            obs['diag'] = max(obs['diag'], e_diag / (EPS * N))
            if not (e_inv <= C_INV * EPS * N / alpha):
                nbad += 1
                ck.violation('weighted FFT and iFFT matrices are not inverse to each other (defect %.3e)' % e_inv,
                             dict(replay, defect=float(e_inv)), match={'kind': 'identity', 'what': 'inverse'})
            if not (e_diag <= C_DIAG * EPS * N):
                nbad += 1
                ck.violation('weighted transforms do not diagonalise E_alpha with factors -alpha^(1/N) om^l (defect %.3e)' % e_diag,
                             dict(replay, defect=float(e_diag)), match={'kind': 'identity', 'what': 'diagonalisation'})
            ck.case(key=('mat', N, alpha), nontrivial=N > 1,
                    sample={'n_steps': N, 'alpha': alpha, 'inverse_defect': float(e_inv), 'diag_defect': float(e_diag)})
            # T3: G_inv of every step (alpha = 1, l = 0 is singular by the mathematics: 1 + d_0 = 0)
            if alpha < 1.0:
                for M in ([1, 2, 3] if ck.tier == 'quick' else [1, 2, 3, 4, 5]):
                    sp_ = {'num_nodes': M, 'quad_type': 'RADAU-RIGHT'}
                    for l in range(N):
                        try:
                            Gi = np.asarray(H.get_G_inv_matrix(l, N, alpha, sp_))
                        except Exception as ex:
                            nbad += 1
                            ck.violation('get_G_inv_matrix raised %s: %s' % (type(ex).__name__, str(ex)[:200]), dict(replay, l=l, num_nodes=M),
                                         match={'kind': 'exception', 'stage': 'G_inv', 'exception': type(ex).__name__})
                            continue
                        c = d[l] / (1 + d[l])
                        ref = [[(1 if a == b else 0) - (c if b == M - 1 else 0) for b in range(M)] for a in range(M)]
                        if Gi.shape != (M, M):
                            e = float('inf')
                        else:
                            e, _ = rel_err(Gi, ref, mp)
                        scale = max(1.0, float(1 / abs(1 + d[l])))
                        obs['ginv'] = max(obs['ginv'], e / scale)
                        if not (e <= TOL_GINV * scale):
                            nbad += 1
                            ck.violation('get_G_inv_matrix differs from (d_l H + I)^-1, d_l = -alpha^(1/N) exp(-2 pi i l/N) (rel. err %.3e)' % e,
                                         dict(replay, l=l, num_nodes=M, rel_err=e), match={'kind': 'G_inv', 'M1': M == 1})
                    ck.case(key=('ginv', N, alpha, M), nontrivial=True)
    ck.cov['helper_matrix_max_rel_entry_error'] = obs['entry']
    ck.cov['inverse_defect_over_eps_N_over_alpha'] = obs['inv']
    ck.cov['diagonalisation_defect_over_eps_N'] = obs['diag']
    ck.cov['G_inv_max_scaled_rel_error'] = obs['ginv']
    ck.cov['tolerances'] = dict(TOL_ENTRY=TOL_ENTRY, C_INV=C_INV, C_DIAG=C_DIAG, TOL_GINV=TOL_GINV, TOL_EXACT=TOL_EXACT,
                                TOL_SWEEP=TOL_SWEEP, C_INC=C_INC, RESTOL=RESTOL, TOL_RUN=TOL_RUN, C_MODEL=C_MODEL)
    ck.obligation('helper matrices == model closed forms (n_steps 1..16 x %d alphas)' % len(alphas), nbad == 0,
                  'max rel entry error %.2e' % obs['entry'], kind='correspondence')
    return nbad


# ----------------------------------------------------------------------------- T2 exact instance

def gq_lit(z):
    """Coq GQ literal for a complex number with Fraction parts."""
    re, im = z
    return '(Q2Qc (%s # %d), Q2Qc (%s # %d))' % (zlit(re.numerator), re.denominator, zlit(im.numerator), im.denominator)


def to_c(v):
    """parsed ((num, den), (num, den)), printed by Coq as (num, den, (num, den)) -> (Fraction, Fraction)"""
    return (Fr(v[0], v[1]), Fr(v[2][0], v[2][1]))


def cdiff(x, ref):
    """|x - ref| / max(|ref|, tiny) for float complex x and exact ref = (Fraction, Fraction)."""
    rr, ri = float(ref[0]), float(ref[1])
    den = math.hypot(rr, ri)
    e = math.hypot(float(np.real(x)) - rr, float(np.imag(x)) - ri)
    return e / den if den > 0 else e


def check_exact_instance(ck, I):
    H = I['H']
    cases = []
    for N in (1, 2, 4):
        for _ in range(2 if ck.tier == 'quick' else 5):
            a = ck.rng.randrange(1, 16)
            cases.append((N, Fr(a, 16)))
    cases.append((4, Fr(1, 2)))
    lines = ['From Coq Require Import QArith Qcanon List.', 'From PySDC Require Import Model.ParaDiag.',
             'Import ListNotations.', 'Local Open Scope nat_scope.']
    for idx, (N, r) in enumerate(cases):
        gi = gq_lit((1 / r, Fr(0)))
        al = gq_lit((r ** N, Fr(0)))
        lines += [
            'Definition Wu%d := gq_wfft %d g1 %s.' % (idx, N, gi),
            'Definition Vu%d := gq_wifft %d g1 %s.' % (idx, N, gi),
            'Definition E%d := gq_E %d %s.' % (idx, N, al),
            'Eval vm_compute in (gq_tab2z %d %d Wu%d, gq_tab2z %d %d Vu%d, gq_tab2z %d %d E%d).' % (N, N, idx, N, N, idx, N, N, idx),
            'Eval vm_compute in (gq_tab2z %d %d (gq_mmul %d Vu%d Wu%d), gq_tab2z %d %d (gq_mmul %d (gq_mmul %d Wu%d E%d) Vu%d)).'
            % (N, N, N, idx, idx, N, N, N, N, idx, idx, idx),
            'Eval vm_compute in (map (fun l => goutz (gq_G_diag %d %s %s l)) (seq 0 %d)).' % (N, al, gi, N),
            'Eval vm_compute in (map (fun l => map (fun M => gq_tab2z M M (gq_G_inv M (gq_G_diag %d %s %s l))) [1;2;3]) (seq 0 %d)).'
            % (N, al, gi, N),
        ]
    path = ck.write_gen('Exact_0.v', '\n'.join(lines) + '\n')
    rc, out = ck.coqc(path)
    if rc != 0:
        ck.obligation('exact Gaussian-rational instance evaluates', False, out[-1500:])
        ck.violation('generated exact-instance file does not compile', {'log': out[-3000:]}, match={'kind': 'gen-coq'}, no_input=True)
        return
    vals = [parse_coq_value(v) for v in eval_outputs(out)]
    assert len(vals) == 4 * len(cases), (len(vals), len(cases))
    worst = 0.0
    nbad = 0
    for idx, (N, r) in enumerate(cases):
        (Wu, Vu, Ee), (P1, P2), dg, Gi = vals[4 * idx:4 * idx + 4]
        alpha = float(r ** N)
        assert Fr(alpha) == r ** N
        replay = {'n_steps': N, 'alpha': alpha, 'r': str(r)}
        sq = math.sqrt(N)
        Wl = np.asarray(H.get_weighted_FFT_matrix(N, alpha)) * sq
        Vl = np.asarray(H.get_weighted_iFFT_matrix(N, alpha)) * sq
        El = dense(H.get_E_matrix(N, alpha))
        errs = []
        for j in range(N):
            for k in range(N):
                errs.append(('get_weighted_FFT_matrix', cdiff(Wl[j, k], to_c(Wu[j][k]))))
                errs.append(('get_weighted_iFFT_matrix', cdiff(Vl[j, k], to_c(Vu[j][k]))))
                if (Fr(float(El[j, k])), Fr(0)) != to_c(Ee[j][k]):
                    errs.append(('get_E_matrix', float('inf')))   # exact comparison
        # kernel-evaluated identities of the instance (theorem instances, sanity of the evaluation itself)
        dex = [to_c(x) for x in dg]
        ok_id = all(to_c(P1[j][k]) == ((Fr(N) if j == k else Fr(0)), Fr(0)) for j in range(N) for k in range(N))
        ok_dg = all(to_c(P2[j][k]) == ((dex[j][0] * N, dex[j][1] * N) if j == k else (Fr(0), Fr(0)))
                    for j in range(N) for k in range(N))
        ck.obligation('exact instance N=%d r=%s: Vu Wu = N I and Wu E Vu = N diag(G_diag)' % (N, r), ok_id and ok_dg,
                      kind='kernel-evaluated')
        # expected eigenvalues -r * om^l
        om = {1: [(1, 0)], 2: [(1, 0), (-1, 0)], 4: [(1, 0), (0, -1), (-1, 0), (0, 1)]}[N]
        ok_ev = all(dex[l] == (-r * om[l][0], -r * om[l][1]) for l in range(N))
        ck.obligation('exact instance N=%d r=%s: factors are -r om^l' % (N, r), ok_ev, kind='kernel-evaluated')
        for l in range(N):
            for M in (1, 2, 3):
                Gl = np.asarray(H.get_G_inv_matrix(l, N, alpha, {'num_nodes': M, 'quad_type': 'RADAU-RIGHT'}))
                ref = Gi[l][M - 1]
                for a in range(M):
                    for b in range(M):
                        errs.append(('get_G_inv_matrix', cdiff(Gl[a, b], to_c(ref[a][b]))))
        for name, e in errs:
            worst = max(worst, e if name != 'get_E_matrix' else 0.0)
            if not (e <= TOL_EXACT):
                nbad += 1
                ck.violation('%s differs from the exact kernel-evaluated model instance (rel. err %.3e)' % (name, e),
                             dict(replay, function=name), match={'kind': 'exact-instance', 'what': name})
                break
        ck.case(key=('exact', N, str(r)), nontrivial=N > 1, sample={'exact_instance': replay})
    ck.cov['exact_instance_max_rel_error'] = worst
    ck.obligation('live helper matrices == exact Gaussian-rational model instance (%d cases)' % len(cases), nbad == 0,
                  'max rel error %.2e' % worst, kind='correspondence')


# ----------------------------------------------------------------------------- T4 model iteration vs controller

def dyadic(ck, lo, hi, bits=3):
    den = 1 << bits
    return Fr(ck.rng.randrange(int(lo * den), int(hi * den) + 1), den)


def check_model_iteration(ck, I):
    cases = []
    for N in (1, 2, 4):
        for _ in range(1 if ck.tier == 'quick' else 3):
            r = Fr(ck.rng.randrange(1, 9), 16)
            n = ck.rng.choice([1, 2])
            lam = [(dyadic(ck, -3, -0.25), dyadic(ck, -2, 2)) for _ in range(n)]
            u0 = [(dyadic(ck, -2, 2), dyadic(ck, -2, 2)) for _ in range(n)]
            u0 = [(a if (a, b) != (0, 0) else Fr(1), b) for a, b in u0]
            dt = Fr(1, ck.rng.choice([2, 4, 8]))
            cases.append((N, r, n, lam, u0, dt))
    lines = ['From Coq Require Import QArith Qcanon List.', 'From PySDC Require Import Model.ParaDiag.',
             'Import ListNotations.', 'Local Open Scope nat_scope.',
             'Definition lookup (t : list (list ((Z * Z) * (Z * Z)))) : stepsv GQ := fun l _ i => ginz (nth i (nth l t []) ((0, 1), (0, 1))%Z).']
    for idx, (N, r, n, lam, u0, dt) in enumerate(cases):
        sW, sV = {1: (Fr(1), Fr(1)), 2: (Fr(1), Fr(1, 2)), 4: (Fr(1, 2), Fr(1, 2))}[N]
        p = 'c%d_' % idx
        gi = gq_lit((1 / r, Fr(0)))
        lines += [
            'Definition %slam (i : nat) : GQ := nth i [%s] g0.' % (p, '; '.join(gq_lit(x) for x in lam)),
            'Definition %su0 : vec GQ := fun i => nth i [%s] g0.' % (p, '; '.join(gq_lit(x) for x in u0)),
            'Definition %sA : mat GQ := fun i j => if Nat.eqb i j then %slam i else g0.' % (p, p),
            'Definition %ssolve (fac : GQ) (rhs : vec GQ) : vec GQ := fun i => gdiv (rhs i) (gsub g1 (gmul fac (%slam i))).' % (p, p),
            'Definition %sd (l : nat) := d_fac GQ g1 gmul gopp gdiv (gq_om %d) %s l.' % (p, N, gi),
            'Definition %sGinv (l : nat) : mat GQ := G_inv_cf GQ g0 g1 gadd gmul gsub gdiv 1 (%sd l).' % (p, p),
            'Definition %sS (l : nat) : mat GQ := delta GQ g0 g1.' % p,
            'Definition %sw (l m : nat) : GQ := %sGinv l 0 0.' % (p, p),
            'Definition %sW := gq_wfft %d %s %s.' % (p, N, gq_lit((sW, Fr(0))), gi),
            'Definition %sV := gq_wifft %d %s %s.' % (p, N, gq_lit((sV, Fr(0))), gi),
            'Definition %sit (u : stepsv GQ) := paradiag_iter GQ g0 gadd gmul gsub %d 1 %d %s (fun _ _ => g1) %sA (fun _ _ _ => g0) %sW %sV %sw %sS %sS %sGinv %ssolve %su0 u.'
            % (p, N, n, gq_lit((dt, Fr(0))), p, p, p, p, p, p, p, p, p),
            'Definition %stab (u : stepsv GQ) := map (fun l => map (fun i => goutz (u l 0 i)) (seq 0 %d)) (seq 0 %d).' % (p, n, N),
            'Definition %sT1 := Eval vm_compute in %stab (%sit (fun _ _ i => %su0 i)).' % (p, p, p, p),
            'Definition %sT2 := Eval vm_compute in %stab (%sit (lookup %sT1)).' % (p, p, p, p),
            'Eval vm_compute in (%sT1, %sT2).' % (p, p),
        ]
    path = ck.write_gen('ModelIter_0.v', '\n'.join(lines) + '\n')
    rc, out = ck.coqc(path)
    if rc != 0:
        ck.obligation('Coq model of the ParaDiag iteration evaluates', False, out[-1500:])
        ck.violation('generated model-iteration file does not compile', {'log': out[-3000:]}, match={'kind': 'gen-coq'}, no_input=True)
        return
    vals = [parse_coq_value(v) for v in eval_outputs(out)]
    assert len(vals) == len(cases)
    worst = 0.0
    nbad = 0
    for (N, r, n, lam, u0, dt), (T1, T2) in zip(cases, vals):
        alpha = float(r ** N)
        lamc = np.array([complex(float(a), float(b)) for a, b in lam])
        u0c = np.array([complex(float(a), float(b)) for a, b in u0])
        replay = {'n_steps': N, 'alpha': alpha, 'lambdas': [str(x) for x in lamc], 'u0': [str(x) for x in u0c], 'dt': float(dt)}
        for k, T in ((1, T1), (2, T2)):
            try:
                c = build_controller(I, 'dahl', dict(lambdas=lamc, u0=1.0), N, 1, alpha, float(dt), -1.0, False, maxiter=k, hooks=False)
                P = c.MS[0].levels[0].prob
                uinit = P.u_init
                uinit[:] = u0c
                with time_limit(30):
                    c.run(u0=uinit, t0=0.0, Tend=N * float(dt))
                ref = np.array([[complex(float(to_c(T[l][i])[0]), float(to_c(T[l][i])[1])) for i in range(n)] for l in range(N)])
                live = np.array([np.asarray(c.MS[l].levels[0].u[1]).flatten() for l in range(N)])
                # error relative to the largest magnitude involved (single entries may be close to zero)
                e = float(np.abs(live - ref).max() / max(np.abs(ref).max(), np.abs(u0c).max())) / (EPS * N / alpha)
            except Exception as ex:
                nbad += 1
                ck.violation('controller run for the model comparison raised %s: %s' % (type(ex).__name__, str(ex)[:200]),
                             dict(replay, iterations=k), match={'kind': 'exception', 'stage': 'model-iteration', 'exception': type(ex).__name__})
                continue
            worst = max(worst, e)
            ck.traces += 1
            ck.case(key=('model-iter', N, str(r), k, n), nontrivial=True, sample={'model_iteration': dict(replay, iterations=k, rel_err=e)})
            if not (e <= C_MODEL):
                nbad += 1
                ck.violation('real controller after %d ParaDiag iteration(s) differs from the Coq model (rel. err = %.3e * eps N/alpha)' % (k, e),
                             dict(replay, iterations=k, model=str(T)), match={'kind': 'model-iteration', 'n_steps': N})
    ck.cov['model_iteration_max_rel_error_over_eps_N_over_alpha'] = worst
    ck.obligation('Coq ParaDiag iteration model == real controller (%d cases x 2 iteration counts)' % len(cases), nbad == 0,
                  'max rel error / (eps N/alpha) %.2e' % worst, kind='correspondence')


# ----------------------------------------------------------------------------- problems

def random_problem(ck, kind):
    # step sizes are powers of two: block times then accumulate exactly, so that Tend = blocks * L * dt is hit
    # exactly (with dt = 0.2, L = 16 the controller's float time accumulation runs a 4th block for Tend = 9.6;
    # that is property C06's concern, not this one's)
    rng = ck.rng
    if kind == 'dahl':
        n = rng.choice([1, 1, 2, 3, 4])
        lam = np.array([complex(-rng.uniform(0.1, 6.0), rng.uniform(-4.0, 4.0)) for _ in range(n)])
        return dict(lambdas=lam, u0=1.0), rng.choice([0.0625, 0.125, 0.25])
    if kind == 'dahl_imex':
        n = rng.choice([1, 2, 3])
        li = np.array([complex(-rng.uniform(0.5, 6.0), rng.uniform(-2.0, 2.0)) for _ in range(n)])
        le = np.array([complex(-rng.uniform(0.0, 0.3), rng.uniform(-0.3, 0.3)) for _ in range(n)])
        return dict(lambdas_implicit=li, lambdas_explicit=le, u0=1.0), rng.choice([0.0625, 0.125])
    if kind == 'heat':
        bc = rng.choice(['periodic', 'dirichlet-zero'])
        nv = rng.choice([8, 16]) if bc == 'periodic' else rng.choice([7, 15])
        return dict(nvars=nv, nu=rng.uniform(0.05, 1.0), freq=2, bc=bc, order=rng.choice([2, 4])), rng.choice([2.0 ** -8, 2.0 ** -7, 2.0 ** -6])
    if kind == 'heatf':
        bc = rng.choice(['periodic', 'dirichlet-zero'])
        nv = rng.choice([8, 16]) if bc == 'periodic' else rng.choice([7, 15])
        return dict(nvars=nv, nu=rng.uniform(0.05, 1.0), freq=2, bc=bc), rng.choice([2.0 ** -8, 2.0 ** -7, 2.0 ** -6])
    if kind == 'adv':
        st = rng.choice(['center', 'upwind'])
        return dict(nvars=rng.choice([8, 16]), c=rng.uniform(0.2, 2.0), freq=2, stencil_type=st,
                    order=rng.choice([2, 4] if st == 'center' else [1, 2, 3]), bc='periodic'), rng.choice([2.0 ** -8, 2.0 ** -7, 2.0 ** -6])
    raise ValueError(kind)


def draw_t0(ck, dt):
    """Start time: an integer multiple of the (power-of-two) step size, so that every step time t0 + k dt and
    Tend = t0 + blocks * L * dt are exact floats and the expected number of steps is unambiguous; zero, negative,
    small, large and odd multiples."""
    k = ck.rng.choice([0, 0, -3, 7, -41, 129, 1025, -4099, 65537, ck.rng.randrange(-300, 300)])
    return k * dt


def pp_repr(pp):
    return {k: ([str(x) for x in v] if isinstance(v, np.ndarray) else v) for k, v in pp.items()}



def exact_local_solve(mp, M, n, d_l, Q, As, dt, r):
    """40-digit solution of (G (x) I - dt Q (x) As) x = r with G = d_l H + I."""
    K = mp.matrix(M * n, M * n)
    for a in range(M):
        for b in range(M):
            g_ab = (1 if a == b else 0) + (d_l if b == M - 1 else 0)
            for i in range(n):
                K[a * n + i, b * n + i] += g_ab
                for j in range(n):
                    if As[i, j] != 0:
                        K[a * n + i, b * n + j] -= mp.mpf(float(dt)) * mp.mpf(float(Q[a, b])) * mp.mpc(complex(As[i, j]))
    rhs = mp.matrix([mp.mpc(complex(v)) for v in np.asarray(r).flatten()])
    x = mp.lu_solve(K, rhs)
    return np.array([complex(v) for v in x]).reshape(M, n)


def live_update_nodes(lvl, r):
    """Put r into level.residual, call the real update_nodes, return level.increment as an (M, n) array."""
    P = lvl.prob
    M = r.shape[0]
    lvl.status.unlocked = True
    lvl.status.time = 0.0
    for m in range(M):
        lvl.residual[m] = P.u_init
        lvl.residual[m][:] = r[m].reshape(lvl.residual[m].shape)
    lvl.sweep.update_nodes()
    return np.array([np.asarray(lvl.increment[m]).flatten() for m in range(M)])


# ----------------------------------------------------------------------------- O2 sweeper one-shot

def check_sweeper_one_shot(ck, I, mp):
    ncases = 30 if ck.tier == 'quick' else 400
    worst = 0.0
    ntimeouts = 0
    for _ in range(ncases):
        if ntimeouts >= 3:
            ck.notes.append('stage stopped after 3 non-terminating runs (each reported as a violation)')
            break
        try:
            kind = ck.rng.choice(['dahl', 'dahl', 'heat', 'adv'])
            pp, dt = random_problem(ck, kind)
            if kind != 'dahl':
                pp['nvars'] = 8 if pp.get('bc') == 'periodic' else 7
            L = ck.rng.choice([1, 2, 3, 4, 8])
            M = ck.rng.choice([1, 2, 3, 4, 5])
            alpha = 10.0 ** (-ck.rng.uniform(0.3, 8))
            c = build_controller(I, kind, pp, L, M, alpha, dt, -1.0, False, hooks=False)
            A, As, _ = problem_matrices(I, c)
            n = A.shape[0]
            l = ck.rng.randrange(L)
            lvl = c.MS[l].levels[0]
            sw = lvl.sweep
            P = lvl.prob
            lvl.status.unlocked = True
            lvl.status.time = 0.0
            r = np.array([[complex(ck.rng.uniform(-1, 1), ck.rng.uniform(-1, 1)) for _ in range(n)] for _ in range(M)])
            for m in range(M):
                lvl.residual[m] = P.u_init
                lvl.residual[m][:] = r[m].reshape(lvl.residual[m].shape)
            sw.update_nodes()
            x_live = np.array([np.asarray(lvl.increment[m]).flatten() for m in range(M)])
            # exact: (G (x) I - dt Q (x) A) x = r with G = d_l H + I, d_l from the model
            _, _, d, _, _, _ = model_closed_forms(L, alpha, mp)
            Q = np.asarray(sw.coll.Qmat[1:, 1:], dtype=float)
            x_ref = exact_local_solve(mp, M, n, d[l], Q, As, dt, r)
            scale = np.abs(x_ref).max()
            condS = float(np.linalg.cond(sw.S))
            e = np.abs(x_live - x_ref).max() / scale
            worst = max(worst, e / max(1.0, condS))
            replay = {'problem': kind, 'problem_params': pp_repr(pp), 'dt': dt, 'n_steps': L, 'step': l, 'num_nodes': M,
                      'alpha': alpha, 'residual': [[str(v) for v in row] for row in r], 'rel_err': float(e), 'cond_S': condS}
            ck.case(key=('sweep', kind, L, l, M, round(math.log10(alpha), 3)), nontrivial=True, sample={'one_shot': {k: replay[k] for k in ('problem', 'n_steps', 'step', 'num_nodes', 'alpha', 'rel_err')}})
            ck.traces += 1
            if not (e <= TOL_SWEEP * max(1.0, condS)):
                ck.violation('QDiagonalization.update_nodes does not solve (G (x) I - dt Q (x) A) x = r (rel. err %.3e)' % e,
                             replay, match={'kind': 'one-shot', 'problem': kind})
        except Exception as ex:    # exceptions of the code under test are findings, not crashes
            if isinstance(ex, RunTimeout):
                ntimeouts += 1
            ck.violation('one-shot-sweep raised %s: %s' % (type(ex).__name__, str(ex)[:200]), {'seed': ck.seed, 'locals': {k: str(v)[:300] for k, v in locals().items() if k in ('kind', 'pp', 'dt', 'L', 'M', 'alpha', 'l')}},
                         match={'kind': 'exception', 'stage': 'one-shot-sweep', 'exception': type(ex).__name__})
    ck.cov['one_shot_max_rel_error_over_condS'] = worst



# ----------------------------------------------------------------------------- O2b set_G_inv: state is a function of the last argument

def check_set_G_inv(ck, I, mp):
    """C15_set_G_inv_frame / C15_one_shot_after_set_G_inv on the implementation.
    (a) ONE sweeper object is walked with the public set_G_inv through the per-step factors of several (L, alpha)
        (with repeats and returns to earlier factors); after every call: params.G_inv is the argument, update_nodes
        solves the local system of THAT factor (40-digit solve), and the result equals that of a sweeper
        constructed with the factor;
    (b) a controller built for one alpha and retuned to another (params.alpha + set_G_inv on every step) must behave
        like a freshly built one: sequential-collocation values, iteration bound."""
    H = I['H']
    get_sorted = I['get_sorted']
    nsweepers = 4 if ck.tier == 'quick' else 24
    worst = 0.0
    worst_fresh = 0.0
    for _ in range(nsweepers):
        try:
            pp, dt = random_problem(ck, 'dahl')
            M = ck.rng.choice([1, 2, 3, 4, 5])
            c = build_controller(I, 'dahl', pp, 1, M, 10.0 ** (-ck.rng.uniform(0.3, 6)), dt, -1.0, False, hooks=False)
            A, As, _ = problem_matrices(I, c)
            n = A.shape[0]
            lvl = c.MS[0].levels[0]
            sw = lvl.sweep
            Q = np.asarray(sw.coll.Qmat[1:, 1:], dtype=float)
            sp_ = {'num_nodes': M, 'quad_type': 'RADAU-RIGHT'}
            walk = []
            for _k in range(3):
                L = ck.rng.choice([1, 2, 3, 4, 5, 8, 16])
                alpha = 10.0 ** (-ck.rng.uniform(0.3, 8))
                ls = list(range(L)) if L <= 4 else ck.rng.sample(range(L), 4)
                walk += [(L, alpha, l) for l in ls]
            walk += [walk[0], walk[0], walk[len(walk) // 2]]       # idempotence, return to an earlier factor
            fresh_at = set(ck.rng.sample(range(len(walk)), 2))
            for pos, (L, alpha, l) in enumerate(walk):
                G_inv = np.asarray(H.get_G_inv_matrix(l, L, alpha, sp_))
                sw.set_G_inv(G_inv)
                r = np.array([[complex(ck.rng.uniform(-1, 1), ck.rng.uniform(-1, 1)) for _ in range(n)] for _ in range(M)])
                x_live = live_update_nodes(lvl, r)
                _, _, d, _, _, _ = model_closed_forms(L, alpha, mp)
                x_ref = exact_local_solve(mp, M, n, d[l], Q, As, dt, r)
                condS = float(np.linalg.cond(sw.S))
                e = float(np.abs(x_live - x_ref).max() / np.abs(x_ref).max())
                worst = max(worst, e / max(1.0, condS))
                stored = np.array_equal(np.asarray(sw.params.G_inv), G_inv)
                replay = {'problem': 'dahl', 'problem_params': pp_repr(pp), 'dt': dt, 'num_nodes': M,
                          'sequence_of_set_G_inv_calls (n_steps, alpha, step)': [list(x) for x in walk[:pos + 1]],
                          'residual': [[str(v) for v in row] for row in r], 'rel_err': e, 'params_G_inv_is_argument': bool(stored)}
                ck.case(key=('setG', M, L, l, round(math.log10(alpha), 3), pos), nontrivial=pos > 0,
                        sample={'set_G_inv_walk': {'num_nodes': M, 'position': pos, 'n_steps': L, 'step': l, 'alpha': alpha, 'rel_err': e}})
                ck.traces += 1
                if not stored:
                    ck.violation('after set_G_inv(g) the factor update_nodes multiplies with (params.G_inv) is not g', replay,
                                 match={'kind': 'set_G_inv', 'what': 'stored-factor'})
                if not (e <= TOL_SWEEP * max(1.0, condS)):
                    ck.violation('after set_G_inv(g) update_nodes does not solve (g^-1 (x) I - dt Q (x) A) x = r (rel. err %.3e): '
                                 'the local solve depends on an earlier configuration of the sweeper' % e, replay,
                                 match={'kind': 'set_G_inv', 'what': 'one-shot'})
                if pos in fresh_at:
                    cf = build_controller(I, 'dahl', pp, L, M, alpha, dt, -1.0, False, hooks=False)
                    x_fresh = live_update_nodes(cf.MS[l].levels[0], r)
                    ef = float(np.abs(x_live - x_fresh).max() / np.abs(x_fresh).max())
                    worst_fresh = max(worst_fresh, ef)
                    if not (ef <= 1e-12):
                        ck.violation('sweeper reconfigured with set_G_inv differs from a sweeper constructed with the same factor (rel. diff %.3e)' % ef,
                                     dict(replay, rel_diff_to_fresh=ef), match={'kind': 'set_G_inv', 'what': 'frame'})
        except Exception as ex:
            ck.violation('set_G_inv walk raised %s: %s' % (type(ex).__name__, str(ex)[:200]),
                         {'seed': ck.seed, 'locals': {k: str(v)[:300] for k, v in locals().items() if k in ('pp', 'dt', 'M', 'walk')}},
                         match={'kind': 'exception', 'stage': 'set_G_inv', 'exception': type(ex).__name__})
    ck.cov['set_G_inv_walk_max_rel_error_over_condS'] = worst
    ck.cov['set_G_inv_vs_fresh_max_rel_diff'] = worst_fresh
    # (b) retuned controller
    nret = 4 if ck.tier == 'quick' else 24
    worst_r = 0.0
    for idx in range(nret):
        try:
            kind = ['dahl', 'heat', 'dahl_imex', 'adv'][idx % 4]
            pp, dt = random_problem(ck, kind)
            if 'nvars' in pp:
                pp['nvars'] = 8 if pp.get('bc') == 'periodic' else 7
            L = ck.rng.choice([2, 3, 4, 6, 8])
            M = ck.rng.choice([1, 2, 3, 4])
            alpha0 = 10.0 ** (-ck.rng.uniform(0.7, 1.5))
            alpha1 = 10.0 ** (-ck.rng.uniform(2.5, 5))
            if idx % 2:
                alpha0, alpha1 = alpha1, alpha0
            maxiter = 60
            c = build_controller(I, kind, pp, L, M, alpha0, dt, RESTOL, False, maxiter=maxiter)
            c.params.alpha = alpha1
            sp_ = {'num_nodes': M, 'quad_type': 'RADAU-RIGHT'}
            for l in range(L):
                c.MS[l].levels[0].sweep.set_G_inv(np.asarray(H.get_G_inv_matrix(l, L, alpha1, sp_)))
            A, As, forcing = problem_matrices(I, c)
            lvl0 = c.MS[0].levels[0]
            u0 = lvl0.prob.u_exact(0.0)
            u0c = np.asarray(u0, dtype=complex).flatten()
            t0 = draw_t0(ck, dt)
            with warnings.catch_warnings():
                warnings.simplefilter('ignore')
                with time_limit(30):
                    uend, stats = c.run(u0=u0, t0=t0, Tend=t0 + L * dt)
            niter = max(me[1] for me in get_sorted(stats, type='niter'))
            Q = np.asarray(lvl0.sweep.coll.Qmat[1:, 1:], dtype=float)
            ref = sequential_oracle(Q, lvl0.sweep.coll.nodes, A, forcing, dt, u0c, t0, L)
            scale = max(1.0, max(np.abs(U).max() for U in ref))
            e = max(np.abs(np.asarray(c.MS[l].levels[0].u[m + 1]).flatten() - ref[l][m]).max() for l in range(L) for m in range(M)) / scale
            replay = {'problem': kind, 'problem_params': pp_repr(pp), 'dt': dt, 'n_steps': L, 'num_nodes': M,
                      't0': t0, 'alpha_at_construction': alpha0, 'alpha_after_retuning (params.alpha + set_G_inv on every step)': alpha1,
                      'niter': int(niter), 'err': float(e)}
            ck.case(key=('retune', kind, L, M, round(math.log10(alpha0), 3), round(math.log10(alpha1), 3)), nontrivial=True,
                    sample={'retuned_controller': {k: replay[k] for k in ('problem', 'n_steps', 'num_nodes', 'niter', 'err')}})
            ck.traces += 1
            worst_r = max(worst_r, float(e)) if niter < maxiter else worst_r
            imex = kind in ('dahl_imex', 'heatf')
            rate = alpha1 / (1 - alpha1)
            bound = math.ceil(math.log(RESTOL * 1e-3) / math.log(rate)) + 3
            if niter >= maxiter:
                ck.violation('ParaDiag controller retuned from alpha=%.3g to alpha=%.3g did not converge within %d iterations' % (alpha0, alpha1, maxiter),
                             replay, match={'kind': 'set_G_inv', 'what': 'retuned-controller', 'imex': imex})
            elif not (e <= TOL_RUN):
                ck.violation('retuned ParaDiag controller differs from sequential collocation time stepping (rel. err %.3e)' % e,
                             replay, match={'kind': 'set_G_inv', 'what': 'retuned-controller', 'imex': imex})
            elif not imex and niter > bound:
                ck.violation('retuned ParaDiag controller needed %d iterations, alpha/(1-alpha) of the new alpha allows %d' % (niter, bound),
                             replay, match={'kind': 'set_G_inv', 'what': 'retuned-controller', 'imex': imex})
        except Exception as ex:
            ck.violation('retuned controller raised %s: %s' % (type(ex).__name__, str(ex)[:200]),
                         {'seed': ck.seed, 'locals': {k: str(v)[:300] for k, v in locals().items() if k in ('kind', 'pp', 'dt', 'L', 'M', 'alpha0', 'alpha1')}},
                         match={'kind': 'exception', 'stage': 'retuned-controller', 'exception': type(ex).__name__})
    ck.cov['retuned_controller_max_rel_error'] = worst_r


# ----------------------------------------------------------------------------- O3 one iteration solves alpha-system

def check_increment_system(ck, I):
    ncases = 30 if ck.tier == 'quick' else 400
    worst = 0.0
    worst_e = 0.0
    ntimeouts = 0
    for _ in range(ncases):
        if ntimeouts >= 3:
            ck.notes.append('stage stopped after 3 non-terminating runs (each reported as a violation)')
            break
        try:
            kind = ck.rng.choice(['dahl', 'dahl', 'heat', 'adv', 'dahl_imex', 'heatf'])
            pp, dt = random_problem(ck, kind)
            if 'nvars' in pp:
                pp['nvars'] = 8 if pp.get('bc') == 'periodic' else 7
            L = ck.rng.choice([1, 2, 3, 4, 5, 8, 12, 16])
            M = ck.rng.choice([1, 2, 3, 4, 5])
            alpha = 10.0 ** (-ck.rng.uniform(0.3, 6))
            avg = ck.rng.choice([False, True])
            c = build_controller(I, kind, pp, L, M, alpha, dt, -1.0, avg, maxiter=1, hooks=False)
            A, As, forcing = problem_matrices(I, c)
            n = A.shape[0]
            lvl0 = c.MS[0].levels[0]
            P = lvl0.prob
            u0 = np.array([complex(ck.rng.uniform(-1, 1), ck.rng.uniform(-1, 1)) for _ in range(n)])
            uinit = P.u_init
            uinit[:] = u0.reshape(uinit.shape)
            t0 = draw_t0(ck, dt)
            with time_limit(30):
                c.run(u0=uinit, t0=t0, Tend=t0 + L * dt)
            Q = np.asarray(lvl0.sweep.coll.Qmat[1:, 1:], dtype=float)
            nodes = lvl0.sweep.coll.nodes
            inc = np.array([[np.asarray(c.MS[l].levels[0].u[m + 1]).flatten() - u0 for m in range(M)] for l in range(L)])
            # residual of the spread state: r_{l,m} = dt sum_j Q_mj (A u0 + g(t_l + dt c_j))
            r = np.zeros((L, M, n), dtype=complex)
            for l in range(L):
                F_ = np.array([A @ u0 + (forcing(t0 + l * dt + dt * nodes[j]) if forcing is not None else 0) for j in range(M)])
                r[l] = dt * (Q @ F_)
            E = np.zeros((L, L))
            for j in range(1, L):
                E[j, j - 1] = -1.0
            E[0, L - 1] = -alpha
            Hm = np.zeros((M, M))
            Hm[:, -1] = 1.0
            Kalpha = np.kron(np.eye(L), np.eye(M * n) - dt * np.kron(Q, As)) + np.kron(E, np.kron(Hm, np.eye(n)))
            defect = np.abs(Kalpha @ inc.flatten() - r.flatten()).max()
            scale = max(np.abs(r).max(), np.abs(inc).max())
            ratio = defect / (EPS * L / alpha * scale)
            worst = max(worst, ratio)
            replay = {'problem': kind, 'problem_params': pp_repr(pp), 'dt': dt, 'n_steps': L, 'num_nodes': M, 'alpha': alpha,
                      'average_jacobian': avg, 't0': t0, 'u0': [str(v) for v in u0], 'defect': float(defect), 'scale': float(scale)}
            ck.case(key=('incr', kind, L, M, round(math.log10(alpha), 3), avg), nontrivial=L > 1,
                    sample={'increment_system': {k: replay[k] for k in ('problem', 'n_steps', 'num_nodes', 'alpha', 'defect')}})
            ck.traces += 1
            if kind not in ('dahl_imex', 'heatf'):
                # C15_paradiag_error_equation on the implementation:
                # K_alpha (u1 - ustar) = -alpha H (u_spread - ustar)_{L-1} in step 0, zero in the other steps
                ref = np.array(sequential_oracle(Q, nodes, A, forcing, dt, u0, t0, L))
                e1 = (inc + u0[None, None, :]) - ref
                rhs_e = np.zeros((L, M, n), dtype=complex)
                rhs_e[0, :, :] = -alpha * (u0 - ref[L - 1, M - 1])[None, :]
                defect_e = np.abs(Kalpha @ e1.flatten() - rhs_e.flatten()).max()
                ratio_e = defect_e / (EPS * L / alpha * max(scale, np.abs(ref).max()))
                worst_e = max(worst_e, ratio_e)
                if not (ratio_e <= C_INC):
                    ck.violation('error after one it_ParaDiag does not satisfy the error equation C_alpha e\' = -alpha H e_end (defect %.3e)' % defect_e,
                                 dict(replay, defect_error_equation=float(defect_e)), match={'kind': 'error-equation', 'problem': kind})
            if not (ratio <= C_INC):
                ck.violation('the increment of one it_ParaDiag does not solve the alpha-circulant all-at-once system (defect %.3e, scale %.3e)' % (defect, scale),
                             replay, match={'kind': 'increment-system', 'problem': kind, 'imex': kind in ('dahl_imex', 'heatf')})
        except Exception as ex:    # exceptions of the code under test are findings, not crashes
            if isinstance(ex, RunTimeout):
                ntimeouts += 1
            ck.violation('single-iteration raised %s: %s' % (type(ex).__name__, str(ex)[:200]), {'seed': ck.seed, 'locals': {k: str(v)[:300] for k, v in locals().items() if k in ('kind', 'pp', 'dt', 'L', 'M', 'alpha', 'avg')}},
                         match={'kind': 'exception', 'stage': 'single-iteration', 'exception': type(ex).__name__})
    ck.cov['increment_system_defect_over_eps_N_over_alpha'] = worst
    ck.cov['error_equation_defect_over_eps_N_over_alpha'] = worst_e


# ----------------------------------------------------------------------------- O4 converged runs

def check_converged_runs(ck, I):
    get_sorted = I['get_sorted']
    if ck.tier == 'quick':
        Ls = [1, 2, 3, 4, 8]
        ncases = 60
    else:
        Ls = [1, 2, 3, 4, 5, 6, 8, 12, 16]
        ncases = 1200
    kinds = ['dahl', 'dahl', 'dahl_imex', 'heat', 'heatf', 'adv']
    worst = 0.0
    worst_iter_ratio = 0.0
    ntimeouts = 0
    for idx in range(ncases):
        if ntimeouts >= 3:
            ck.notes.append('stage stopped after 3 non-terminating runs (each reported as a violation)')
            break
        try:
            kind = kinds[idx % len(kinds)]
            pp, dt = random_problem(ck, kind)
            L = ck.rng.choice(Ls)
            M = 1 + (idx // len(kinds)) % 5
            alpha = 10.0 ** (-ck.rng.uniform(0.7, 5))
            avg = bool((idx // 3) % 2)
            nblocks = ck.rng.choice([1, 2, 3])
            maxiter = 60
            c = build_controller(I, kind, pp, L, M, alpha, dt, RESTOL, avg, maxiter=maxiter)
            A, As, forcing = problem_matrices(I, c)
            lvl0 = c.MS[0].levels[0]
            P = lvl0.prob
            u0 = P.u_exact(0.0)
            u0c = np.asarray(u0, dtype=complex).flatten()
            t0 = draw_t0(ck, dt)
            Tend = t0 + L * dt * nblocks     # t0 + multiple of the block length, exact in floating point
            with warnings.catch_warnings():
                warnings.simplefilter('ignore')
                with time_limit(30):
                    uend, stats = c.run(u0=u0, t0=t0, Tend=Tend)
            us = get_sorted(stats, type='u', sortby='time')
            niter = max(me[1] for me in get_sorted(stats, type='niter'))
            Q = np.asarray(lvl0.sweep.coll.Qmat[1:, 1:], dtype=float)
            ref = sequential_oracle(Q, lvl0.sweep.coll.nodes, A, forcing, dt, u0c, t0, L * nblocks)
            replay = {'problem': kind, 'problem_params': pp_repr(pp), 'dt': dt, 'n_steps': L, 'num_nodes': M, 'alpha': alpha,
                      'average_jacobian': avg, 't0': t0, 'Tend': Tend, 'blocks': nblocks, 'restol': RESTOL, 'niter': int(niter)}
            match = {'kind': 'converged-run', 'problem': kind, 'imex': kind in ('dahl_imex', 'heatf'), 't0_zero': t0 == 0.0}
            ck.traces += 1
            if len(us) != L * nblocks:
                ck.violation('ParaDiag run from t0=%r to Tend=%r with dt=%r took %d steps, sequential time stepping takes %d'
                             % (t0, Tend, dt, len(us), L * nblocks), dict(replay, step_end_times=[float(u[0]) for u in us][:80]),
                             match=dict(match, what='steps'))
                continue
            # every step must cover [t0 + k dt, t0 + (k+1) dt] (all exactly representable)
            times = [float(u[0]) for u in us]
            expected = [t0 + (k + 1) * dt for k in range(L * nblocks)]
            last_block_starts = [float(c.MS[l].levels[0].time) for l in range(L)]
            expected_starts = [t0 + ((nblocks - 1) * L + l) * dt for l in range(L)]
            if times != expected or last_block_starts != expected_starts:
                ck.violation('ParaDiag steps are not at the times t0 + k dt', dict(replay, step_end_times=times[:80], expected=expected[:80],
                                                                                 last_block_start_times=last_block_starts, expected_starts=expected_starts),
                             match=dict(match, what='times'))
                continue
            scale = max(1.0, max(np.abs(U).max() for U in ref))
            e_steps = max(np.abs(np.asarray(u[1]).flatten() - U[-1]).max() for u, U in zip(us, ref)) / scale
            e_end = np.abs(np.asarray(uend).flatten() - ref[-1][-1]).max() / scale
            # node values of the last block are still in the steps
            e_nodes = 0.0
            for l in range(L):
                U = ref[(nblocks - 1) * L + l]
                for m in range(M):
                    e_nodes = max(e_nodes, np.abs(np.asarray(c.MS[l].levels[0].u[m + 1]).flatten() - U[m]).max() / scale)
            e = max(e_steps, e_end, e_nodes)
            worst = max(worst, e)
            ck.case(key=('run', kind, L, M, round(math.log10(alpha), 3), avg, nblocks, t0), nontrivial=True,
                    sample={'converged_run': dict({k: replay[k] for k in ('problem', 'n_steps', 'num_nodes', 'alpha', 't0', 'blocks', 'niter')}, err=float(e))})
            if niter >= maxiter:
                ck.violation('ParaDiag did not converge within %d iterations on a linear dissipative problem' % maxiter, replay,
                             match=dict(match, what='no-convergence'))
                continue
            if not (e <= TOL_RUN):
                ck.violation('converged ParaDiag run differs from sequential collocation time stepping (rel. err %.3e)' % e,
                             dict(replay, err=float(e), err_step_end_values=float(e_steps), err_uend=float(e_end), err_last_block_nodes=float(e_nodes)),
                             match=dict(match, what='value'))
                continue
            if kind not in ('dahl_imex', 'heatf'):
                # contraction alpha/(1-alpha) per iteration (exact preconditioner for linear problems)
                rate = alpha / (1 - alpha)
                bound = math.ceil(math.log(RESTOL * 1e-3) / math.log(rate)) + 3
                worst_iter_ratio = max(worst_iter_ratio, niter / bound)
                if niter > bound:
                    ck.violation('ParaDiag needed %d iterations, contraction alpha/(1-alpha) allows at most %d' % (niter, bound),
                                 replay, match=dict(match, what='rate'))
        except Exception as ex:    # exceptions of the code under test are findings, not crashes
            if isinstance(ex, RunTimeout):
                ntimeouts += 1
            ck.violation('converged-run raised %s: %s' % (type(ex).__name__, str(ex)[:200]), {'case': idx, 'seed': ck.seed, 'locals': {k: str(v)[:300] for k, v in locals().items() if k in ('kind', 'pp', 'dt', 'L', 'M', 'alpha', 'avg', 'nblocks')}},
                         match={'kind': 'exception', 'stage': 'converged-run', 'exception': type(ex).__name__})
    ck.cov['converged_run_max_rel_error'] = worst
    ck.cov['iterations_over_bound_max'] = worst_iter_ratio


# ----------------------------------------------------------------------------- main

def run(ck):
    ck.rule = ('helper matrices: every n_steps 1..16 x alpha in {1e0..1e-9} + seeded log-uniform alphas (distinct = (n_steps, alpha)); '
               'exact instance: N in {1,2,4}, alpha = (a/16)^N; G_inv: every step l < n_steps, 1..5 nodes; sweeps / single iterations / '
               'converged runs: seeded random linear problems (Dahlquist with complex lambdas, IMEX Dahlquist, FD heat periodic/Dirichlet '
               'orders 2/4, forced heat IMEX, FD advection centred/upwind), n_steps up to 16, 1..5 RADAU-RIGHT nodes, alpha log-uniform, '
               'averaged Jacobian on/off; distinct = (problem kind, n_steps, nodes, alpha, ...); non-trivial = more than one step')
    ck.check_props(required=REQUIRED)
    logging.disable(logging.WARNING)
    import mpmath as mp
    mp.mp.dps = 40
    I = _imports()
    warnings.filterwarnings('ignore')
    ck.log('helper matrices vs closed forms, identities, G_inv')
    check_helper_matrices(ck, I, mp)
    ck.log('exact Gaussian-rational instance')
    check_exact_instance(ck, I)
    ck.log('Coq iteration model vs controller')
    check_model_iteration(ck, I)
    ck.log('sweeper one-shot')
    check_sweeper_one_shot(ck, I, mp)
    ck.log('set_G_inv: reconfigured sweepers / retuned controllers')
    check_set_G_inv(ck, I, mp)
    ck.log('increment solves alpha-circulant system')
    check_increment_system(ck, I)
    ck.log('converged runs vs sequential collocation')
    check_converged_runs(ck, I)
    logging.disable(logging.NOTSET)
