"""C18 — finite-difference stencils and matrices.

Tie to /repo (every run):
  * stencil tables are regenerated from pySDC.helpers.problem_helper and validated by the Coq
    validator `check_stencil` (sound by theorem C18_stencil_exact_for_all_polynomials);
  * `get_steps` model vs real `get_steps` (exact);
  * periodic matrices: Coq model `periodic_matrix` vs the real matrix, entry by entry, exactly;
  * Dirichlet closures: each boundary row, extended by the coefficient that the returned vector b
    carries for the boundary value, is validated as a stencil by the same Coq validator;
  * implementation-side oracle (no model): the real matrix (exact rational image) applied to
    random polynomials reproduces their exact derivative up to the boundary (Dirichlet, Neumann,
    mixed; both treatments), 2-D/3-D matrices equal the Kronecker sums of the 1-D matrix.
"""
import itertools
import math
from fractions import Fraction as F

import numpy as np

from harness.common import coq_list, dy_lit, zlit, parse_coq_value, eval_outputs, float_to_dy

LEVEL = 'proof'
RTOL_EXP = -34      # validator tolerance 2^-34 relative to sum |w_i||s_i|^k (observed defects <= 2^-47)
ORACLE_RTOL = F(1, 2 ** 30)

ST = {'center': 'Center', 'forward': 'Forward', 'backward': 'Backward', 'upwind': 'Upwind'}


def exact_defect(coeff, steps, der):
    worst = F(0)
    n = len(steps)
    for k in range(n):
        m = sum(F(float(c)) * F(int(s)) ** k for c, s in zip(coeff, steps))
        tgt = math.factorial(k) if k == der else 0
        scale = sum(abs(F(float(c))) * abs(F(int(s))) ** k for c, s in zip(coeff, steps)) or F(1)
        worst = max(worst, abs(m - tgt) / scale)
    return worst


def poly_eval(c, x):
    r = F(0)
    for a in reversed(c):
        r = r * x + a
    return r


def poly_der(c, d):
    c = list(c)
    for _ in range(d):
        c = [k * c[k] for k in range(1, len(c))]
    return c


def run(ck):
    from pySDC.helpers import problem_helper as ph
    rng = ck.rng
    thorough = ck.tier == 'thorough'
    ck.rule = ('stencils: every (derivative 1-4, order 1-8, layout) the code accepts + seeded custom integer offset sets; '
               'matrices: sizes from the stencil span upwards, all bc kinds; a case is non-trivial when the stencil has >= 2 points '
               'and distinct when its (kind, derivative, order/offsets, layout, size, bc) tuple is new')
    ck.check_props(required=['C18_stencil_exact_for_all_polynomials', 'C18_neumann_row_exact_for_all_polynomials', 'C18_periodic_wraps', 'C18_steps_count',
                             'C18_2d_matrix_applies_operator_along_each_axis', 'C18_3d_matrix_applies_operator_along_each_axis'])

    # ------------------------------------------------------------------ 1. stencil tables
    stencils = []   # (label, der, steps(list int), coeff(list float))
    steps_cases = []
    rejected = []
    for der in range(1, 5):
        for order in range(1, 9):
            for st in ST:
                try:
                    n, raw_steps = ph.get_steps(der, order, st)
                    steps_cases.append((der, order, st, [int(s) for s in raw_steps], int(n)))
                    coeff, steps = ph.get_finite_difference_stencil(der, order, st)
                except Exception as e:  # the code rejects e.g. centred order 1 for even derivatives
                    rejected.append((der, order, st, type(e).__name__))
                    continue
                stencils.append((('layout', der, order, st), der, [int(s) for s in steps], [float(c) for c in coeff]))
    ncustom = 120 if thorough else 40
    for _ in range(ncustom):
        der = rng.randint(1, 4)
        n = rng.randint(der + 1, min(der + 6, 9))
        offs = sorted(rng.sample(range(-6, 7), n))
        shuffled = offs[:]
        rng.shuffle(shuffled)
        coeff, steps = ph.get_finite_difference_stencil(der, steps=np.array(shuffled))
        stencils.append((('custom', der, tuple(shuffled)), der, [int(s) for s in steps], [float(c) for c in coeff]))
    ck.cov['rejected_by_code'] = rejected

    # sortedness / distinctness of returned offsets (implementation-side)
    for lab, der, steps, coeff in stencils:
        if steps != sorted(set(steps)) or len(steps) != len(coeff):
            ck.violation('stencil offsets not sorted/distinct', {'case': lab, 'steps': steps}, match={'kind': 'steps'})

    # ------------------------------------------------------------------ 2. matrices (periodic, exact)
    mats = []   # (label, size, steps, coeff, dense rows of floats)
    per_sizes_extra = [0, 1, 2, 5] if not thorough else [0, 1, 2, 3, 5, 8]
    per_source = [s for s in stencils if s[0][0] == 'custom' or s[0][2] in (1, 2, 3, 4, 6)]
    if not thorough:
        per_source = [s for i, s in enumerate(per_source) if i % 2 == 0 or s[0][0] == 'custom']
    for lab, der, steps, coeff in per_source:
        base = max(max(abs(s) for s in steps), max(steps) - min(steps)) + 1
        for extra in per_sizes_extra:
            size = base + extra
            kw = dict(derivative=der, order=(lab[2] if lab[0] == 'layout' else None), dx=1.0, size=size, dim=1, bc='periodic')
            if lab[0] == 'layout':
                kw['stencil_type'] = lab[3]
            else:
                kw['steps'] = np.array(lab[2])   # the same (unsorted) offsets the stencil table was built from
            try:
                A, b = ph.get_finite_difference_matrix(**kw)
                dense = np.asarray(A.todense(), dtype=float)
                err = None
            except Exception as e:
                dense, err = None, '%s: %s' % (type(e).__name__, e)
            mats.append((lab, size, steps, coeff, dense, err, b if err is None else None))

    # ------------------------------------------------------------------ Coq: tables file
    rtol = '(Dy 1 (%d))' % RTOL_EXP
    L = ['From Coq Require Import ZArith List Bool.', 'From PySDC Require Import Base.Dyadic Model.FD.',
         'Import ListNotations.', 'Open Scope Z_scope.', '']
    L.append('Definition stencils : list (list Z * list dy * nat) := [')
    L.append(';\n'.join('  (%s, %s, %d%%nat)' % (coq_list([zlit(s) for s in steps]), coq_list([dy_lit(c) for c in coeff]), der)
                        for lab, der, steps, coeff in stencils))
    L.append('].')
    L.append('Definition chk (t : list Z * list dy * nat) := let \'(s, w, d) := t in check_stencil s w d %s.' % rtol)
    L.append('Definition bad (t : list Z * list dy * nat) := let \'(s, w, d) := t in '
             'match first_bad_moment s w d %s with Some k => Z.of_nat k | None => if chk t then -1 else -2 end.' % rtol)
    L.append('Eval vm_compute in map bad stencils.')
    L.append('Definition steps_cfgs : list (Z * Z * stencil_type) := ' +
             coq_list(['(%d, %d, %s)' % (d, o, ST[st]) for d, o, st, _, _ in steps_cases]) + '.')
    L.append("Eval vm_compute in map (fun '(d, o, t) => (steps_n d o t, get_steps d o t)) steps_cfgs.")
    path = ck.write_gen('Data_stencils.v', '\n'.join(L) + '\n')
    rc, out = ck.coqc(path, timeout=900)
    if rc != 0:
        ck.obligation('Data_stencils.v evaluates', False, out[-1500:])
        ck.violation('generated stencil table does not compile', {'log': out[-3000:]}, match={'kind': 'gen'}, no_input=True)
        return
    vals = [parse_coq_value(v) for v in eval_outputs(out)]
    bad = vals[0]
    assert len(bad) == len(stencils), (len(bad), len(stencils))
    worst = F(0)
    for (lab, der, steps, coeff), b in zip(stencils, bad):
        ck.case(key=('stencil',) + tuple(lab), nontrivial=len(steps) >= 2,
                sample={'kind': 'stencil', 'case': lab, 'steps': steps, 'weights': coeff})
        dfc = exact_defect(coeff, steps, der)
        worst = max(worst, dfc)
        ok = (b == -1)
        ck.obligation('check_stencil %s' % (lab,), ok, '' if ok else 'first failing moment k=%s' % b)
        if not ok:
            ck.violation('stencil weights returned by get_finite_difference_stencil violate the moment condition k=%s '
                         '(relative defect %.3e recomputed on the implementation values)' % (b, float(dfc)),
                         {'call': 'get_finite_difference_stencil', 'case': lab, 'steps': steps, 'weights': [c.hex() for c in coeff],
                          'failing_moment': b, 'relative_defect': float(dfc)},
                         match={'kind': 'stencil', 'case': str(lab)})
    ck.cov['stencil_worst_relative_defect'] = float(worst)
    ck.cov['stencil_validator_rtol'] = 2.0 ** RTOL_EXP
    # get_steps correspondence
    got = vals[1]
    for (d, o, st, steps, n), g in zip(steps_cases, got):
        ck.case(key=('steps', d, o, st), nontrivial=True)
        if g[0] != n or list(g[1]) != steps:
            ck.violation('get_steps differs from its model', {'derivative': d, 'order': o, 'stencil_type': st,
                                                              'impl': [n, steps], 'model': [g[0], list(g[1])]},
                         match={'kind': 'get_steps'})
    ck.obligation('get_steps model = implementation on %d configurations' % len(steps_cases), True)

    # ------------------------------------------------------------------ Coq: periodic matrices
    good = [m for m in mats if m[5] is None]
    for m in mats:
        if m[5] is not None:
            lab, size, steps, coeff, _, err, _ = m
            ck.case(key=('periodic', str(lab), size), sample={'kind': 'periodic-matrix', 'case': lab, 'size': size})
            ck.violation('get_finite_difference_matrix(periodic) raised %s' % err,
                         {'call': 'get_finite_difference_matrix', 'case': lab, 'size': size, 'steps': steps, 'bc': 'periodic', 'error': err},
                         match={'kind': 'periodic', 'custom': lab[0] == 'custom'})
    chunks = [good[i:i + 60] for i in range(0, len(good), 60)]
    files = []
    for ci, chunk in enumerate(chunks):
        L = ['From Coq Require Import ZArith List Bool.', 'From PySDC Require Import Base.Dyadic Model.FD.',
             'Import ListNotations.', 'Open Scope Z_scope.', '']
        L.append('Definition cases : list (nat * list Z * list dy * list (list dy)) := [')
        items = []
        for lab, size, steps, coeff, dense, err, b in chunk:
            rows = coq_list([coq_list([dy_lit(x) for x in row]) for row in dense])
            items.append('  (%d%%nat, %s, %s, %s)' % (size, coq_list([zlit(s) for s in steps]), coq_list([dy_lit(c) for c in coeff]), rows))
        L.append(';\n'.join(items))
        L.append('].')
        L.append("Eval vm_compute in map (fun '(n, s, w, A) => mat_eqb (periodic_matrix n s w) A && steps_small (Z.of_nat n) s) cases.")
        files.append(ck.write_gen('Cases_periodic_%d.v' % ci, '\n'.join(L) + '\n'))
    res = []
    for f in files:
        rc, out = ck.coqc(f, timeout=900)
        if rc != 0:
            ck.obligation('periodic cases evaluate', False, out[-1500:])
            ck.violation('generated periodic cases do not compile', {'log': out[-3000:]}, match={'kind': 'gen'}, no_input=True)
            return
        res += parse_coq_value(eval_outputs(out)[0])
    assert len(res) == len(good)
    nper_bad = 0
    for (lab, size, steps, coeff, dense, err, b), ok in zip(good, res):
        ck.case(key=('periodic', str(lab), size), sample={'kind': 'periodic-matrix', 'case': lab, 'size': size})
        ck.traces += 1
        if np.any(b != 0):
            ok = False
        if not ok:
            nper_bad += 1
            # implementation-side: find a (row, col) where the wrap pattern is violated
            wit = None
            for r in range(size):
                exp = np.zeros(size)
                for s, c in zip(steps, coeff):
                    exp[(r + s) % size] += c
                if not np.array_equal(exp, dense[r]):
                    wit = {'row': r, 'expected_row': exp.tolist(), 'actual_row': dense[r].tolist()}
                    break
            ck.violation('periodic matrix does not apply the stencil with wrap-around (size %d, offsets %s)' % (size, steps),
                         {'call': 'get_finite_difference_matrix', 'case': lab, 'size': size, 'steps': steps, 'bc': 'periodic',
                          'weights': coeff, 'witness': wit},
                         match={'kind': 'periodic', 'custom': lab[0] == 'custom'}, no_input=wit is None)
    ck.obligation('periodic_matrix model = implementation on %d matrices' % len(good), nper_bad == 0)

    # ------------------------------------------------------------------ 3. Dirichlet / Neumann closures
    ext_rows = []    # (label, der, steps, weights) -> Coq validator
    neu_rows = []    # (label, der, steps, weights, c, g, n) -> Coq validator check_neumann_row
    bcs = ['dirichlet', 'neumann', ('dirichlet', 'neumann'), ('neumann', 'dirichlet')]
    combos = []
    for der in (1, 2, 3, 4):
        for order in (2, 4, 6, 8) if thorough else (2, 4, 6):
            for st in (['center'] if der % 2 == 0 else ['center', 'upwind', 'forward', 'backward']):
                combos.append((der, order, st))
    worst_or = F(0)
    # user-supplied offsets together with a non-periodic boundary: `order` stays what the caller says (closure width
    # order + derivative, Neumann closure of order `order`), the interior rows carry the custom stencil
    custom = [(2, 4, [-2, -1, 0, 1, 2]), (1, 4, [-3, -1, 1, 3]), (2, 2, [-1, 0, 1]), (1, 4, [-2, -1, 0, 1, 2]), (1, 3, [-1, 0, 1, 2]),
              (3, 2, [-2, -1, 0, 1, 2]), (1, 2, [-1, 0, 1]), (2, 6, [-3, -2, -1, 0, 1, 2, 3])]
    closure_cases = [(der, order, st, None) for der, order, st in combos] + [(der, order, 'custom', stp) for der, order, stp in custom]
    for der, order, st, cst in closure_cases:
        kw = dict(stencil_type=st) if cst is None else dict(steps=list(cst))
        try:
            c0, s0 = (ph.get_finite_difference_stencil(der, order, st) if cst is None
                      else ph.get_finite_difference_stencil(derivative=der, order=order, steps=np.array(cst)))
        except Exception:
            continue
        span = int(max(s0) - min(s0))
        for bc in bcs:
            for size in [order + der + 1, order + der + 4]:
                vl, vr = F(rng.randint(-8, 8), 4), F(rng.randint(-8, 8), 4)
                par = [{'val': float(vl)}, {'val': float(vr)}]
                lab = ('closure', der, order, st if cst is None else str(cst), str(bc), size)
                try:
                    A, b = ph.get_finite_difference_matrix(derivative=der, order=order, dx=1.0, size=size, dim=1, **kw,
                                                           bc=bc, bc_params=par)
                except Exception as e:
                    ck.violation('get_finite_difference_matrix raised %s: %s' % (type(e).__name__, e),
                                 {'case': lab}, match={'kind': 'closure-raise'})
                    continue
                D = np.asarray(A.todense(), dtype=float)
                ck.case(key=lab, sample={'kind': 'closure', 'case': lab})
                bcl = bc if isinstance(bc, str) else bc[0]
                bcr = bc if isinstance(bc, str) else bc[1]
                # ---- implementation-side oracle: A p + b = p^(d) on the whole grid for polynomials within the exactness degree
                # grid points x_i = i+1 (dx = 1), boundaries at 0 and size+1
                deg_max = order + der - 1
                if 'neumann' in (bcl, bcr):
                    deg_max = min(deg_max, order)   # one-sided first-derivative closure of order `order`
                xl, xr = F(0), F(size + 1)
                for trial in range(3):
                    deg = deg_max if trial == 0 else rng.randint(0, deg_max)
                    c = [F(rng.randint(-5, 5), rng.randint(1, 3)) for _ in range(deg + 1)]
                    # mesh width: 1, or (last trial) a dyadic width != 1 so that the dx scaling of the matrix AND of the boundary
                    # vector (Dirichlet: val/dx^d-weighted, Neumann: val*dx/dx^d-weighted) is part of the oracle
                    dxo = F(1) if trial < 2 else rng.choice([F(1, 2), F(1, 4), F(2)])
                    xl, xr = F(0), dxo * (size + 1)
                    # we *choose* the polynomial and set val to match it, re-assembling with those vals
                    pl = poly_eval(c, xl) if bcl == 'dirichlet' else poly_eval(poly_der(c, 1), xl)
                    pr = poly_eval(c, xr) if bcr == 'dirichlet' else poly_eval(poly_der(c, 1), xr)
                    A2, b2 = ph.get_finite_difference_matrix(derivative=der, order=order, dx=float(dxo), size=size, dim=1, **kw,
                                                             bc=bc, bc_params=[{'val': float(pl)}, {'val': float(pr)}])
                    D2 = np.asarray(A2.todense(), dtype=float)
                    pd = poly_der(c, der)
                    for r in range(size):
                        lhs = sum(F(float(D2[r, j])) * poly_eval(c, dxo * (j + 1)) for j in range(size) if D2[r, j] != 0.0) + F(float(b2[r]))
                        rhs = poly_eval(pd, dxo * (r + 1))
                        scale = sum(abs(F(float(D2[r, j]))) * abs(poly_eval(c, dxo * (j + 1))) for j in range(size)) + abs(F(float(b2[r]))) + 1
                        rel = abs(lhs - rhs) / scale
                        worst_or = max(worst_or, rel)
                        if rel > ORACLE_RTOL:
                            ck.violation('matrix + boundary vector do not reproduce the derivative of a polynomial of degree %d at row %d (dx = %s)' % (deg, r, dxo),
                                         {'call': 'get_finite_difference_matrix', 'case': lab, 'poly_coeffs': [str(x) for x in c], 'row': r, 'dx': float(dxo),
                                          'lhs': float(lhs), 'rhs': float(rhs), 'vals': [float(pl), float(pr)]},
                                         match={'kind': 'closure-oracle', 'bc': str(bc)})
                            break
                # ---- Coq validator on Dirichlet rows (extended by the boundary coefficient), unit boundary values
                A1, b1 = ph.get_finite_difference_matrix(derivative=der, order=order, dx=1.0, size=size, dim=1, **kw,
                                                         bc=bc, bc_params=[{'val': 1.0}, {'val': 1.0}])
                D1 = np.asarray(A1.todense(), dtype=float)
                sw_l, sw_r = int(-min(s0)), int(max(s0))
                npts = order + der
                for r in range(size):
                    left = r < sw_l
                    right = r >= size - sw_r
                    if left and right:
                        continue
                    if left and bcl == 'dirichlet':
                        cols = list(range(0, npts - 1))
                        steps = [-(r + 1)] + [j - r for j in cols]
                        w = [float(b1[r])] + [float(D1[r, j]) for j in cols]
                        rest = [j for j in range(size) if j not in cols and D1[r, j] != 0.0]
                    elif right and bcr == 'dirichlet':
                        cols = list(range(size - (npts - 1), size))
                        steps = [j - r for j in cols] + [size - r]
                        w = [float(D1[r, j]) for j in cols] + [float(b1[r])]
                        rest = [j for j in range(size) if j not in cols and D1[r, j] != 0.0]
                    elif (left and bcl == 'neumann') or (right and bcr == 'neumann'):
                        # Neumann row: b_coeff[1:] - (b_0/n_0) n_coeff[1:] on the first (last) max(npts-1, order) columns, and
                        # the boundary vector carries (b_0/n_0) * val * dx: with val = dx = 1 it IS the coefficient of h p'(x_b)
                        width = max(npts - 1, order)
                        cols = list(range(0, width)) if left else list(range(size - width, size))
                        if width > size:
                            continue
                        steps = [j - r for j in cols]
                        w = [float(D1[r, j]) for j in cols]
                        rest = [j for j in range(size) if j not in cols and D1[r, j] != 0.0]
                        if rest:
                            ck.violation('Neumann boundary row %d has entries outside the closure support' % r, {'case': lab, 'row': r, 'cols': rest},
                                         match={'kind': 'closure-support'})
                        g = -(r + 1) if left else size - r
                        neu_rows.append((lab + (r,), der, steps, w, float(b1[r]), g, order + 1))
                        continue
                    elif not left and not right:
                        steps = [int(s) for s in s0]
                        w = [float(D1[r, r + s]) for s in steps]
                        rest = [j for j in range(size) if (j - r) not in steps and D1[r, j] != 0.0]
                        if float(b1[r]) != 0.0:
                            rest.append('b')
                        # interior rows must carry the stencil weights bit for bit
                        if any(wi != float(ci) for wi, ci in zip(w, c0)):
                            ck.violation('interior row %d does not carry the stencil weights' % r,
                                         {'case': lab, 'row': r, 'row_weights': w, 'stencil': [float(x) for x in c0]},
                                         match={'kind': 'interior-row'})
                        continue
                    else:
                        continue
                    if rest:
                        ck.violation('boundary row %d has entries outside the closure support' % r, {'case': lab, 'row': r, 'cols': rest},
                                     match={'kind': 'closure-support'})
                    ext_rows.append((lab + (r,), der, steps, w))
    ck.cov['closure_oracle_worst_relative_defect'] = float(worst_or)
    # ---- per-side boundary parameters act on their own side only: a matrix built with different parameter dicts for the two sides
    #      (keys given for one side only; the other side falls back to the documented defaults) must consist of the left rows of the
    #      matrix built with the left dict on both sides and the right rows of the matrix built with the right dict on both sides
    nside = 0
    for der, order, st in combos[:: (2 if thorough else 5)]:
        for bc in ['dirichlet', 'neumann', ('dirichlet', 'neumann'), ('neumann', 'dirichlet')]:
            size = 2 * (order + der) + 3
            variants = [({'val': 1.5}, {}), ({}, {'val': -0.75}), ({'val': 2.0, 'reduce': True}, {}), ({}, {'reduce': True}),
                        ({'neumann_bc_order': 2, 'val': 0.5}, {}), ({}, {'neumann_bc_order': 2}),
                        ({'val': 1.25, 'neumann_bc_order': max(1, order - 1)}, {'val': -2.0, 'reduce': True})]
            for dl, dr in variants:
                try:
                    kw3 = dict(derivative=der, order=order, stencil_type=st, dx=1.0, size=size, dim=1, bc=bc)
                    Aa, ba = ph.get_finite_difference_matrix(bc_params=[dict(dl), dict(dr)], **kw3)
                    Al, bl = ph.get_finite_difference_matrix(bc_params=[dict(dl), dict(dl)], **kw3)
                    Ar, br = ph.get_finite_difference_matrix(bc_params=[dict(dr), dict(dr)], **kw3)
                except Exception as e:
                    continue
                Da, Dl, Dr = (np.asarray(x.todense(), dtype=float) for x in (Aa, Al, Ar))
                half = size // 2
                nside += 1
                ck.evaluations += 1
                okL = np.array_equal(Da[:half], Dl[:half]) and np.array_equal(np.asarray(ba)[:half], np.asarray(bl)[:half])
                okR = np.array_equal(Da[half:], Dr[half:]) and np.array_equal(np.asarray(ba)[half:], np.asarray(br)[half:])
                if not (okL and okR):
                    ck.violation('boundary parameters of one side act on the other side: matrix built with per-side parameter dicts %r / %r is not '
                                 'made of the left rows for the left dict and the right rows for the right dict (%s side differs)'
                                 % (dl, dr, 'left' if not okL else 'right'),
                                 {'call': 'get_finite_difference_matrix', 'derivative': der, 'order': order, 'stencil_type': st, 'bc': str(bc), 'size': size,
                                  'bc_params': [dl, dr]}, match={'kind': 'bc-params-side', 'side': 'left' if not okL else 'right'})
    ck.cov['per_side_parameter_cases'] = nside

    if ext_rows:
        L = ['From Coq Require Import ZArith List Bool.', 'From PySDC Require Import Base.Dyadic Model.FD.',
             'Import ListNotations.', 'Open Scope Z_scope.', '']
        L.append('Definition rows : list (list Z * list dy * nat) := [')
        L.append(';\n'.join('  (%s, %s, %d%%nat)' % (coq_list([zlit(s) for s in steps]), coq_list([dy_lit(c) for c in w]), der)
                            for lab, der, steps, w in ext_rows))
        L.append('].')
        L.append("Eval vm_compute in map (fun '(s, w, d) => check_stencil s w d %s) rows." % rtol)
        rc, out = ck.coqc(ck.write_gen('Data_closures.v', '\n'.join(L) + '\n'), timeout=900)
        if rc != 0:
            ck.obligation('Data_closures.v evaluates', False, out[-1500:])
            ck.violation('generated closure table does not compile', {'log': out[-3000:]}, match={'kind': 'gen'}, no_input=True)
            return
        res = parse_coq_value(eval_outputs(out)[0])
        nbad = 0
        for (lab, der, steps, w), ok in zip(ext_rows, res):
            ck.evaluations += 1
            if not ok:
                nbad += 1
                ck.violation('Dirichlet boundary row (with its boundary-vector coefficient) is not an exact stencil: %s' % (lab,),
                             {'case': lab, 'steps': steps, 'weights': w, 'relative_defect': float(exact_defect(w, steps, der))},
                             match={'kind': 'closure-row'})
        ck.obligation('check_stencil on %d Dirichlet boundary rows' % len(ext_rows), nbad == 0)

    if neu_rows:
        L = ['From Coq Require Import ZArith List Bool.', 'From PySDC Require Import Base.Dyadic Model.FD.',
             'Import ListNotations.', 'Open Scope Z_scope.', '']
        L.append('Definition rows : list (list Z * list dy * dy * Z * nat * nat) := [')
        L.append(';\n'.join('  (%s, %s, %s, %s, %d%%nat, %d%%nat)' % (coq_list([zlit(s) for s in steps]), coq_list([dy_lit(c) for c in w]), dy_lit(cc), zlit(g), der, n)
                            for lab, der, steps, w, cc, g, n in neu_rows))
        L.append('].')
        L.append("Eval vm_compute in map (fun '(s, w, c, g, d, n) => check_neumann_row s w c g d %s n) rows." % rtol)
        rc, out = ck.coqc(ck.write_gen('Data_neumann.v', '\n'.join(L) + '\n'), timeout=900)
        if rc != 0:
            ck.obligation('Data_neumann.v evaluates', False, out[-1500:])
            ck.violation('generated Neumann row table does not compile', {'log': out[-3000:]}, match={'kind': 'gen'}, no_input=True)
            return
        res = parse_coq_value(eval_outputs(out)[0])
        nbad = 0
        for (lab, der, steps, w, cc, g, n), ok in zip(neu_rows, res):
            ck.evaluations += 1
            if not ok:
                nbad += 1
                ck.violation('Neumann boundary row (with its boundary-vector coefficient) is not exact for polynomials of degree < %d: %s' % (n, lab),
                             {'case': lab, 'steps': steps, 'weights': w, 'b_coefficient': cc, 'boundary_offset': g},
                             match={'kind': 'neumann-row'})
        ck.obligation('check_neumann_row on %d Neumann boundary rows' % len(neu_rows), nbad == 0)

    # ------------------------------------------------------------------ 4. dx scaling, n-D Kronecker sums, grid
    import scipy.sparse as sp
    nk = 0
    nd_cases = []
    for der, order, st in combos[:: (1 if thorough else 3)]:
        for bc in ['periodic', 'dirichlet', 'neumann']:
            size = order + der + 2
            try:
                A1, b1 = ph.get_finite_difference_matrix(derivative=der, order=order, stencil_type=st, dx=1.0, size=size, dim=1, bc=bc)
            except Exception:
                continue
            D1 = np.asarray(A1.todense(), dtype=float)
            dx = rng.choice([0.5, 0.125, 0.1, 1.0 / 3, 2.5])
            Ad, bd = ph.get_finite_difference_matrix(derivative=der, order=order, stencil_type=st, dx=dx, size=size, dim=1, bc=bc)
            Dd = np.asarray(Ad.todense(), dtype=float)
            ref = D1 / dx ** der
            if not np.allclose(Dd, ref, rtol=1e-14, atol=0):
                ck.violation('matrix does not scale with dx^-derivative', {'der': der, 'order': order, 'st': st, 'bc': bc, 'dx': dx},
                             match={'kind': 'dx-scaling'})
            for dim in (2, 3):
                if dim == 3 and size > 9:
                    continue
                An, bn = ph.get_finite_difference_matrix(derivative=der, order=order, stencil_type=st, dx=1.0, size=size, dim=dim, bc=bc)
                I = sp.eye(size)
                if dim == 2:
                    K = sp.kron(A1, I) + sp.kron(I, A1)
                else:
                    K = sp.kron(A1, sp.eye(size ** 2)) + sp.kron(sp.eye(size ** 2), A1) + sp.kron(sp.kron(I, A1), I)
                Dn = np.asarray(An.todense()); Dk = np.asarray(K.todense())
                # independent exact check of the Kronecker-sum structure on index level
                ok = Dn.shape == (size ** dim,) * 2 and len(bn) == size ** dim
                if ok:
                    idx = list(itertools.product(range(size), repeat=dim))
                    for _ in range(200):
                        p, q = rng.choice(idx), rng.choice(idx)
                        exp = F(0)
                        mag = F(0)      # the float sum of up to three terms may cancel: tolerance relative to the terms
                        for ax in range(dim):
                            if all(p[a] == q[a] for a in range(dim) if a != ax):
                                exp += F(float(D1[p[ax], q[ax]]))
                                mag += abs(F(float(D1[p[ax], q[ax]])))
                        flat = lambda t: sum(t[a] * size ** (dim - 1 - a) for a in range(dim))
                        got = F(float(Dn[flat(p), flat(q)]))
                        if abs(got - exp) > mag * F(1, 2 ** 48):
                            ok = False
                            break
                # the same entries through the Coq entry functions fd2_entry / fd3_entry (kernel-evaluated below)
                if ok and len(nd_cases) < (400 if thorough else 60):
                    pairs = []
                    idx = list(itertools.product(range(size), repeat=dim))
                    for _ in range(24):
                        p_ = rng.choice(idx)
                        q_ = list(rng.choice(idx))
                        if rng.random() < 0.7:      # mostly pairs that differ in at most one axis (the non-zero pattern)
                            ax = rng.randrange(dim)
                            q_ = [p_[a] if a != ax else q_[a] for a in range(dim)]
                        r_, c_ = flat(p_), flat(tuple(q_))
                        got = F(float(Dn[r_, c_]))
                        mag = sum(abs(F(float(D1[p_[ax], q_[ax]]))) for ax in range(dim) if all(p_[a] == q_[a] for a in range(dim) if a != ax))
                        pairs.append((r_, c_, got, mag * F(1, 2 ** 48)))
                    nd_cases.append(((der, order, st, bc, dim, size), dim, size, [[F(float(x)) for x in row] for row in D1.tolist()], pairs))
                nk += 1
                ck.case(key=('kron', der, order, st, bc, dim), sample=None)
                if not ok:
                    ck.violation('%d-D matrix is not the Kronecker sum of the 1-D matrix' % dim,
                                 {'der': der, 'order': order, 'st': st, 'bc': bc, 'size': size, 'dim': dim}, match={'kind': 'kron'})
    ck.cov['kron_cases'] = nk
    if nd_cases:
        from harness.props.c02 import qc, qcm
        L = ['From Coq Require Import List ZArith QArith Qabs Qcanon.', 'From PySDC Require Import Model.Sweep Model.SweepExec Model.FDnd.',
             'Import ListNotations.', 'Local Open Scope Qc_scope.',
             'Definition okq (model got tol : Qc) : bool := Qle_bool (Qabs (this model - this got)%Q) (this tol).']
        for k, (lab, dim, size, A, pairs) in enumerate(nd_cases):
            L.append('Definition A%d := mat %s.' % (k, qcm(A)))
            fn = 'fd2_entry' if dim == 2 else 'fd3_entry'
            L.append("Eval vm_compute in map (fun '(r, c, got, tol) => okq (%s 0 1 Qcplus Qcmult %d%%nat A%d r c) got tol) %s."
                     % (fn, size, k, coq_list(['(%d%%nat, %d%%nat, %s, %s)' % (r_, c_, qc(g), qc(t)) for r_, c_, g, t in pairs])))
        rc, out = ck.coqc(ck.write_gen('Data_nd.v', '\n'.join(L) + '\n'), timeout=900)
        if rc != 0:
            ck.obligation('Data_nd.v evaluates', False, out[-1500:])
            ck.violation('generated n-D entry table does not compile', {'log': out[-3000:]}, match={'kind': 'gen'}, no_input=True)
            return
        outs = eval_outputs(out)
        nbad = 0
        for (lab, dim, size, A, pairs), o in zip(nd_cases, outs):
            res = parse_coq_value(o)
            for (r_, c_, g, t), okv in zip(pairs, res):
                ck.evaluations += 1
                if not okv:
                    nbad += 1
                    ck.violation('%d-D matrix entry (%d, %d) differs from the Kronecker-sum entry function of the model: %s' % (dim, r_, c_, lab),
                                 {'case': lab, 'row': r_, 'col': c_, 'entry': float(g)}, match={'kind': 'kron-entry', 'dim': dim})
        ck.obligation('fd2_entry/fd3_entry = real n-D matrix entries on %d matrices' % len(nd_cases), nbad == 0)
    for bc in ['periodic', 'dirichlet', 'neumann', 'dirichlet-zero']:
        for _ in range(10):
            size = rng.randint(2, 40)
            lo = rng.uniform(-5, 5); hi = lo + rng.uniform(0.1, 7)
            dx, xs = ph.get_1d_grid(size, bc, lo, hi)
            Lf = F(hi) - F(lo)
            edx = Lf / size if bc == 'periodic' else Lf / (size + 1)
            ex = [F(lo) + edx * (i if bc == 'periodic' else i + 1) for i in range(size)]
            ck.evaluations += 1
            if abs(F(float(dx)) - edx) > abs(edx) * F(1, 2 ** 50) or any(abs(F(float(a)) - e) > F(1, 2 ** 45) * (abs(e) + 1) for a, e in zip(xs, ex)) or len(xs) != size:
                ck.violation('get_1d_grid wrong', {'size': size, 'bc': bc, 'left': lo, 'right': hi}, match={'kind': 'grid'})
