"""C16 — field files round-trip bit-exactly and survive interrupted appends; BlockDecomposition partitions the grid.

Tie to /repo (every run):
  * byte-exact differential: seeded random op sequences (setHeader / initialize with and without
    ALLOW_OVERWRITE / addField / re-open through FieldsIO.fromFile, Scalar.fromFile, Rectilinear.fromFile /
    readField, time, times, nFields at random (also negative, out-of-range) indices / truncate at a random byte
    = simulated crash / remove / append again) are executed by the REAL classes on real files in a scratch
    directory under coq/gen/C16; the Coq kernel runs the executable model `FieldsIO.run0` on the same op list;
    every result (errors by class, header values, times, field bytes) and the file's bytes after every
    mutating op must be equal;
  * quick AND thorough tier enumerate EVERY truncation offset of the last append and of header creation for
    a set of small files covering all dtypes x Scalar/1-D/2-D/3-D (cov['exhaustive_crash_points']);
  * BlockDecomposition: all nProcs 1..64 (thorough 1..256) x grid-size set x both algorithms x both orders:
    nBlocks and localBounds of every rank equal the Coq model `Blocks.decomposition`.
Implementation-side oracle (no Coq model involved): the harness keeps the list of records it wrote
(numpy bytes) and checks every read of the real code against it: completed records intact after a crash,
torn record never reported, appended record read back, existing file not overwritten; for blocks:
prod(nBlocks) == nProcs and a numpy coverage count == 1 on every grid point.
"""
import ast
import concurrent.futures
import itertools
import os
import re
import struct

import numpy as np

from harness.common import parse_coq_value, eval_outputs

LEVEL = 'proof'

ITEMSIZE = {0: 8, 1: 16, 2: 16, 3: 32, 4: 4, 5: 8}
ERRS = {'AssertionError': 'EAssert', 'FileExistsError': 'EExists', 'FileNotFoundError': 'ENotFound',
        'ValueError': 'EValue', 'KeyError': 'EKey', 'TypeError': 'EType'}

REQUIRED = ['C16_header_roundtrip', 'C16_records_roundtrip', 'C16_crash_prefix_safe', 'C16_torn_tail_safe',
            'C16_append_after_crash_refuted', 'C16_append_after_crash_safe_when_aligned', 'C16_overwrite_protected',
            'C16_header_crash_safe', 'C16_any_history',
            'C16_axis_tiling', 'C16_ranks_bijective', 'C16_nblocks_product', 'C16_partition']


# ----------------------------------------------------------------------------- byte helpers / Coq literals

def bz(b):
    """(len, 7-byte little-endian words) of a byte string — the transport format of Model.FieldsIO.unB."""
    return (len(b), [int.from_bytes(b[i:i + 7], 'little') for i in range(0, len(b), 7)])


def blit(b):
    return '(B %d [%s]%%uint63)' % (len(b), '; '.join('0x%x' % w for w in bz(b)[1]))


def hdr_lit(h):
    return '(mkHeader %s %d %s [%s])' % ('SScalar' if h['kind'] == 'S' else 'SRect', h['dt'],
                                         ('(%d)' % h['nVar']) if h['nVar'] < 0 else str(h['nVar']),
                                         '; '.join(blit(c) for c in h['coords']))


def zl(n):
    return '(%d)' % n if n < 0 else '%d' % n


def op_lit(op):
    k = op[0]
    if k == 'new':
        return 'ONew ' + hdr_lit(op[1])
    if k == 'init':
        return 'OInit %d%%nat %s' % (op[1], 'true' if op[2] else 'false')
    if k == 'open':
        return 'OOpen'
    if k == 'add':
        return 'OAdd %d%%nat %d %d %s %s' % (op[1], op[2], op[3], blit(op[4]), blit(op[5]))
    if k == 'read':
        return 'ORead %d%%nat %s' % (op[1], zl(op[2]))
    if k == 'time':
        return 'OTime %d%%nat %s' % (op[1], zl(op[2]))
    if k == 'times':
        return 'OTimes %d%%nat' % op[1]
    if k == 'nfields':
        return 'ONFields %d%%nat' % op[1]
    if k == 'trunc':
        return 'OTrunc %d' % op[1]
    if k == 'remove':
        return 'ORemove'
    raise ValueError(k)


def op_from_json(j):
    k = j[0]
    if k == 'new':
        h = dict(j[1])
        h['coords'] = [bytes.fromhex(c) for c in h['coords']]
        return ('new', h)
    if k == 'add':
        return ('add', j[1], j[2], j[3], bytes.fromhex(j[4]), bytes.fromhex(j[5])) + tuple(j[6:7])
    return tuple(j)


def op_json(op):
    return [x.hex() if isinstance(x, (bytes, bytearray)) else
            ({**x, 'coords': [c.hex() for c in x['coords']]} if isinstance(x, dict) else x) for x in op]


def hsize(h):
    return 10 if h['kind'] == 'S' else 2 + 4 * (2 + len(h['coords'])) + sum(len(c) for c in h['coords'])


def nitems(h):
    n = h['nVar']
    if h['kind'] == 'R':
        for c in h['coords']:
            n *= len(c) // 8
    return n


def fsize(h):
    return nitems(h) * ITEMSIZE[h['dt']]


def hkey(h):
    return (h['kind'], h['dt'], h['nVar'], tuple(h['coords']))


# ----------------------------------------------------------------------------- the real code driver

LAYOUTS = ['C', 'F', 'T', 'S', 'N', 'R', 'FR']


def with_layout(arr, layout):
    """The same LOGICAL array (shape, dtype, C-order element sequence) in another memory layout:
    C = C-contiguous, F = Fortran-ordered copy, T = transposed view of a C-contiguous base, S = strided
    (every second element of the last axis of a larger buffer), N = negative stride along the last axis,
    R = read-only (suffix).  All constructions are same-dtype copies/views (raw bytes, no arithmetic)."""
    a = arr
    if 'F' in layout:
        a = np.asfortranarray(a)
    elif 'T' in layout:
        a = np.ascontiguousarray(a.T).T
    elif 'S' in layout and a.ndim >= 1:
        big = np.zeros(a.shape[:-1] + (2 * a.shape[-1] + 1,), dtype=a.dtype)
        big[..., 1::2] = a
        a = big[..., 1::2]
    elif 'N' in layout and a.ndim >= 1:
        a = a[..., ::-1].copy()[..., ::-1]
    if 'R' in layout:
        a = a.view()
        a.setflags(write=False)
    return a


class Real:
    """Executes ops with the real FieldsIO classes on one real file; returns results in the normal form
    that parse_coq_value gives for the model's (res, snap) pairs."""

    def __init__(self, path):
        from pySDC.helpers import fieldsIO as fio
        self.fio = fio
        self.path = path
        self.handles = []     # (object, header dict as the harness knows it)
        if os.path.exists(path):
            os.remove(path)

    def snap(self):
        if not os.path.isfile(self.path):
            return 'PAbsent'
        with open(self.path, 'rb') as f:
            b = f.read()
        return ('PFile', bz(b))

    def raw(self):
        if not os.path.isfile(self.path):
            return None
        with open(self.path, 'rb') as f:
            return f.read()

    def header_of(self, obj):
        fio = self.fio
        kind = 'S' if type(obj) is fio.Scalar else ('R' if type(obj) is fio.Rectilinear else '?')
        coords = [np.ascontiguousarray(c).tobytes() for c in obj.header.get('coords', [])]
        return {'kind': kind, 'dt': fio.DTYPES_AVAIL[obj.dtype], 'nVar': int(obj.header['nVar']), 'coords': coords}

    def do(self, op):
        fio = self.fio
        k = op[0]
        try:
            if k == 'new':
                h = op[1]
                if h['kind'] == 'S':
                    o = fio.Scalar(fio.DTYPES[h['dt']], self.path)
                    o.setHeader(nVar=h['nVar'])
                else:
                    o = fio.Rectilinear(fio.DTYPES[h['dt']], self.path)
                    o.setHeader(nVar=h['nVar'], coords=[np.frombuffer(c, dtype=np.float64).copy() for c in h['coords']])
                self.handles.append((o, h))
                return ('POk', 'PKeep')
            if k == 'init':
                o, h = self.handles[op[1]]
                fio.FieldsIO.ALLOW_OVERWRITE = bool(op[2])
                try:
                    o.initialize()
                except AssertionError:
                    return (('PErr', 'EAssert'), 'PKeep')
                except FileExistsError:
                    return (('PErr', 'EExists'), self.snap())
                finally:
                    fio.FieldsIO.ALLOW_OVERWRITE = False
                return ('POk', self.snap())
            if k == 'open':
                cls = [fio.FieldsIO, fio.Scalar, fio.Rectilinear][op[1]]
                o = cls.fromFile(self.path)
                h = self.header_of(o)
                self.handles.append((o, h))
                return (('PHdr', 'SScalar' if h['kind'] == 'S' else 'SRect', h['dt'], h['nVar'], [bz(c) for c in h['coords']]), 'PKeep')
            if k == 'add':
                o, h = self.handles[op[1]]
                dt, n, tb, pb = op[2], op[3], op[4], op[5]
                arr = np.frombuffer(pb, dtype=fio.DTYPES[dt]).copy()
                if arr.size != n:
                    raise SystemError('harness: payload size')
                if h['kind'] == 'R' and n == nitems(h) and n > 0:
                    arr = arr.reshape((h['nVar'],) + tuple(len(c) // 8 for c in h['coords']))
                arr = with_layout(arr, op[6] if len(op) > 6 else 'C')
                if np.ascontiguousarray(arr).tobytes() != pb:
                    raise SystemError('harness: layout %r changed the logical element sequence' % (op[6:],))
                try:
                    o.addField(struct.unpack('<d', tb)[0], arr)
                except AssertionError:
                    return (('PErr', 'EAssert'), self.snap())
                except FileNotFoundError:
                    return (('PErr', 'ENotFound'), self.snap())
                except ValueError:
                    return (('PErr', 'EValue'), self.snap())
                return ('POk', self.snap())
            if k == 'read':
                o, h = self.handles[op[1]]
                t, u = o.readField(op[2])
                if h['kind'] == 'R' and tuple(u.shape) != (h['nVar'],) + tuple(len(c) // 8 for c in h['coords']):
                    return (('PErr', 'BadShape'), 'PKeep')
                if u.dtype != fio.DTYPES[h['dt']]:
                    return (('PErr', 'BadDtype'), 'PKeep')
                return (('PRec', bz(struct.pack('<d', t)), bz(np.ascontiguousarray(u).tobytes())), 'PKeep')
            if k == 'time':
                o, h = self.handles[op[1]]
                t = o.time(op[2])
                return (('PTimes', bz(struct.pack('<d', t))), 'PKeep')
            if k == 'times':
                o, h = self.handles[op[1]]
                ts = o.times
                return (('PTimes', bz(b''.join(struct.pack('<d', t) for t in ts))), 'PKeep')
            if k == 'nfields':
                o, h = self.handles[op[1]]
                return (('PNum', int(o.nFields)), 'PKeep')
            if k == 'trunc':
                if os.path.isfile(self.path):
                    if op[1] < os.path.getsize(self.path):
                        os.truncate(self.path, op[1])
                    return ('POk', self.snap())
                return ('POk', 'PAbsent')
            if k == 'remove':
                if os.path.isfile(self.path):
                    os.remove(self.path)
                return ('POk', 'PAbsent')
        except SystemError:
            raise
        except Exception as e:     # noqa — any other exception class is reported as such and differs from the model
            name = type(e).__name__
            return (('PErr', ERRS.get(name, name)), 'PKeep')
        raise ValueError(k)


ERR_CODE = {'EAssert': 1, 'EExists': 2, 'ENotFound': 3, 'EValue': 4, 'EKey': 5, 'EType': 6}


def enc_res(r):
    """Symbolic result of Real.do -> the uniform tuple Model.FieldsIO.show_res prints."""
    if r == 'POk':
        return (0, 0, 0, [], [])
    k = r[0]
    if k == 'PErr':
        return (1, ERR_CODE.get(r[1], -1), 0, [], [])
    if k == 'PNum':
        return (2, r[1], 0, [], [])
    if k == 'PRec':
        return (3, 0, 0, [r[1][0], r[2][0]], [r[1][1], r[2][1]])
    if k == 'PTimes':
        return (4, 0, 0, [r[1][0]], [r[1][1]])
    if k == 'PHdr':
        return (5 + (0 if r[1] == 'SScalar' else 1), r[2], r[3], [c[0] for c in r[4]], [c[1] for c in r[4]])
    raise ValueError(r)


def enc_snap(s):
    if s == 'PKeep':
        return (0, 0, 0, [], [])
    if s == 'PAbsent':
        return (1, 0, 0, [], [])
    return (2, 0, 0, [s[1][0]], [s[1][1]])


def enc_obs(o):
    return enc_res(o[0]) + (enc_snap(o[1]),)


_SUFFIX = re.compile(r'%[A-Za-z0-9_]+')


def fast_parse(text):
    """Coq prints nested tuples/lists of numbers; after ; -> , this is a Python literal."""
    return ast.literal_eval(_SUFFIX.sub('', text).replace(';', ','))


# ----------------------------------------------------------------------------- implementation-side oracle

class Spec:
    """What the property promises, tracked from what the harness itself wrote (no Coq model)."""

    def __init__(self):
        self.h = None          # header of the current file, None = no claim possible
        self.recs = []
        self.torn = False      # an interrupted append left a partial record at the end
        self.after_torn = False
        self.header_torn = False   # file is a strict prefix of a header

    def check(self, op, res, real, fail, pre=None):
        """Updates the expectation with op and checks the real result `res` against it.
        fail(kind, message, extra) reports an oracle failure.  pre = state before the op (file bytes, initialized flag)."""
        k = op[0]
        r, sn = res
        hs = real.handles
        if k == 'init' and pre is not None:
            after = real.raw()
            if pre['inited']:
                if r != ('PErr', 'EAssert') or after != pre['raw']:
                    fail('overwrite', 'initialize() on an already initialised handle must raise and leave the file alone', {})
            elif pre['raw'] is not None and not op[2]:
                if r != ('PErr', 'EExists') or after != pre['raw']:
                    fail('overwrite', 'initialize() with ALLOW_OVERWRITE=False changed or did not refuse an existing file (result %r)' % (r,), {})
            else:
                if r != 'POk':
                    fail('init-refused', 'initialize() refused although %s: %r' % ('overwriting is allowed' if op[2] else 'no file exists', r), {})
        if k == 'init':
            if r == 'POk':
                self.h = hs[op[1]][1]
                self.recs, self.torn, self.after_torn, self.header_torn = [], False, False, False
                b = real.raw()
                if b is None or len(b) != hsize(self.h):
                    fail('header', 'initialize() left a file whose size is not hSize', {})
            elif r == ('PErr', 'EExists'):
                pass
            return
        if k == 'remove':
            self.h, self.header_torn = None, False
            return
        if k == 'trunc':
            if self.h is None:
                return
            raw = real.raw()
            if raw is None:
                return
            L = len(raw)                     # = min(n, previous length): the truncation is done by the harness itself
            hS, rS = hsize(self.h), 8 + fsize(self.h)
            if L < hS:
                self.h, self.header_torn = None, True
                return
            keep = (L - hS) // rS
            if keep < len(self.recs):
                self.recs = self.recs[:keep]
            self.torn = (L - hS) % rS != 0
            return
        if k == 'add':
            if self.h is None:
                if r == 'POk':
                    self.header_torn = False
                return
            hk = hs[op[1]][1]
            if hkey(hk) != hkey(self.h):
                if r == 'POk':
                    self.h = None      # a foreign handle wrote into the file: no claim
                return
            valid = op[2] == self.h['dt'] and op[3] == nitems(self.h) and hs[op[1]][0].initialized
            if not valid:
                if r == 'POk':
                    fail('add-accepts-invalid', 'addField accepted a field of wrong dtype/size or on a non-initialised handle', {})
                    self.h = None
                return
            if r != 'POk':
                fail('add-failed', 'addField raised on a valid field: %r' % (r,), {})
                self.h = None
                return
            self.recs.append((op[4], op[5]))
            if self.torn:
                self.after_torn = True
                self.torn = False
            return
        # ---- observations
        if k == 'open':
            if self.header_torn:
                return      # checked by the caller (needs nFields of the new handle)
            if self.h is None:
                return
            want = ('PHdr', 'SScalar' if self.h['kind'] == 'S' else 'SRect', self.h['dt'], self.h['nVar'], [bz(c) for c in self.h['coords']])
            if r != want:
                fail('header', 'fromFile does not return the header that was written', {'got': repr(r)[:300], 'want': repr(want)[:300]})
            return
        if k in ('read', 'time', 'times', 'nfields'):
            if self.h is None or hkey(hs[op[1]][1]) != hkey(self.h):
                return
            if self.h['kind'] == 'R' and not self.h['coords']:
                return      # Rectilinear without axes: outside the property's domain (see docs/C16.md)
            n = len(self.recs)
            kind = 'append_after_torn_record' if self.after_torn else ('crash_prefix' if self.torn else 'roundtrip')
            if k == 'nfields':
                if r != ('PNum', n):
                    fail(kind, 'nFields = %r, %d complete records were written' % (r, n), {})
            elif k == 'times':
                want = ('PTimes', bz(b''.join(t for t, _ in self.recs)))
                if r != want:
                    fail(kind, 'times differ from the times written', {'got': repr(r)[:300]})
            else:
                idx = op[2]
                if -n <= idx < n:
                    t, p = self.recs[idx]
                    want = ('PRec', bz(t), bz(p)) if k == 'read' else ('PTimes', bz(t))
                else:
                    want = ('PErr', 'EAssert')
                if r != want:
                    fail(kind, '%s(%d) with %d complete records: got %s' % (k, idx, n, repr(r)[:120]), {'want': repr(want)[:300]})


# ----------------------------------------------------------------------------- generators

def rand_header(rng, small=True):
    dt = rng.choice([0, 0, 1, 2, 3, 4, 5])
    nVar = rng.randint(1, 6)
    if rng.random() < 0.3:
        return {'kind': 'S', 'dt': dt, 'nVar': nVar, 'coords': []}
    u = rng.random()
    dim = 0 if u < 0.04 else rng.randint(1, 3)
    coords = []
    for _ in range(dim):
        n = 0 if rng.random() < 0.03 else rng.randint(1, 4 if small else 9)
        if rng.random() < 0.5:
            c = np.linspace(rng.uniform(-3, 0), rng.uniform(0.5, 3), n, endpoint=False)
        else:
            c = np.array([rng.uniform(-10, 10) for _ in range(n)])
        coords.append(np.asarray(c, dtype=np.float64).tobytes())
    return {'kind': 'R', 'dt': dt, 'nVar': nVar, 'coords': coords}


TIME_POOL = [0.0, -0.0, 1.0, 0.1, 0.30000000000000004, 1e-300, 5e-324, 1.7976931348623157e308, float('inf'), float('nan'), -2.5]


def rand_time(rng):
    if rng.random() < 0.35:
        return struct.pack('<d', rng.choice(TIME_POOL))
    if rng.random() < 0.2:
        return bytes(rng.getrandbits(8) for _ in range(8))      # arbitrary bit pattern (incl. NaN payloads)
    return struct.pack('<d', rng.uniform(0, 100))


def rand_payload(rng, n):
    return rng.getrandbits(8 * n).to_bytes(n, 'little') if n else b''


def gen_trace(rng, mode, path, nops, fails):
    """Runs a random op sequence on the real code (adaptively), returns (ops, results)."""
    real = Real(path)
    spec = Spec()
    ops, ress = [], []
    h0 = rand_header(rng)

    def emit(op):
        pre = {'raw': real.raw(), 'inited': bool(real.handles[op[1]][0].initialized)} if op[0] == 'init' else None
        res = real.do(op)
        ops.append(op)
        ress.append(res)
        # header-crash clause: a handle obtained from a torn header must report no records
        if op[0] == 'open' and spec.header_torn and res[0] != ('PErr', 'EValue') and isinstance(res[0], tuple) and res[0][0] == 'PHdr':
            o = real.handles[-1][0]
            try:
                if int(o.nFields) != 0:
                    fails.append(('header_crash', 'fromFile on a torn header reports %d records' % int(o.nFields), len(ops) - 1, {}))
            except Exception as e:      # noqa
                pass
        spec.check(op, res, real, lambda kind, msg, extra: fails.append((kind, msg, len(ops) - 1, extra)), pre=pre)
        return res

    # `sane`: the header region of the file is (a prefix of) a header written by initialize(); fromFile is only
    # exercised on such files (np.fromfile on garbage counts may allocate gigabytes / read with count=-1)
    st = {'file_h': None, 'sane': False}

    def emit_init(k, allow):
        r = emit(('init', k, allow))
        if r[0] == 'POk':
            st['file_h'], st['sane'] = real.handles[k][1], True

    emit(('new', h0))
    emit_init(0, rng.random() < 0.3)
    for _ in range(nops):
        u = rng.random()
        nh = len(real.handles)
        k = rng.randrange(nh)
        # prefer the most recent handles (they describe the current file more often)
        if rng.random() < 0.6:
            k = nh - 1 - min(rng.randrange(nh), rng.randrange(nh))
        hk = real.handles[k][1]
        raw = real.raw()
        if u < 0.32:
            if mode == 'Aligned' and (raw is None or len(raw) < hsize(hk)):
                continue
            if mode == 'Aligned' and st['file_h'] is not None:
                off = hsize(hk) + ((len(raw) - hsize(hk)) // (8 + fsize(hk))) * (8 + fsize(hk))
                if off < hsize(st['file_h']):
                    continue       # a foreign handle would write into the header region
            dt, n = hk['dt'], nitems(hk)
            v = rng.random()
            if v < 0.06:
                dt = rng.choice([d for d in range(6) if d != dt])
            elif v < 0.12:
                n = max(0, n + rng.choice([-1, 1, 2]))
            if not (0 <= n * ITEMSIZE[dt] <= 2048) or (raw is not None and len(raw) > 12000):
                continue
            r = emit(('add', k, dt, n, rand_time(rng), rand_payload(rng, n * ITEMSIZE[dt]), rng.choice(LAYOUTS)))
            if r[0] == 'POk' and (raw is None or st['file_h'] is None or len(raw) < hsize(st['file_h'])):
                st['sane'] = False
        elif u < 0.52:
            nf = 0 if raw is None else max(0, (len(raw) - hsize(hk)) // (8 + fsize(hk)))
            idx = rng.randint(-nf - 2, nf + 1)
            emit(('read', k, idx))
        elif u < 0.57:
            emit(('times', k))
        elif u < 0.62:
            nf = 0 if raw is None else max(0, (len(raw) - hsize(hk)) // (8 + fsize(hk)))
            emit(('time', k, rng.randint(-nf - 2, nf + 1)))
        elif u < 0.67:
            emit(('nfields', k))
        elif u < 0.77:
            if raw is not None and not st['sane']:
                continue
            emit(('open', rng.randrange(3)))
        elif u < 0.88:
            if raw is None:
                continue
            L = len(raw)
            v = rng.random()
            rS = 8 + fsize(hk)
            if v < 0.6:
                n = max(0, L - rng.randint(0, rS + 1))     # inside (or just beyond) the last record
            elif v < 0.8:
                n = rng.randint(0, L)
            elif v < 0.9:
                n = rng.randint(0, min(L, hsize(hk)))
            else:
                n = L + rng.randint(0, 3)
            emit(('trunc', n))
        elif u < 0.90:
            emit(('remove',))
            st['file_h'], st['sane'] = None, False
        elif u < 0.95:
            h = dict(hk) if rng.random() < 0.7 else rand_header(rng)
            emit(('new', h))
        else:
            emit_init(k, rng.random() < 0.5)
    # final sweep through a fresh handle: read everything back
    if real.raw() is not None and not st['sane']:
        return ops, ress
    r = emit(('open', 0))
    if isinstance(r[0], tuple) and r[0][0] == 'PHdr':
        k = len(real.handles) - 1
        hk = real.handles[k][1]
        raw = real.raw()
        nf = max(0, (len(raw) - hsize(hk)) // (8 + fsize(hk)))
        emit(('nfields', k))
        emit(('times', k))
        for i in range(min(nf, 6)):
            emit(('read', k, i))
        emit(('read', k, -1))
    return ops, ress


def layout_traces(rng, path):
    """Deterministic sweep: every memory layout of the field handed to addField x grids on which Fortran order
    differs from C order (>= 2 axes longer than 1, counting nVar) x 3 dtypes; each record is read back."""
    out = []
    lin = lambda n: np.linspace(0, 1, n, endpoint=False).tobytes()
    shapes = [(2, [3]), (1, [2, 3]), (3, [2, 2]), (2, [2, 3, 2]), (1, [1, 3, 2]), (2, [])]
    for si, (nVar, gs) in enumerate(shapes):
        for dt in (0, 3, 4) if si % 2 == 0 else (1, 2, 5):
            h = {'kind': 'R' if gs else 'S', 'dt': dt, 'nVar': nVar, 'coords': [lin(n) for n in gs]}
            real, spec, ops, ress, fails = Real(path), Spec(), [], [], []

            def emit(op):
                pre = {'raw': real.raw(), 'inited': bool(real.handles[op[1]][0].initialized)} if op[0] == 'init' else None
                res = real.do(op)
                ops.append(op)
                ress.append(res)
                spec.check(op, res, real, lambda kind, msg, extra: fails.append((kind, msg, len(ops) - 1, extra)), pre=pre)
            emit(('new', h))
            emit(('init', 0, False))
            for lay in LAYOUTS:
                emit(('add', 0, dt, nitems(h), rand_time(rng), rand_payload(rng, fsize(h)), lay))
            emit(('open', si % 3))
            emit(('nfields', 1))
            for i in range(len(LAYOUTS)):
                emit(('read', 1, i))
            out.append((ops, ress, fails))
    return out


def coq_file(mode, traces, npre):
    """traces: list of op lists; npre[i] = (key, n): the first n ops of trace i are shared by all traces with
    the same key (emitted once), or None."""
    L = ['From Coq Require Import ZArith List Bool Uint63.', 'From PySDC Require Import Model.FieldsIO.',
         'Import ListNotations.', 'Open Scope Z_scope.', '']
    done = set()
    for i, ops in enumerate(traces):
        pre = ''
        skip = 0
        if npre is not None and npre[i] is not None:
            key, n = npre[i]
            skip = n if key in done else 0     # the shared prefix is printed by the first trace of the key only
            if key not in done:
                done.add(key)
                L.append('Definition pre%s : list op := [' % key)
                L.append(';\n'.join('  ' + op_lit(o) for o in ops[:n]))
                L.append('].')
            pre = 'pre%s ++ ' % key
            ops = ops[n:]
        L.append('Definition tr%d : list op := %s[' % (i, pre))
        L.append(';\n'.join('  ' + op_lit(o) for o in ops))
        L.append('].')
        L.append('Eval vm_compute in skipn %d%%nat (run0 %s tr%d).' % (skip, mode, i))
    return '\n'.join(L) + '\n'


def run_coq_traces(ck, mode, traces, prefix, per_file=40, npre=None):
    """Evaluates the model on all traces (parallel coqc); returns list of per-trace result lists or None."""
    files = []
    for ci in range(0, len(traces), per_file):
        chunk = traces[ci:ci + per_file]
        pres = None if npre is None else npre[ci:ci + per_file]
        files.append((ck.write_gen('%s_%d.v' % (prefix, ci // per_file), coq_file(mode, chunk, pres)), len(chunk), pres))
    out_all = []
    with concurrent.futures.ThreadPoolExecutor(max_workers=12) as ex:
        futs = [ex.submit(ck.coqc, p, 900) for p, _, _ in files]
        for (p, n, pres), fu in zip(files, futs):
            rc, out = fu.result()
            if rc != 0:
                ck.obligation('%s evaluates' % os.path.basename(p), False, out[-1500:])
                ck.violation('generated trace file does not compile', {'file': p, 'log': out[-3000:]}, match={'kind': 'gen'}, no_input=True)
                return None
            vals = [fast_parse(v) for v in eval_outputs(out)]
            if len(vals) != n:
                ck.violation('could not parse the model output', {'file': p, 'n': n, 'got': len(vals)}, match={'kind': 'gen'}, no_input=True)
                return None
            if pres is not None:      # re-attach the shared prefix results (printed once per key and file)
                first = {}
                for j, v in enumerate(vals):
                    if pres[j] is None:
                        continue
                    key, npr = pres[j]
                    if key not in first:
                        first[key] = v[:npr]
                    else:
                        vals[j] = first[key] + v
            out_all += vals
    return out_all


def coq_ops(ops):
    return [o if o[0] != 'open' else ('open',) for o in ops]


def compare(ck, label, mode, all_ops, all_ress, model, fails_by_trace, tag):
    """Correspondence verdicts. Returns number of mismatching traces."""
    bad = 0
    reported = {}
    mism = set()
    for ti, (ops, ress, mod) in enumerate(zip(all_ops, all_ress, model)):
        ck.traces += 1
        diff = None
        if len(mod) != len(ress):
            diff = (-1, 'length', len(mod))
        else:
            for i, (a, b) in enumerate(zip(ress, mod)):
                if enc_obs(a) != tuple(b):
                    diff = (i, enc_obs(a), b)
                    break
        if diff is None:
            continue
        bad += 1
        mism.add(ti)
        fl = fails_by_trace[ti]
        cls = fl[0][0] if fl else 'correspondence'
        reported[cls] = reported.get(cls, 0) + 1
        if reported[cls] > 3:          # the first three inputs of each class are kept as replays
            continue
        replay = {'mode': mode, 'trace': [op_json(o) for o in ops], 'first_difference_at_op': diff[0],
                  'op': op_json(ops[diff[0]]) if diff[0] >= 0 else None,
                  'real': repr(diff[1])[:600], 'model': repr(diff[2])[:600]}
        if fl:
            kind, msg, at, extra = fl[0]
            replay.update({'oracle': msg, 'oracle_at_op': at, **extra})
            ck.violation('%s: real FieldsIO deviates from its model and the re-read oracle fails: %s' % (label, msg), replay,
                         match={'kind': kind, 'where': tag})
        else:
            ck.violation('%s: real FieldsIO deviates from the Coq model (op %d: real %s, model %s)' %
                         (label, diff[0], repr(diff[1])[:80], repr(diff[2])[:80]), replay,
                         match={'kind': 'correspondence', 'where': tag}, no_input=True)
    if bad:
        ck.cov['mismatching_traces_' + tag] = bad
    return bad, mism


# ----------------------------------------------------------------------------- mode probe

def probe_mode(ck, scratch):
    """Torn record, re-open, append: which addField does the tree have?  Returns (mode, replay)."""
    from pySDC.helpers import fieldsIO as fio
    path = os.path.join(scratch, 'probe.pysdc')
    if os.path.exists(path):
        os.remove(path)
    f = fio.Scalar(np.float64, path)
    f.setHeader(nVar=2)
    f.initialize()
    f.addField(0.0, np.array([1.0, 2.0]))
    f.addField(1.0, np.array([3.0, 4.0]))
    full = os.path.getsize(path)
    os.truncate(path, full - 5)                 # crash 5 bytes before the end of the second append
    g = fio.FieldsIO.fromFile(path)
    n_after_crash = g.nFields
    g.addField(2.0, np.array([5.0, 6.0]))
    n = g.nFields
    try:
        t, u = g.readField(-1)
        last = (float(t), [float(x) for x in u])
    except Exception as e:     # noqa
        last = repr(e)
    try:
        t1, u1 = g.readField(1)
        rec1 = (float(t1), [float(x) for x in u1])
    except Exception as e:     # noqa
        rec1 = repr(e)
    size = os.path.getsize(path)
    replay = {'steps': ['Scalar(float64), nVar=2: initialize, addField(0,[1,2]), addField(1,[3,4])',
                        'truncate the file by 5 bytes (interrupted second append)',
                        'FieldsIO.fromFile, addField(2,[5,6]), readField(1), readField(-1)'],
              'nFields_after_crash': n_after_crash, 'nFields_after_append': n, 'readField(1)': rec1,
              'readField(-1)': last, 'file_size': size, 'expected_last': (2.0, [5.0, 6.0]),
              'hSize': 10, 'recSize': 24}
    if size == 10 + 2 * 24 and n == 2 and last == (2.0, [5.0, 6.0]):
        return 'Aligned', replay
    if size == full - 5 + 24:
        return 'Raw', replay
    return 'Unknown', replay


# ----------------------------------------------------------------------------- exhaustive crash points

def crash_configs(rng, thorough):
    cfgs = []
    lin = lambda n: np.linspace(0, 1, n, endpoint=False).tobytes()
    for dt in range(6):
        cfgs.append({'kind': 'S', 'dt': dt, 'nVar': 1 + dt % 3, 'coords': []})
        cfgs.append({'kind': 'R', 'dt': dt, 'nVar': 1 + (dt + 1) % 2, 'coords': [lin(3)]})
        cfgs.append({'kind': 'R', 'dt': dt, 'nVar': 1, 'coords': [lin(2), lin(2)]})
        cfgs.append({'kind': 'R', 'dt': dt, 'nVar': 2 if dt in (0, 4) else 1, 'coords': [lin(1), lin(2), lin(2)]})
    if thorough:
        while len(cfgs) < 48:
            h = rand_header(rng)
            if fsize(h) <= 512 and hsize(h) <= 400:       # keeps the number of crash points per configuration moderate
                cfgs.append(h)
    return [c for c in cfgs if not (c['kind'] == 'R' and not c['coords'])]


def crash_scan(ck, rng, mode, scratch, thorough, fails_out):
    """For every config and every byte offset k of the last append: file = header + n records + first k
    bytes of the append; then re-open, observe everything, append again, observe."""
    all_ops, all_ress, fails_by_trace, npre = [], [], [], []
    npoints = 0
    path = os.path.join(scratch, 'crash.pysdc')
    for ci, h in enumerate(crash_configs(rng, thorough)):
        hS, fS = hsize(h), fsize(h)
        rS = 8 + fS
        nrec = [0, 2][ci % 2] if not thorough else rng.choice([0, 1, 3])
        recs = [(rand_time(rng), rand_payload(rng, fS)) for _ in range(nrec + 2)]
        pre = [('new', h), ('init', 0, False)] + [('add', 0, h['dt'], nitems(h), t, p, LAYOUTS[(ci + j) % len(LAYOUTS)])
                                                  for j, (t, p) in enumerate(recs[:nrec + 1])]
        base = hS + nrec * rS
        for k in range(rS + 1):
            fails = []
            real = Real(path)
            spec = Spec()
            ops, ress = [], []

            def emit(op):
                res = real.do(op)
                ops.append(op)
                ress.append(res)
                spec.check(op, res, real, lambda kind, msg, extra: fails.append((kind, msg, len(ops) - 1, extra)))
                return res
            for op in pre:
                emit(op)
            emit(('trunc', base + k))
            emit(('open', k % 3))
            emit(('nfields', 1))
            emit(('times', 1))
            for idx in range(-nrec - 2, nrec + 2):
                emit(('read', 1, idx))
            emit(('time', 1, -1))
            t, p = recs[nrec + 1]
            emit(('add', 1, h['dt'], nitems(h), t, p, LAYOUTS[(ci + k) % len(LAYOUTS)]))
            emit(('nfields', 1))
            emit(('read', 1, -1))
            emit(('read', 0, nrec))
            emit(('times', 0))
            all_ops.append(ops)
            all_ress.append(ress)
            fails_by_trace.append(fails)
            npre.append((ci, len(pre)))
            npoints += 1
            ck.case(key=('crash', ci, k), nontrivial=0 < k < rS,
                    sample={'kind': 'crash-point', 'header': op_json(('h', h))[1], 'complete_records': nrec, 'offset_in_append': k} if k == 3 else None)
    fails_out.extend(fails_by_trace)
    return all_ops, all_ress, fails_by_trace, npoints, npre


def header_crash_scan(ck, rng, scratch, thorough):
    """Every strict prefix of every header: fromFile must raise or give a handle without records."""
    all_ops, all_ress, fails_by_trace = [], [], []
    path = os.path.join(scratch, 'hcrash.pysdc')
    n = 0
    for ci, h in enumerate(crash_configs(rng, thorough)):
        hS = hsize(h)
        for k in range(hS + 1):
            fails = []
            real = Real(path)
            ops, ress = [], []

            def emit(op):
                res = real.do(op)
                ops.append(op)
                ress.append(res)
                return res
            emit(('new', h))
            emit(('init', 0, False))
            emit(('trunc', k))
            r = emit(('open', k % 3))
            if isinstance(r[0], tuple) and r[0][0] == 'PHdr':
                nf = emit(('nfields', 1))
                ts = emit(('times', 1))
                rd = emit(('read', 1, 0))
                if k < hS and (nf[0] != ('PNum', 0) or ts[0] != ('PTimes', (0, [])) or rd[0] != ('PErr', 'EAssert')):
                    fails.append(('header_crash', 'a header cut at byte %d is opened and reports records: nFields %r' % (k, nf[0]), len(ops) - 1, {}))
                if k == hS and r[0] != ('PHdr', 'SScalar' if h['kind'] == 'S' else 'SRect', h['dt'], h['nVar'], [bz(c) for c in h['coords']]):
                    fails.append(('header', 'complete header not read back', len(ops) - 1, {}))
            elif k == hS:
                fails.append(('header', 'complete header rejected: %r' % (r[0],), len(ops) - 1, {}))
            all_ops.append(ops)
            all_ress.append(ress)
            fails_by_trace.append(fails)
            n += 1
            ck.case(key=('hcrash', ci, k), nontrivial=0 < k < hS)
    return all_ops, all_ress, fails_by_trace, n


# ----------------------------------------------------------------------------- blocks

def blocks_part(ck, rng, thorough, only=None):
    from pySDC.helpers.blocks import BlockDecomposition
    grids = [[1], [7], [64], [100], [2, 3], [16, 16], [5, 64], [64, 5], [31, 7], [256, 64],
             [4, 4, 4], [3, 5, 7], [16, 32, 7], [64, 8, 8], [1, 1, 9], [10, 10, 10]]
    for _ in range(4):
        d = rng.randint(1, 3)
        grids.append([rng.randint(1, 40) for _ in range(d)])
    maxp = 256 if thorough else 64
    procs = list(range(1, maxp + 1))
    cases = []
    nviol = 0
    todo = [(algo, gs, np_, 'C' if (np_ + len(gs)) % 3 else 'F') for algo in ('ChatGPT', 'Hybrid') for gs in grids for np_ in procs]
    if only is not None:
        todo = [only]
    for algo, gs, np_, order in todo:
        if True:
            if True:
                try:
                    nb = [int(x) for x in BlockDecomposition(np_, list(gs), algo).nBlocks]
                except Exception as e:     # noqa
                    ck.violation('BlockDecomposition raised %s' % type(e).__name__, {'nProcs': np_, 'gridSizes': gs, 'algo': algo},
                                 match={'kind': 'blocks-raise', 'algo': algo})
                    continue
                bounds = []
                cover = np.zeros(gs, dtype=np.int64)
                ok = int(np.prod(nb)) == np_ and len(nb) == len(gs)
                for g in range(np_):
                    b = BlockDecomposition(np_, list(gs), algo, gRank=g, order=order)
                    try:
                        il, nl = b.localBounds
                        il, nl = [int(x) for x in il], [int(x) for x in nl]
                    except Exception as e:     # noqa
                        bounds.append(None)
                        ok = False
                        continue
                    bounds.append((il, nl))
                    if all(0 <= i and n >= 0 and i + n <= s for i, n, s in zip(il, nl, gs)):
                        cover[tuple(slice(i, i + n) for i, n in zip(il, nl))] += 1
                    else:
                        ok = False
                if not (cover == 1).all():
                    ok = False
                # out-of-range ranks are rejected
                for g in (np_, -1):
                    try:
                        BlockDecomposition(np_, list(gs), algo, gRank=g, order=order).localBounds
                        if g >= 0:
                            ok = False
                    except IndexError:
                        pass
                if not ok and nviol < 5:
                    nviol += 1
                    bad = np.argwhere(cover != 1)
                    ck.violation('BlockDecomposition does not partition the grid (nProcs=%d, gridSizes=%s, algo=%s): nBlocks=%s%s' %
                                 (np_, gs, algo, nb, (', grid point %s is owned by %d ranks' % (bad[0].tolist(), int(cover[tuple(bad[0])]))) if len(bad) else ''),
                                 {'nProcs': np_, 'gridSizes': gs, 'algo': algo, 'order': order, 'nBlocks': nb, 'localBounds': bounds[:16]},
                                 match={'kind': 'partition', 'algo': algo})
                if np_ <= 12:
                    sel = list(range(np_))
                else:
                    sel = sorted({0, 1, np_ - 1} | {rng.randrange(np_) for _ in range(3)})
                cases.append((algo, order, np_, gs, nb, [bounds[g] for g in sel], sel))
                ck.case(key=('blocks', algo, np_, tuple(gs)), nontrivial=np_ > 1,
                        sample={'kind': 'blocks', 'algo': algo, 'nProcs': np_, 'gridSizes': gs, 'nBlocks': nb} if np_ == 12 and len(gs) == 3 and len(ck.samples) < 5 else None)
    ck.log('blocks: real code + oracle done')
    # Coq model, kernel-evaluated
    files = []
    per = 400
    for ci in range(0, len(cases), per):
        chunk = cases[ci:ci + per]
        L = ['From Coq Require Import ZArith List Bool.', 'From PySDC Require Import Model.Blocks.',
             'Import ListNotations.', 'Open Scope Z_scope.', '',
             'Definition cases : list (algo * order * Z * list Z * list Z) := [']
        L.append(';\n'.join('  (%s, Order%s, %d, [%s], [%s])' % (a, o, p, '; '.join(map(str, gs)), '; '.join(map(str, sel + [p])))
                            for a, o, p, gs, _, _, sel in chunk))
        L.append('].')
        L.append("Definition ev (c : algo * order * Z * list Z * list Z) := let '(a, o, p, gs, sel) := c in")
        L.append('  match nBlocks a p gs with None => ([], []) | Some nb =>')
        L.append('    (nb, map (fun g => match localBounds o gs nb g with Some (lo, n) => (1, lo, n) | None => (0, [], []) end) sel) end.')
        L.append('Eval vm_compute in map ev cases.')
        files.append((ck.write_gen('Blocks_%d.v' % (ci // per), '\n'.join(L) + '\n'), chunk))
    nbad = 0
    with concurrent.futures.ThreadPoolExecutor(max_workers=12) as ex:
        futs = [ex.submit(ck.coqc, p, 900) for p, _ in files]
        for (p, chunk), fu in zip(files, futs):
            rc, out = fu.result()
            if rc != 0:
                ck.obligation('%s evaluates' % os.path.basename(p), False, out[-1500:])
                ck.violation('generated blocks file does not compile', {'file': p, 'log': out[-3000:]}, match={'kind': 'gen'}, no_input=True)
                return
            vals = fast_parse(eval_outputs(out)[0])
            assert len(vals) == len(chunk)
            for (a, o, np_, gs, nb, bounds, sel), (mnb, mb) in zip(chunk, vals):
                ck.traces += 1
                want = [(1, list(b[0]), list(b[1])) if b is not None else (0, [], []) for b in bounds] + [(0, [], [])]
                got = [tuple(x) for x in mb]
                if list(mnb) != nb or got != want:
                    nbad += 1
                    if nbad <= 5:
                        ck.violation('BlockDecomposition differs from its Coq model (nProcs=%d, gridSizes=%s, algo=%s, order=%s): nBlocks real %s model %s' %
                                     (np_, gs, a, o, nb, list(mnb)),
                                     {'nProcs': np_, 'gridSizes': gs, 'algo': a, 'order': o, 'real': [nb, bounds[:8]], 'model': repr((mnb, mb[:8]))[:800]},
                                     match={'kind': 'blocks-correspondence', 'algo': a}, no_input=True)
    ck.obligation('Blocks model = implementation on %d (algo, nProcs, grid) cases: nBlocks, localBounds of every rank (nProcs <= 12) or of ranks 0, 1, last, 3 random' % len(cases), nbad == 0)
    ck.cov['blocks_cases'] = len(cases)
    ck.cov['blocks_max_nProcs'] = maxp


# ----------------------------------------------------------------------------- LogToFile (hooks/log_solution.py)

def logtofile_part(ck, rng, mode, scratch):
    """Drives the real LogToFile hook (pre_run / post_step / post_run / load) with a dummy level and problem:
    a first run writes the initial condition and some steps, the file is cut at EVERY byte offset of the last
    record (and not at all), a second hook instance resumes (pre_run with L.time > 0 -> FieldsIO.fromFile) and
    logs further steps.  Oracle: fromFile/load return exactly what was logged, the counter equals the number of
    complete records, a time that is already stored is refused.  Correspondence: the final bytes equal the model's."""
    import logging
    from types import SimpleNamespace as NS
    from pySDC.helpers import fieldsIO as fio
    from pySDC.implementations.hooks.log_solution import LogToFile
    from pySDC.core.errors import DataError
    logging.getLogger('hooks').setLevel(logging.ERROR)
    path = os.path.join(scratch, 'hook.pysdc')
    nvar = 3

    class Prob:
        def getOutputFile(self, fileName):
            f = fio.Scalar(np.float64, fileName)
            f.setHeader(nVar=nvar)
            f.initialize()
            return f

        def setUpFieldsIO(self):
            pass

        def processSolutionForOutput(self, u):
            return u

    class Hook(LogToFile):
        filename = path

    prob = Prob()
    h = {'kind': 'S', 'dt': 0, 'nVar': nvar, 'coords': []}
    hS, rS = hsize(h), 8 + fsize(h)
    dt = 0.1
    us = [np.array([rng.uniform(-1, 1) for _ in range(nvar)]) for _ in range(8)]

    def level(t, u0, uend):
        return NS(levels=[NS(time=t, dt=dt, u=[u0], uend=uend, prob=prob)], status=NS(restart=False))

    def first_run(nsteps):
        if os.path.exists(path):
            os.remove(path)
        hk = Hook()
        t = 0.0
        hk.pre_run(level(t, us[0], None), 0)
        written = [(0.0, us[0])]
        for i in range(nsteps):
            hk.post_step(level(t, us[i], us[i + 1]), 0)
            written.append((t + dt, us[i + 1]))
            t = t + dt
        return written, t

    traces, finals, npts, nfail = [], [], 0, 0
    nsteps = 2
    for cut in [None] + list(range(0, rS + 1)):
        written, t = first_run(nsteps)
        ops = [('new', h), ('init', 0, False)] + [('add', 0, 0, nvar, struct.pack('<d', tt), u.tobytes()) for tt, u in written]
        full = os.path.getsize(path)
        if cut is not None:
            n = full - rS + cut               # the last record keeps only its first `cut` bytes
            if n < full:
                os.truncate(path, n)
            ops.append(('trunc', n))
            complete = written[:-1] if cut < rS else written
        else:
            complete = written
        t_resume = complete[-1][0]
        hk2 = Hook()
        hk2.pre_run(level(t_resume, complete[-1][1], None), 0)       # L.time > 0 and the file exists: resume branch
        ops.append(('open',))
        npts += 1
        ck.case(key=('logtofile', cut), nontrivial=cut is not None and 0 < cut < rS)
        problems = []
        if hk2.counter != len(complete) or Hook.counter != len(complete):
            problems.append('counter %r/%r after resuming, %d complete records in the file' % (hk2.counter, Hook.counter, len(complete)))
        # a time that is already stored must be refused
        try:
            hk2.post_step(level(t_resume - dt, None, complete[-1][1]), 0)
            problems.append('a solution for an already stored time was logged again')
        except DataError:
            pass
        hk2.t_next_log = 0
        tt = t_resume
        expect = list(complete)
        for i in range(2):
            u_new = us[4 + i]
            hk2.post_step(level(tt, None, u_new), 0)
            expect.append((tt + dt, u_new))
            ops.append(('add', 1, 0, nvar, struct.pack('<d', tt + dt), u_new.tobytes()))
            tt = tt + dt
        torn = cut is not None and 0 < cut < rS
        if not (torn and mode == 'Raw'):     # (with the raw append the stored times are garbage here and post_run would log again)
            hk2.post_run(level(tt - dt, None, us[4 + 1]), 0)       # the final time is already stored: nothing is added
        # oracle: what a fresh reader sees
        try:
            g = fio.FieldsIO.fromFile(path)
            got = [(float(a), g.readField(i)[1].tobytes()) for i, a in enumerate(g.times)]
            last = Hook.load(-1)
            ok = (len(got) == len(expect) and all(struct.pack('<d', a) == struct.pack('<d', b) and bb == u.tobytes() for (a, bb), (b, u) in zip(got, expect))
                  and struct.pack('<d', last['t']) == struct.pack('<d', expect[-1][0]) and last['u'].tobytes() == expect[-1][1].tobytes())
        except Exception as e:      # noqa
            ok = False
            got = repr(e)
        if not ok:
            problems.append('after resuming and logging two more steps the file does not hold the logged solutions')
        if problems:
            if torn and mode == 'Raw' and problems == ['after resuming and logging two more steps the file does not hold the logged solutions']:
                nfail += 1        # the raw-append finding, reported once by the probe
            else:
                ck.violation('LogToFile resume: ' + '; '.join(problems),
                             {'cut_offset_in_last_record': cut, 'recSize': rS, 'logged': [(a, u.tolist()) for a, u in expect], 'read_back': repr(got)[:600]},
                             match={'kind': 'append_after_torn_record' if torn else 'logtofile', 'where': 'LogToFile'})
        ops.append(('trunc', 10 ** 6))          # no-op that makes the model print the final bytes
        traces.append(ops)
        with open(path, 'rb') as f:
            finals.append(f.read())
    model = run_coq_traces(ck, mode, [coq_ops(o) for o in traces], 'Hook', per_file=12)
    if model is None:
        return
    nbad = 0
    for ops, fin, mod in zip(traces, finals, model):
        ck.traces += 1
        if tuple(mod[-1][5]) != enc_snap(('PFile', bz(fin))):
            nbad += 1
            if nbad <= 2:
                ck.violation('LogToFile: the bytes of the file written through the hook differ from the model of the same FieldsIO calls',
                             {'ops': [op_json(o) for o in ops], 'real_file': fin.hex()}, match={'kind': 'correspondence', 'where': 'LogToFile'}, no_input=True)
    ck.obligation('LogToFile resume path: file bytes = model for %d cut offsets of the last record' % npts, nbad == 0)
    ck.cov['logtofile_resume_crash_points'] = npts
    if nfail:
        ck.cov['append_after_torn_record_occurrences_LogToFile'] = nfail


# ----------------------------------------------------------------------------- main

def replay(ck, scratch):
    """./check C16 --replay <file>: re-executes the recorded input on the real code, the oracle and the model."""
    import json
    with open(ck.replay_file) as f:
        rep = json.load(f)
    rp = rep.get('replay', {})
    mode, probe = probe_mode(ck, scratch)
    ck.cov['addField_mode'] = mode
    if 'steps' in rp or rep.get('match', {}).get('where') == 'LogToFile':
        if mode != 'Aligned':
            ck.violation('a field appended after re-opening a file whose last append was interrupted is NOT read back '
                         '(readField(-1) = %s, expected (2.0, [5.0, 6.0]))' % (probe['readField(-1)'],), probe,
                         match={'kind': 'append_after_torn_record'})
        if rep.get('match', {}).get('where') == 'LogToFile':
            logtofile_part(ck, ck.rng, 'Raw' if mode == 'Unknown' else mode, scratch)
        return
    if 'nProcs' in rp:
        blocks_part(ck, ck.rng, False, only=(rp['algo'], rp['gridSizes'], rp['nProcs'], rp.get('order', 'C')))
        return
    trace = rp.get('trace') or rp.get('ops')
    if not trace:
        ck.violation('replay file carries no input', {'file': ck.replay_file}, match={'kind': 'gen'}, no_input=True)
        return
    mode = rp.get('mode', mode) if mode == 'Unknown' else mode
    ops = [op_from_json(j) for j in trace]
    real, spec, fails, ress = Real(os.path.join(scratch, 'replay.pysdc')), Spec(), [], []
    for i, op in enumerate(ops):
        pre = {'raw': real.raw(), 'inited': bool(real.handles[op[1]][0].initialized)} if op[0] == 'init' else None
        res = real.do(op)
        ress.append(res)
        spec.check(op, res, real, lambda kind, msg, extra, i=i: fails.append((kind, msg, i, extra)), pre=pre)
    ck.case(key=('replay',), nontrivial=True)
    model = run_coq_traces(ck, mode, [coq_ops(ops)], 'Replay')
    if model is None:
        return
    nbad, mism = compare(ck, 'replayed op sequence', mode, [ops], [ress], model, [fails], 'replay')
    report_oracle(ck, [ops], [fails], 'n/a', 'replay', mism)
    ck.obligation('replayed op sequence: model = implementation', nbad == 0)


def run(ck):
    rng = ck.rng
    thorough = ck.tier == 'thorough'
    ck.rule = ('FieldsIO: seeded random op sequences over a random header (6 dtypes, nVar 1-6, Scalar / 1-3-D Rectilinear, '
               'axis sizes 0-4, random coordinates, arbitrary time and field bit patterns incl. NaN payloads); distinct = new '
               '(header, op-kind sequence); non-trivial = at least one record written. Crash scans: every byte offset of an append '
               'and of header creation for 24 small configurations. Blocks: every nProcs x grid x algorithm, every rank')
    ck.check_props(required=REQUIRED)
    scratch = os.path.join(ck.gen, 'scratch')
    os.makedirs(scratch, exist_ok=True)
    if getattr(ck, 'replay_file', None):
        replay(ck, scratch)
        return

    # ------------------------------------------------------------ 0. which addField does the tree have?
    mode, probe = probe_mode(ck, scratch)
    ck.cov['addField_mode'] = mode
    if mode == 'Raw':
        ck.violation('a field appended after re-opening a file whose last append was interrupted is NOT read back: '
                     'addField opens the file with "ab" and writes behind the torn bytes, so the new record is misaligned '
                     '(readField(-1) = %s, expected (2.0, [5.0, 6.0]))' % (probe['readField(-1)'],), probe,
                     match={'kind': 'append_after_torn_record'})
    elif mode == 'Unknown':
        ck.violation('addField after a torn record behaves like neither the pinned ("ab") nor the aligned write', probe,
                     match={'kind': 'append_after_torn_record', 'variant': 'unknown'})
        mode = 'Raw'

    # ------------------------------------------------------------ 1. random op sequences
    ntr = 400 if thorough else 120
    all_ops, all_ress, fails_by_trace = [], [], []
    for ti in range(ntr):
        fails = []
        ops, ress = gen_trace(rng, mode, os.path.join(scratch, 'f%d.pysdc' % (ti % 8)), rng.randint(8, 40 if thorough else 28), fails)
        all_ops.append(ops)
        all_ress.append(ress)
        fails_by_trace.append(fails)
        nadd = sum(1 for o, r in zip(ops, ress) if o[0] == 'add' and r[0] == 'POk')
        ck.case(key=('trace', str(hkey(ops[0][1])), tuple(o[0] for o in ops)), nontrivial=nadd > 0,
                sample={'kind': 'trace', 'header': op_json(ops[0])[1], 'ops': [o[0] for o in ops][:20]} if ti < 2 else None)
    ck.log('random traces executed on the real code')
    for ops, ress, fails in layout_traces(rng, os.path.join(scratch, 'layout.pysdc')):
        all_ops.append(ops)
        all_ress.append(ress)
        fails_by_trace.append(fails)
        ck.case(key=('layouts', str(hkey(ops[0][1]))), nontrivial=True)
    ck.cov['field_memory_layouts'] = LAYOUTS
    model = run_coq_traces(ck, mode, [coq_ops(o) for o in all_ops], 'Traces')
    ck.log('model evaluated')
    if model is None:
        return
    nbad, mism = compare(ck, 'random op sequence', mode, all_ops, all_ress, model, fails_by_trace, 'trace')
    ck.obligation('FieldsIO model (%s) = implementation on %d op sequences (%d ops), bytes of the file after every write'
                  % (mode, len(all_ops), sum(len(o) for o in all_ops)), nbad == 0)
    report_oracle(ck, all_ops, fails_by_trace, mode, 'trace', mism)

    # ------------------------------------------------------------ 2. every crash point of an append
    fo = []
    c_ops, c_ress, c_fails, npts, c_npre = crash_scan(ck, rng, mode, scratch, thorough, fo)
    ck.log('append crash scan executed on the real code')
    model = run_coq_traces(ck, mode, [coq_ops(o) for o in c_ops], 'Crash', per_file=60, npre=c_npre)
    ck.log('model evaluated')
    if model is None:
        return
    nbad, mism = compare(ck, 'crash point of an append', mode, c_ops, c_ress, model, c_fails, 'crash-scan')
    ck.obligation('model = implementation at every byte offset of an interrupted append (%d crash points)' % npts, nbad == 0)
    report_oracle(ck, c_ops, c_fails, mode, 'crash-scan', mism)

    # ------------------------------------------------------------ 3. every crash point of header creation
    h_ops, h_ress, h_fails, nh = header_crash_scan(ck, rng, scratch, thorough)
    ck.log('header crash scan executed on the real code')
    model = run_coq_traces(ck, mode, [coq_ops(o) for o in h_ops], 'HCrash', per_file=150)
    ck.log('model evaluated')
    if model is None:
        return
    nbad, mism = compare(ck, 'crash point of header creation', mode, h_ops, h_ress, model, h_fails, 'header-crash-scan')
    ck.obligation('model = implementation at every byte offset of an interrupted header (%d crash points)' % nh, nbad == 0)
    report_oracle(ck, h_ops, h_fails, mode, 'header-crash-scan', mism)
    ck.cov['exhaustive_crash_points'] = npts + nh
    ck.cov['exhaustive'] = True

    # ------------------------------------------------------------ 4. LogToFile resume path
    logtofile_part(ck, rng, mode, scratch)
    ck.log('LogToFile done')

    # ------------------------------------------------------------ 5. blocks
    blocks_part(ck, rng, thorough)
    ck.log('blocks done')

    # scratch files are not evidence
    for fn in os.listdir(scratch):
        try:
            os.remove(os.path.join(scratch, fn))
        except OSError:
            pass


def report_oracle(ck, all_ops, fails_by_trace, mode, tag, skip=()):
    """Oracle failures (independent of the model).  The known consequence of the raw append is reported once by
    the probe in run(); other kinds are reported per kind (first three inputs each)."""
    seen = {}
    n_after_torn = 0
    for ti, (ops, fl) in enumerate(zip(all_ops, fails_by_trace)):
        if ti in skip:
            continue        # already reported together with the correspondence difference
        for kind, msg, at, extra in fl[:1]:
            if kind == 'append_after_torn_record' and mode == 'Raw':
                n_after_torn += 1
                continue
            seen[kind] = seen.get(kind, 0) + 1
            if seen[kind] <= 3:
                ck.violation('re-read oracle fails (%s): %s' % (kind, msg),
                             {'trace': [op_json(o) for o in ops], 'failing_op_index': at, 'failing_op': op_json(ops[at]), **extra},
                             match={'kind': kind, 'where': tag})
    if n_after_torn:
        ck.cov['append_after_torn_record_occurrences_' + tag] = n_after_torn
