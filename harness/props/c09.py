"""C09 — restarts and step-size control keep their promises for every failure sequence.

Tie to /repo (every run):
  * scripted fault sequences: a ConvergenceController of our own (control_order -60) injects restart
    requests, error estimates and (without Adaptivity) step-size proposals at arbitrary
    (attempt, iteration, slot) positions into the REAL controller_nonMPI with the real
    BasicRestartingNonMPI / SpreadStepSizesBlockwiseNonMPI / Adaptivity / StepSizeLimiter /
    StepSizeSlopeLimiter / CheckConvergence.  A hook records every block attempt (time, dt, restart
    counter at pre_step; restart flag, dt_new at post_step; identity of u[0] / uend; ConvergenceError).
    The Coq model `run` (Model/ConvCtrl.v), instantiated with PrimFloat and fed the same script, the
    live control-order table and Python's result of `**`, must reproduce the trace EXACTLY (bit-exact
    floats, counters, flags, value identities, outcome);
  * the live control-order table must have the shape the theorems are stated for;
  * implementation-side oracle (no model): every clause of the property evaluated on the recorded
    traces of the scripted runs and of real adaptive runs (Adaptivity / AdaptivityRK /
    AdaptivityPolynomialError / AdaptivityExtrapolationWithinQ on vanderpol, LorenzAttractor,
    testequation0d with seeded tolerances).
"""
import concurrent.futures
import math

import numpy as np

from harness import c09_lib as L
from harness.common import parse_coq_value, eval_outputs

LEVEL = 'proof'

REQUIRED = ['C09_restart_semantics', 'C09_accept_semantics', 'C09_run_restart_semantics', 'C09_it_pass_spec', 'C09_flags_upward_closed',
            'C09_flags_all_equal', 'C09_counter_first_slot', 'C09_budget_exhausted', 'C09_raise_iff',
            'C09_retry_bound', 'C09_run_progress', 'C09_proposal_order', 'C09_restart_iff',
            'C09_accepted_error_below_tol', 'C09_clip_in_range', 'C09_slope_cases', 'C09_rejected_gets_smaller',
            'C09_block_shares_dt_partial', 'C09_block_shares_dt_refuted', 'C09_avoid_restarts_accept']

CANONICAL = ['Scripted', 'Adaptivity', 'StepSizeSlopeLimiter', 'StepSizeLimiter', 'BasicRestartingNonMPI']


def gen_case(rng):
    """One scripted configuration + fault script."""
    npr = rng.randint(1, 4)
    maxiter = rng.randint(1, 3)
    dt0 = rng.choice([0.05, 0.1, 0.125, 0.3, 0.01])
    Tend = dt0 * rng.choice([3, 5, 7.5, 12, 20, 33.3])
    cfg = dict(num_procs=npr, maxiter=maxiter, dt0=dt0, Tend=Tend, max_restarts=rng.choice([0, 1, 2, 3, 5]),
               crash=rng.random() < 0.5, rffs=rng.random() < 0.4, adapt=rng.random() < 0.75,
               e_tol=rng.choice([1e-3, 1e-5, 2.5e-4]), beta=rng.choice([0.9, 0.9, 0.5, 1.0, 0.75]))
    if rng.random() < 0.2:
        cfg['overwrite_to_reach_Tend'] = False
    if rng.random() < 0.6:
        for k, f in (('dt_min', lambda: dt0 * rng.choice([0.1, 0.5, 0.9])), ('dt_max', lambda: dt0 * rng.choice([1.5, 3, 10])),
                     ('dt_slope_min', lambda: rng.choice([0.2, 0.5, 0.9])), ('dt_slope_max', lambda: rng.choice([1.5, 2.0, 4.0])),
                     ('dt_rel_min_slope', lambda: rng.choice([0.05, 0.2, 0.5]))):
            if rng.random() < 0.5:
                cfg[k] = f()
    tol = cfg['e_tol']
    entries = {}
    pfail = rng.choice([0.05, 0.15, 0.3])
    preq = rng.choice([0.0, 0.05, 0.15])
    for a in range(60):
        for s in range(npr):
            e = {}
            e['err'] = tol * 10 ** rng.uniform(-2, 0) if rng.random() > pfail else tol * 10 ** rng.uniform(0, 1.5)
            if rng.random() < 0.03:
                e['err'] = tol          # the boundary of the comparison
            if not cfg['adapt'] and rng.random() < 0.7:
                e['dtn'] = dt0 * rng.choice([0.25, 0.5, 0.8, 1.0, 1.3, 2.0, rng.uniform(0.2, 3)])
            entries[(a, maxiter, s)] = e
            for it in range(maxiter + 1):
                if rng.random() < preq:
                    entries.setdefault((a, it, s), {})['restart'] = True
    for _ in range(rng.randint(0, 2)):      # bursts: the first step keeps failing
        a0 = rng.randint(0, 10)
        for a in range(a0, a0 + rng.randint(1, 7)):
            entries.setdefault((a, maxiter, 0), {})['restart'] = True
    return cfg, L.Script(entries, default_err=tol * 0.01)


def describe(cfg, script, res):
    """Replay data of one scripted run."""
    ent = {'%d,%d,%d' % k: v for k, v in sorted(script.entries.items()) if k[0] < res['attempts']}
    return {'cfg': cfg, 'script_entries(attempt,iter,slot)': ent, 'default_err': script.default_err,
            'outcome': res['outcome'], 'control_order': res['order'],
            'how': 'harness.c09_lib.run_scripted(cfg, Script(entries, default_err))'}


_SEEN = {}


def report(ck, fails, replay, prefix=''):
    """Turn oracle failures into violations (at most two per distinct match over the whole run)."""
    for clause, detail, match in fails:
        match = dict(match)
        spec = replay.get('spec') if isinstance(replay, dict) else None
        if isinstance(spec, dict) and 'adaptivity_params' in spec:
            # context that distinguishes causes: the interpolation-between-restarts controller writes u[0] itself
            match['interpolate_between_restarts'] = bool(spec['adaptivity_params'].get('interpolate_between_restarts'))
        key = (prefix,) + tuple(sorted(match.items()))
        _SEEN[key] = _SEEN.get(key, 0) + 1
        if _SEEN[key] > 2:
            continue
        ck.violation('%sclause %s fails on the real controller: %s' % (prefix, clause, {k: detail[k] for k in list(detail)[:4]}),
                     dict(replay, clause=clause, detail=detail), match=match)


def run(ck):
    rng = ck.rng
    _SEEN.clear()
    thorough = ck.tier == 'thorough'
    ck.rule = ('scripted runs: num_procs 1-4 x maxiter 1-3 x max_restarts {0,1,2,3,5} x crash x restart_from_first_step x '
               'Adaptivity on/off x random limiter subsets x seeded fault scripts (error estimates around e_tol incl. equality, '
               'restart requests at random (attempt, iteration, slot), bursts of first-step failures); a case is distinct by its '
               '(configuration, flag history) and non-trivial when at least one block attempt is restarted or raises; '
               'real runs: estimator x problem x num_procs x seeded tolerance')
    ck.check_props(required=REQUIRED)
    # Print Assumptions breaks long axiom types over two lines, which the shared parser skips: name them here
    for ax in ('ClassicalDedekindReals.sig_forall_dec', 'FunctionalExtensionality.functional_extensionality_dep'):
        t = 'axiom/primitive used by C09_pow_contract: ' + ax
        if t not in ck.trusted:
            ck.trusted.append(t)
    ck.trusted.append('harness/c09_lib.py: scripted controller, recording hook, Coq case generation, trace oracle')
    ck.trusted.append('PrimFloat primitives (float64 add/sub/mul/div/compare) in the vm_compute evaluation of the correspondence')

    # ------------------------------------------------------------------ 1. scripted fault sequences
    ncases = 900 if thorough else 220
    runs = []
    for _ in range(ncases):
        cfg, sc = gen_case(rng)
        res = L.run_scripted(cfg, sc)
        runs.append((cfg, sc, res))
    ck.log('scripted runs on the real controller: %d' % len(runs))

    # control order: the theorems are stated for BasicRestarting last among the modelled controllers and
    # Scripted < Adaptivity < slope limiter < absolute limiter before it
    order_bad = 0
    for cfg, sc, res in runs:
        names = [n for n, _ in res['order'] if n in L.STAGE]
        exp = [n for n in CANONICAL if n in names]
        if names != exp:
            order_bad += 1
            if order_bad == 1:
                ck.violation('convergence controllers are called in an order other than Adaptivity, slope limiter, '
                             'absolute limiter, BasicRestarting: %s' % res['order'],
                             {'cfg': cfg, 'control_order': res['order']}, match={'kind': 'control_order'})
    ck.obligation('live control order has the shape the theorems assume (%d runs)' % len(runs), order_bad == 0)

    # exact correspondence with the Coq model
    chunk = 45
    files = []
    for ci in range(0, len(runs), chunk):
        part = runs[ci:ci + chunk]
        files.append((ci, ck.write_gen('Cases_%03d.v' % (ci // chunk), L.coq_file([L.coq_case(c, s, r) for c, s, r in part]))))
    vals = {}

    def comp(item):
        ci, path = item
        rc, out = ck.coqc(path, timeout=900)
        return ci, rc, out
    with concurrent.futures.ThreadPoolExecutor(max_workers=8) as ex:
        for ci, rc, out in ex.map(comp, files):
            if rc != 0:
                ck.obligation('correspondence file %d evaluates' % ci, False, out[-1500:])
                ck.violation('generated correspondence cases do not compile', {'log': out[-3000:]}, match={'kind': 'gen'}, no_input=True)
                return
            v = parse_coq_value(eval_outputs(out)[0])
            for k, x in enumerate(v):
                vals[ci + k] = x
    ndiff = 0
    hist = {'done': 0, 'ConvergenceError': 0, 'TooLong': 0}
    nrestart_blocks = 0
    for idx, (cfg, sc, res) in enumerate(runs):
        hist[res['outcome']] = hist.get(res['outcome'], 0) + 1
        flags_hist = tuple(tuple(p[4] for p in sorted(b['post'])) for b in res['blocks'])
        nontrivial = res['outcome'] == 'ConvergenceError' or any(any(f) for f in flags_hist)
        nrestart_blocks += sum(1 for f in flags_hist if any(f))
        ck.case(key=(cfg['num_procs'], cfg['maxiter'], cfg['max_restarts'], cfg['crash'], cfg['rffs'], cfg['adapt'],
                     tuple(sorted(k for k in cfg if k.startswith('dt_'))), hash(flags_hist) & 0xffffffff),
                nontrivial=nontrivial,
                sample={'kind': 'scripted', 'cfg': cfg, 'outcome': res['outcome'], 'attempts': res['attempts'],
                        'flags': [list(f) for f in flags_hist[:6]]})
        ck.traces += 1
        fails = L.scripted_oracle(cfg, sc, res)
        replay = describe(cfg, sc, res)
        report(ck, fails, replay)
        d = L.first_difference(L.impl_view(res), L.model_view(vals[idx]))
        if d is not None:
            ndiff += 1
            key = ('correspondence', d['what'])
            _SEEN[key] = _SEEN.get(key, 0) + 1
            if not fails and _SEEN[key] <= 2:
                ck.violation('the real controller and the Coq model of BasicRestarting/Adaptivity/limiters/SpreadStepSizes/run() '
                             'disagree (%s, attempt %s) but no clause of the property fails on this trace' % (d['what'], d['attempt']),
                             dict(replay, difference=d), match={'kind': 'correspondence', 'what': d['what']}, no_input=True)
    ck.obligation('Coq model run = real controller trace on %d scripted runs (bit-exact)' % len(runs), ndiff == 0,
                  '%d runs differ' % ndiff)
    ck.cov['scripted_outcomes'] = hist
    ck.cov['scripted_block_attempts'] = sum(r['attempts'] for _, _, r in runs)
    ck.cov['scripted_restarted_block_attempts'] = nrestart_blocks

    # ------------------------------------------------------------------ 2. avoid_restarts decision rule: model = real method
    cases, dcases, text = L.decision_table()
    rc, out = ck.coqc(ck.write_gen('Decide.v', text), timeout=600)
    if rc != 0:
        ck.obligation('Decide.v evaluates', False, out[-1500:])
        ck.violation('generated decision table does not compile', {'log': out[-3000:]}, match={'kind': 'gen'}, no_input=True)
    else:
        ev = eval_outputs(out)
        mod = [tuple(bool(x) for x in v) for v in parse_coq_value(ev[0])]
        dmod = [bool(x) for x in parse_coq_value(ev[1])]
        nbad = 0
        for (key, got), m in zip(cases, mod):
            ck.case(key=('decide',) + tuple(sorted(key.items())), nontrivial=key['iter'] >= key['maxiter'])
            accepted_above = key['iter'] >= key['maxiter'] and got == (False, False) and key['e_est'] >= key['e_tol']
            if got != m or accepted_above:
                nbad += 1
                if nbad <= 2:
                    ck.violation('AdaptivityBase.determine_restart: at iteration %d (maxiter %d) with estimate %.1e and e_tol %.1e the step '
                                 'is left with (restart, force_continue) = %s%s' % (key['iter'], key['maxiter'], key['e_est'], key['e_tol'], got,
                                                                                   ' - neither restarted nor continued although the estimate is not below the tolerance' if accepted_above
                                                                                   else ', the model says %s' % (m,)),
                                 {'call': 'Adaptivity.determine_restart on a live step with hand-set status', 'status': key,
                                  'impl': got, 'model': m},
                                 match={'kind': 'determine_restart', 'avoid_restarts': key['avoid_restarts'],
                                        'beyond_maxiter': key['iter'] > key['maxiter']}, no_input=not accepted_above)
        for (key, got), m in zip(dcases, dmod):
            ck.case(key=('done',) + tuple(sorted(key.items())), nontrivial=True)
            if got != m:
                nbad += 1
                ck.violation('CheckConvergence.check_convergence differs from the model step_done', {'status': key, 'impl': got, 'model': m},
                             match={'kind': 'check_convergence'})
        ck.obligation('adapt_decide / step_done = real determine_restart / check_convergence on %d + %d status settings'
                      % (len(cases), len(dcases)), nbad == 0, '%d differ' % nbad)

    # ------------------------------------------------------------------ 3. real adaptive runs (oracle only)
    L.real_runs(ck, report)
