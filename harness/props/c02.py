"""C02 — one sweep = one preconditioned Picard iteration.

Tie: the REAL sweeper classes (generic_implicit, imex_1st_order, explicit, multi_implicit) are run in
exact rational arithmetic (harness/exact.py) on seeded inputs — arbitrary node values, with/without
tau, both end-point modes, every preconditioner name qmat offers (k-dependent ones at several sweep
indices), exact images of the float tables as well as injected small-rational matrices — and every
observable (new node values, new right-hand sides, integrate(), residual vectors, uend) is compared
EXACTLY by the Coq kernel with the executable model Model/SweepExec.v, which is the Qc instance of
Model/Sweep.v about which Props/C02.v states the matrix-form theorems.
Oracle (independent of the model): the matrix identity of the property evaluated in Fractions on
the real outputs; also for imex_1st_order_mass, verlet and all Runge-Kutta / IMEX-RK classes.
"""
import concurrent.futures as cf
import inspect
import logging
from fractions import Fraction as F

import numpy as np

from harness.common import coq_list, coq_bool, zlit, parse_coq_value, eval_outputs
from harness import exact as ex

LEVEL = 'proof'
KINDS = ['GI', 'IMEX', 'EXPL', 'MI']


def qc(x):
    x = F(x)
    return '(q %s %d)' % (zlit(x.numerator), x.denominator)


def qcl(xs):
    return coq_list([qc(x) for x in xs])


def qcm(rows):
    return coq_list([qcl(r) for r in rows])


def rfrac(rng, lo=-4, hi=4, dens=(1, 2, 3, 4, 5)):
    return F(rng.randint(lo, hi), rng.choice(dens))


def build_case(rng, kind, names_I, names_E, thorough):
    from pySDC.implementations.sweeper_classes.generic_implicit import generic_implicit
    from pySDC.implementations.sweeper_classes.imex_1st_order import imex_1st_order
    from pySDC.implementations.sweeper_classes.explicit import explicit
    from pySDC.implementations.sweeper_classes.multi_implicit import multi_implicit
    M = rng.choice([1, 2, 2, 3, 3, 3, 4, 5])
    quad = rng.choice(['RADAU-RIGHT', 'RADAU-RIGHT', 'LOBATTO', 'GAUSS', 'RADAU-LEFT'])
    if quad == 'LOBATTO' and M < 2:
        M = 2
    node_type = rng.choice(['LEGENDRE', 'LEGENDRE', 'EQUID', 'CHEBY-1'])
    do_coll = rng.random() < 0.4
    dim = rng.randint(1, 3)
    inject = rng.random() < 0.75
    if not inject:      # exact images of the float tables: keep the exact rationals small enough for the kernel
        M = min(M, 3)
        dim = min(dim, 2)
    sp = {'num_nodes': M, 'quad_type': quad, 'node_type': node_type, 'do_coll_update': do_coll}
    nI, nE = rng.choice(names_I), rng.choice(names_E)
    nI2 = rng.choice(names_I)
    ksweep = rng.randint(0, 3)
    dt = F(rng.randint(1, 8), rng.choice([4, 8, 10, 16]))
    t0 = rfrac(rng, -3, 3)

    def lam(n):
        return [rfrac(rng, -3, 2) for _ in range(n)]

    if kind == 'GI':
        cls, sp['QI'] = generic_implicit, nI
        pc, pp = ex.DiagProb, {'lam': lam(dim), 'c': lam(dim)}
        parts = [(pp['lam'], [0] * dim, pp['c'])]
    elif kind == 'EXPL':
        cls, sp['QE'] = explicit, nE
        pc, pp = ex.DiagProb, {'lam': lam(dim), 'c': lam(dim)}
        parts = [(pp['lam'], [0] * dim, pp['c'])]
    elif kind == 'IMEX':
        cls, sp['QI'], sp['QE'] = imex_1st_order, nI, nE
        pc, pp = ex.ImexDiagProb, {'lamI': lam(dim), 'cI': lam(dim), 'lamE': lam(dim), 'muE': lam(dim), 'cE': lam(dim)}
        parts = [(pp['lamI'], [0] * dim, pp['cI']), (pp['lamE'], pp['muE'], pp['cE'])]
    else:
        cls, sp['Q1'], sp['Q2'] = multi_implicit, nI, nI2
        pc, pp = ex.MultiDiagProb, {'lam1': lam(dim), 'c1': lam(dim), 'lam2': lam(dim), 'c2': lam(dim)}
        parts = [(pp['lam1'], [0] * dim, pp['c1']), (pp['lam2'], [0] * dim, pp['c2'])]
    L = ex.make_level(cls, sp, pc, pp, dt)
    sw = L.sweep
    if ksweep:
        sw.updateVariableCoeffs(ksweep)
    inj = {}
    if inject:
        n = M + 1
        Qi = [[F(0)] * n] + [[F(0)] + [rfrac(rng, -2, 3) for _ in range(M)] for _ in range(M)]
        inj['Qmat'] = np.array(Qi, dtype=object)
        inj['weights'] = np.array([rfrac(rng, 0, 3) for _ in range(M)], dtype=object)
        inj['nodes'] = np.array(sorted(F(rng.randint(0, 12), 12) for _ in range(M)), dtype=object)
        for a in ex.MATRIX_ATTRS:
            if hasattr(sw, a):
                strict = (a == 'QE')
                T = [[F(0)] * n for _ in range(n)]
                for i in range(1, n):
                    for j in range(0 if strict else 1, i + (0 if strict else 1)):
                        T[i][j] = rfrac(rng, -2, 3) if rng.random() < 0.8 else F(0)
                inj[a] = np.array(T, dtype=object)
    ex.exactify(L, dt=dt, inject=inj)
    L.status.time = t0
    L.status.unlocked = True
    L.status.sweep = 1
    P = L.prob
    # arbitrary node values; right-hand sides consistent (70%) or arbitrary
    for m in range(M + 1):
        L.u[m] = ex.FracVec([rfrac(rng, -5, 5) for _ in range(dim)])
    consistent = rng.random() < 0.7
    for m in range(M + 1):
        tm = t0 if m == 0 else t0 + dt * sw.coll.nodes[m - 1]
        fm = P.eval_f(L.u[m], tm)
        if not consistent:
            if isinstance(fm, ex.FracF2):
                fm.a = ex.FracVec([rfrac(rng, -5, 5) for _ in range(dim)])
                fm.b = ex.FracVec([rfrac(rng, -5, 5) for _ in range(dim)])
            else:
                fm = ex.FracVec([rfrac(rng, -5, 5) for _ in range(dim)])
        L.f[m] = fm
    tau_mode = rng.choice(['none', 'all', 'all', 'some'])
    for m in range(M):
        if tau_mode == 'all' or (tau_mode == 'some' and rng.random() < 0.5):
            L.tau[m] = ex.FracVec([rfrac(rng, -2, 2) for _ in range(dim)])
    meta = dict(kind=kind, M=M, quad=quad, node_type=node_type, do_coll=do_coll, dim=dim, inject=inject,
                names=[sp.get('QI', sp.get('Q1')), sp.get('QE', sp.get('Q2'))], ksweep=ksweep, tau=tau_mode,
                consistent_f=consistent, dt=str(dt), t0=str(t0))
    return L, parts, meta


def fparts(f):
    return [f.a.v, f.b.v] if isinstance(f, ex.FracF2) else [f.v]


def snapshot(L):
    M = L.sweep.coll.num_nodes
    return dict(u=[list(L.u[m].v) for m in range(M + 1)], f=[fparts(L.f[m]) for m in range(M + 1)],
                tau=[None if t is None else list(t.v) for t in L.tau])


def run_real(L):
    """returns flattened observables in the order of SweepExec.run_case, plus structured data for the oracle"""
    sw = L.sweep
    M = sw.coll.num_nodes
    ints = sw.integrate()
    sw.update_nodes()
    sw.compute_residual()
    res = [list(r.v) for r in L.residual]
    sw.compute_end_point()
    out = []
    for m in range(1, M + 1):
        out += L.u[m].v
    for m in range(1, M + 1):
        for p in fparts(L.f[m]):
            out += p
    for r in ints:
        out += r.v
    for r in res:
        out += r
    out += L.uend.v
    return out, dict(ints=[list(r.v) for r in ints], res=res, uend=list(L.uend.v), residual=L.status.residual)


def coq_case(L, parts, meta, before, expected):
    sw = L.sweep
    M = meta['M']
    kind = meta['kind']
    QA = getattr(sw, 'QI', None) if kind in ('GI', 'IMEX') else (sw.QE if kind == 'EXPL' else sw.Q1)
    QB = sw.QE if kind == 'IMEX' else (sw.Q2 if kind == 'MI' else np.zeros((M + 1, M + 1), dtype=object))
    prob = '{| p_dim := %d%%nat; p_lam := %s; p_mu := %s; p_c := %s |}' % (
        meta['dim'], qcm([p[0] for p in parts]), qcm([p[1] for p in parts]), qcm([p[2] for p in parts]))
    taus = ['None'] + [('None' if t is None else '(Some %s)' % qcl(t)) for t in before['tau']]
    fields = [
        'c_kind := %s' % kind, 'c_M := %d%%nat' % M, 'c_dt := %s' % qc(L.params.dt), 'c_t0 := %s' % qc(L.status.time),
        'c_nodes := %s' % qcl([0] + list(sw.coll.nodes)), 'c_Q := %s' % qcm(sw.coll.Qmat.tolist()),
        'c_w := %s' % qcl([0] + list(sw.coll.weights)), 'c_QA := %s' % qcm(QA.tolist()), 'c_QB := %s' % qcm(QB.tolist()),
        'c_prob := %s' % prob, 'c_u := %s' % qcm(before['u']),
        'c_f := %s' % coq_list([qcm(fm) for fm in before['f']]), 'c_tau := %s' % coq_list(taus),
        'c_rin := %s' % coq_bool(bool(sw.coll.right_is_node)), 'c_docoll := %s' % coq_bool(bool(sw.params.do_coll_update)),
        'c_mass := []', 'c_level0 := true',
    ]
    return '({| %s |}, %s)' % ('; '.join(fields), qcl(expected))


def oracle(L, parts, meta, before, after):
    """The property's identities evaluated directly on the real outputs (Fractions); returns list of failures."""
    sw = L.sweep
    M, dim, kind = meta['M'], meta['dim'], meta['kind']
    dt, t0 = L.params.dt, L.status.time
    Q = sw.coll.Qmat
    fails = []
    P = L.prob
    tm = [t0] + [t0 + dt * sw.coll.nodes[m - 1] for m in range(1, M + 1)]

    def ftot(fp):
        return [sum(p[x] for p in fp) for x in range(dim)]

    un = [list(L.u[m].v) for m in range(M + 1)]
    fn = [fparts(L.f[m]) for m in range(M + 1)]
    fo = before['f']
    # f consistency: stored f equals eval_f at own time and new value
    for m in range(1, M + 1):
        fe = fparts(P.eval_f(ex.FracVec(un[m]), tm[m]))
        if fe != fn[m]:
            fails.append(('f_consistent', m))
    if un[0] != before['u'][0]:
        fails.append(('u0_changed', 0))
    mats = {'GI': [sw.QI] if kind == 'GI' else None, 'EXPL': [sw.QE] if kind == 'EXPL' else None,
            'IMEX': [sw.QI, sw.QE] if kind == 'IMEX' else None, 'MI': [sw.Q1, sw.Q2] if kind == 'MI' else None}[kind]
    for m in range(1, M + 1):
        tau = before['tau'][m - 1] or [F(0)] * dim
        for x in range(dim):
            if kind == 'MI':
                # (I - dt Q1 A1)(I - dt Q2 A2)-type two-stage form: check the two node equations via elimination:
                # u* - dt*sum_{j<=m} Q1 f1(new_j; u* at m) ... the first-stage value is not observable; use the
                # composite identity  u_m - dt*Q2[m,m] f2_m - dt*sum_{j<m} Q2[m,j] f2n_j + dt*sum_j Q2[m,j] f2o_j  = u*_m
                # with u*_m - dt*Q1[m,m]*f1(u*_m) - dt*sum_{j<m}Q1 f1n_j = u0 + dt*sum_j (Q - Q1) f1o_j + dt*sum_j Q f2o_j + tau
                lam1, c1 = parts[0][0][x], parts[0][2][x]
                ustar = un[m][x] - dt * mats[1][m, m] * fn[m][1][x] - dt * sum(mats[1][m, j] * fn[j][1][x] for j in range(1, m)) \
                    + dt * sum(mats[1][m, j] * fo[j][1][x] for j in range(1, M + 1))
                f1star = lam1 * ustar + c1 * tm[m]
                lhs = ustar - dt * mats[0][m, m] * f1star - dt * sum(mats[0][m, j] * fn[j][0][x] for j in range(1, m))
                rhs = before['u'][0][x] + dt * sum((Q[m, j] - mats[0][m, j]) * fo[j][0][x] + Q[m, j] * fo[j][1][x] for j in range(1, M + 1)) + tau[x]
            else:
                lhs = un[m][x]
                rhs = before['u'][0][x] + tau[x]
                for p, QD in enumerate(mats):
                    lhs -= dt * sum(QD[m, j] * fn[j][p][x] for j in range(1, m + 1))
                    rhs += dt * sum((Q[m, j] - QD[m, j]) * fo[j][p][x] for j in range(1, M + 1))
            if lhs != rhs:
                fails.append(('matrix_form', m, x))
        # integrate = dt Q F(old)
        for x in range(dim):
            if after['ints'][m - 1][x] != dt * sum(Q[m, j] * ftot(fo[j])[x] for j in range(1, M + 1)):
                fails.append(('integrate', m, x))
            r = before['u'][0][x] + dt * sum(Q[m, j] * ftot(fn[j])[x] for j in range(1, M + 1)) + tau[x] - un[m][x]
            if after['res'][m - 1][x] != r:
                fails.append(('residual_vec', m, x))
    # reported residual (full_abs): max over nodes of max-norm
    if after['residual'] != max(max(abs(v) for v in r) for r in after['res']):
        fails.append(('residual_norm',))
    # end point
    taul = before['tau'][M - 1] or [F(0)] * dim
    for x in range(dim):
        if sw.coll.right_is_node and not sw.params.do_coll_update:
            e = un[M][x]
        else:
            e = before['u'][0][x] + dt * sum(sw.coll.weights[m - 1] * ftot(fn[m])[x] for m in range(1, M + 1)) + taul[x]
        if after['uend'][x] != e:
            fails.append(('uend', x))
    return fails


# ----------------------------------------------------------------------------------------- other sweepers (oracle only)

def rk_classes():
    import pySDC.implementations.sweeper_classes.Runge_Kutta as RK
    out = []
    for n, c in inspect.getmembers(RK, inspect.isclass):
        if issubclass(c, RK.RungeKutta) and c not in (RK.RungeKutta, RK.RungeKuttaIMEX) and hasattr(c, 'matrix'):
            out.append(c)
    return out


class mesh(ex.FracVec):          # the RK sweepers dispatch on type(f).__name__ in ('mesh', 'imex_mesh')
    def __getitem__(self, i):
        return mesh(self.v[i]) if isinstance(i, slice) else self.v[i]


class imex_mesh(ex.FracF2):
    def __init__(self, init, val=0):
        if isinstance(init, ex.FracF2):
            self.a, self.b = mesh(init.a), mesh(init.b)
        else:
            self.a, self.b = mesh(init, val), mesh(init, val)


class RKProb(ex.DiagProb):
    dtype_u = mesh
    dtype_f = mesh

    def eval_f(self, u, t):
        return mesh(super().eval_f(u, t))

    def solve_system(self, rhs, factor, u0, t):
        return mesh(super().solve_system(rhs, factor, u0, t))


class RKImexProb(ex.ImexDiagProb):
    dtype_u = mesh
    dtype_f = imex_mesh

    def eval_f(self, u, t):
        f0 = super().eval_f(u, t)
        f = imex_mesh(self.init)
        f.a, f.b = mesh(f0.a), mesh(f0.b)
        return f

    def solve_system(self, rhs, factor, u0, t):
        return mesh(super().solve_system(rhs, factor, u0, t))


def rk_oracle(ck, cls, rng):
    import pySDC.implementations.sweeper_classes.Runge_Kutta as RK
    dim = rng.randint(1, 2)
    imex = issubclass(cls, RK.RungeKuttaIMEX)
    dt = rng.choice([0.5, 0.25, 0.125])
    lam = lambda: [rfrac(rng, -3, 2) for _ in range(dim)]
    if imex:
        pc, pp = RKImexProb, {'lamI': lam(), 'cI': lam(), 'lamE': lam(), 'muE': lam(), 'cE': lam()}
    else:
        pc, pp = RKProb, {'lam': lam(), 'c': lam()}
    L = ex.make_level(cls, {}, pc, pp, dt)
    sw = L.sweep
    L.status.time = 0.0
    L.status.unlocked = True
    L.status.sweep = 1
    L.u[0] = mesh([rfrac(rng, -5, 5) for _ in range(dim)])
    u0 = list(L.u[0].v)
    sw.predict()
    sw.update_nodes()
    sw.compute_end_point()
    M = sw.coll.num_nodes
    A = [[F(float(v)) for v in row] for row in np.asarray(sw.coll.Qmat)]
    AE = [[F(float(v)) for v in row] for row in np.asarray(sw.coll_explicit.Qmat)] if imex else None
    nodes = [F(float(v)) for v in sw.coll.nodes]
    dtq = F(dt)
    P = L.prob
    fails = []
    un = [list(L.u[m].v) for m in range(M + 1)]
    if un[0] != u0:
        fails.append(('u0_corrupted',))

    def fev(m):
        f = P.eval_f(mesh(un[m]), dtq * nodes[m])
        return [f.a.v, f.b.v] if imex else [f.v]
    fs = [None] + [fev(m) for m in range(1, M + 1)]
    for m in range(1, M + 1):
        for x in range(dim):
            lhs = un[m][x] - dtq * A[m][m] * fs[m][0][x]
            rhs = u0[x] + dtq * sum(A[m][j] * fs[j][0][x] for j in range(1, m))
            if imex:
                rhs += dtq * sum(AE[m][j] * fs[j][1][x] for j in range(1, m))
            if lhs != rhs:
                fails.append(('stage_form', m, x))
    # end value: u0 + dt sum b_j f_j (full f), or last stage when globally stiffly accurate
    w = np.asarray(sw.coll.weights)
    w1 = w[0] if w.ndim == 2 else w
    wE = None
    if imex:
        we = np.asarray(sw.coll_explicit.weights)
        wE = we[0] if we.ndim == 2 else we
    for x in range(dim):
        e = u0[x] + dtq * sum(F(float(w1[m - 1])) * fs[m][0][x] for m in range(1, M + 1))
        if imex:
            e += dtq * sum(F(float(wE[m - 1])) * fs[m][1][x] for m in range(1, M + 1))
        got = L.uend.v[x]
        gsa = sw.coll.globally_stiffly_accurate and (not imex or sw.coll_explicit.globally_stiffly_accurate)
        tol = abs(e) * F(1, 2 ** 40) + F(1, 2 ** 40) if gsa else F(0)   # stiffly accurate: last stage = b-combination up to rounding of the tableau
        if abs(got - e) > tol:
            fails.append(('uend', x, float(got - e)))
        if gsa and got != un[M][x]:
            fails.append(('uend_last_stage', x))
    key = ('RK', cls.__name__)
    ck.case(key=key, sample={'kind': 'RK', 'class': cls.__name__, 'stages': M, 'imex': imex})
    coq = None
    if not imex:
        z = [[0] * dim]
        fields = [
            'c_kind := GI', 'c_M := %d%%nat' % M, 'c_dt := %s' % qc(dtq), 'c_t0 := %s' % qc(0),
            'c_nodes := %s' % qcl(nodes), 'c_Q := %s' % qcm([[0]]), 'c_w := %s' % qcl([0]),
            'c_QA := %s' % qcm(A), 'c_QB := %s' % qcm([[0]]),
            'c_prob := {| p_dim := %d%%nat; p_lam := %s; p_mu := %s; p_c := %s |}' % (dim, qcm([pp['lam']]), qcm(z), qcm([pp['c']])),
            'c_u := %s' % qcm([u0] + [[0] * dim] * M), 'c_f := %s' % coq_list([qcm(z)] * (M + 1)),
            'c_tau := %s' % coq_list(['None'] * (M + 1)), 'c_rin := true', 'c_docoll := false', 'c_mass := []', 'c_level0 := true']
        coq = (cls.__name__, '({| %s |}, %s)' % ('; '.join(fields), qcl(sum(un[1:], []))))
    for fl in fails:
        ck.violation('%s: Runge-Kutta sweeper violates its stage form (%s)' % (cls.__name__, fl[0]),
                     {'class': cls.__name__, 'dt': dt, 'u0': [str(v) for v in u0], 'problem': {k: [str(a) for a in v] for k, v in pp.items()}, 'failure': fl},
                     match={'kind': 'rk-' + fl[0], 'class': cls.__name__})
        break
    return coq


def mass_oracle(ck, rng):
    """imex_1st_order_mass: sums run over j = 0..M (column 0 of QE = dTau is used) and the mass matrix hits u0 on level 0."""
    from pySDC.implementations.sweeper_classes.imex_1st_order_mass import imex_1st_order_mass
    M = rng.choice([2, 3, 4]); dim = rng.randint(1, 2)
    dt = F(rng.randint(1, 4), 8); t0 = rfrac(rng, -2, 2)
    lam = lambda: [rfrac(rng, -3, 2) for _ in range(dim)]
    mm = [F(rng.randint(1, 4), 2) for _ in range(dim)]

    class MassProb(ex.ImexDiagProb):
        def apply_mass_matrix(self, u):
            return ex.FracVec([a * b for a, b in zip(mm, u.v)])

        def solve_system(self, rhs, factor, u0, t):       # (mass - factor*lamI) u = rhs + factor*cI*t
            t, factor = F(t), F(factor)
            return ex.FracVec([(r + factor * c * t) / (m_ - factor * l) for r, l, c, m_ in zip(rhs.v, self.lamI, self.cI, mm)])
        fix_bc_for_residual = False
    lvl_index = rng.choice([0, 1])
    pp = {'lamI': lam(), 'cI': lam(), 'lamE': lam(), 'muE': lam(), 'cE': lam()}
    L = ex.make_level(imex_1st_order_mass, {'num_nodes': M, 'quad_type': 'RADAU-RIGHT', 'QI': rng.choice(['IE', 'LU']), 'QE': rng.choice(['EE', 'PIC'])},
                      MassProb, pp, dt, level_index=lvl_index)
    ex.exactify(L, dt=dt)
    sw = L.sweep
    L.status.time = t0; L.status.unlocked = True; L.status.sweep = 1
    P = L.prob
    for m in range(M + 1):
        L.u[m] = ex.FracVec([rfrac(rng, -5, 5) for _ in range(dim)])
        L.f[m] = P.eval_f(L.u[m], t0 if m == 0 else t0 + dt * sw.coll.nodes[m - 1])
    tau = [None] * M
    if rng.random() < 0.5:
        for m in range(M):
            L.tau[m] = ex.FracVec([rfrac(rng, -2, 2) for _ in range(dim)]); tau[m] = list(L.tau[m].v)
    before = snapshot(L)
    sw.update_nodes()
    Q, QI, QE = sw.coll.Qmat, sw.QI, sw.QE
    fo = before['f']; fn = [fparts(L.f[m]) for m in range(M + 1)]
    un = [list(L.u[m].v) for m in range(M + 1)]
    bad = None
    for m in range(1, M + 1):
        for x in range(dim):
            u0x = before['u'][0][x] * (mm[x] if lvl_index == 0 else 1)
            lhs = mm[x] * un[m][x] - dt * sum(QI[m, j] * fn[j][0][x] for j in range(0, m + 1)) - dt * sum(QE[m, j] * fn[j][1][x] for j in range(0, m))
            rhs = u0x + dt * sum(Q[m, j] * (fo[j][0][x] + fo[j][1][x]) for j in range(1, M + 1)) \
                - dt * sum(QI[m, j] * fo[j][0][x] + QE[m, j] * fo[j][1][x] for j in range(0, M + 1)) + (tau[m - 1][x] if tau[m - 1] else 0)
            if lhs != rhs:
                bad = ('matrix_form', m, x)
    ck.case(key=('MASS', M, lvl_index, bool(tau[0])), sample=None)
    if bad:
        ck.violation('imex_1st_order_mass violates its matrix form', {'M': M, 'level_index': lvl_index, 'failure': bad}, match={'kind': 'mass-matrix_form'})
    expected = sum(un[1:], []) + sum((fn[m][0] + fn[m][1] for m in range(1, M + 1)), [])
    fields = [
        'c_kind := IMEX', 'c_M := %d%%nat' % M, 'c_dt := %s' % qc(dt), 'c_t0 := %s' % qc(t0),
        'c_nodes := %s' % qcl([0] + list(sw.coll.nodes)), 'c_Q := %s' % qcm(Q.tolist()), 'c_w := %s' % qcl([0] + list(sw.coll.weights)),
        'c_QA := %s' % qcm(QI.tolist()), 'c_QB := %s' % qcm(QE.tolist()),
        'c_prob := {| p_dim := %d%%nat; p_lam := %s; p_mu := %s; p_c := %s |}' % (dim, qcm([pp['lamI'], pp['lamE']]), qcm([[0] * dim, pp['muE']]), qcm([pp['cI'], pp['cE']])),
        'c_u := %s' % qcm(before['u']), 'c_f := %s' % coq_list([qcm(fm) for fm in before['f']]),
        'c_tau := %s' % coq_list(['None'] + [('None' if t is None else '(Some %s)' % qcl(t)) for t in tau]),
        'c_rin := true', 'c_docoll := false', 'c_mass := %s' % qcl(mm), 'c_level0 := %s' % coq_bool(lvl_index == 0)]
    return '({| %s |}, %s)' % ('; '.join(fields), qcl(expected))


def verlet_oracle(ck, rng):
    """verlet: second-order (position/velocity) block form with Qx, QT, QQ, checked in exact arithmetic on a linear oscillator."""
    from pySDC.implementations.sweeper_classes.verlet import verlet
    src = inspect.getsource(verlet.update_nodes)
    M = rng.choice([2, 3]); dt = F(rng.randint(1, 4), 8); t0 = F(0)
    k = rfrac(rng, 1, 4)
    quad = rng.choice(['LOBATTO', 'LOBATTO', 'RADAU-RIGHT', 'RADAU-LEFT', 'GAUSS'])
    ntype = rng.choice(['LEGENDRE', 'LEGENDRE', 'EQUID'])
    dcu = rng.random() < 0.5
    with_tau = rng.random() < 0.4

    class PV:
        def __init__(self, init, val=0):
            if isinstance(init, PV):
                self.pos, self.vel = ex.FracVec(init.pos), ex.FracVec(init.vel)
                self.m, self.q = init.m, init.q
            else:
                self.pos, self.vel = ex.FracVec(1, val), ex.FracVec(1, val)
                self.m, self.q = 1, 1

        def __add__(self, o):
            r = PV(self); r.pos = self.pos + o.pos; r.vel = self.vel + o.vel; return r

        def __sub__(self, o):
            r = PV(self); r.pos = self.pos - o.pos; r.vel = self.vel - o.vel; return r

        def __abs__(self):
            return max(abs(self.pos), abs(self.vel))

    class Osc(ex.Problem):
        dtype_u = PV
        dtype_f = ex.FracVec

        def __init__(self):
            super().__init__(init=1)

        def eval_f(self, u, t):
            return ex.FracVec([-k * u.pos.v[0]])

        def u_init(self):
            return PV(1)
    try:
        L = ex.make_level(verlet, {'num_nodes': M, 'quad_type': quad, 'node_type': ntype, 'do_coll_update': dcu, 'QI': 'IE', 'QE': 'EE'}, Osc, {}, dt)
    except Exception as e:
        ck.notes.append('verlet oracle skipped: %s' % e)
        return
    sw = L.sweep
    for a in ('QQ', 'QT', 'Qx', 'qQ', 'QI', 'QE'):
        if hasattr(sw, a):
            setattr(sw, a, ex.frac_array(getattr(sw, a)))
    sw.coll.Qmat = ex.frac_array(sw.coll.Qmat); sw.coll.weights = ex.frac_array(sw.coll.weights); sw.coll.nodes = ex.frac_array(sw.coll.nodes)
    L.params.dt = dt
    L.status.time = t0; L.status.unlocked = True; L.status.sweep = 1
    P = L.prob
    for m in range(M + 1):
        L.u[m] = PV(1); L.u[m].pos = ex.FracVec([rfrac(rng, -3, 3)]); L.u[m].vel = ex.FracVec([rfrac(rng, -3, 3)])
        L.f[m] = P.eval_f(L.u[m], t0)
    uo = [(L.u[m].pos.v[0], L.u[m].vel.v[0]) for m in range(M + 1)]
    fo = [L.f[m].v[0] for m in range(M + 1)]
    taus = [None] * (M + 1)
    if with_tau:
        for m in range(1, M + 1):
            t = PV(1); t.pos = ex.FracVec([rfrac(rng, -2, 2)]); t.vel = ex.FracVec([rfrac(rng, -2, 2)])
            L.tau[m - 1] = t
            taus[m] = (t.pos.v[0], t.vel.v[0])
    tv = lambda m, i: (taus[m][i] if taus[m] is not None else 0)
    # table fact used by C02_verlet_end_point_second_order_form: qQ = w^T Q (float table vs exact product of the float images)
    wQ = [sum(sw.coll.weights[n] * sw.coll.Qmat[n + 1, j + 1] for n in range(M)) for j in range(M)]
    scale = max([abs(x) for x in wQ] + [F(1, 10)])
    if any(abs(sw.qQ[j] - wQ[j]) > F(1, 10**13) * scale for j in range(M)):
        ck.violation('verlet.qQ is not w^T Q (the weights of the position end value in second-order form)',
                     {'M': M, 'quad_type': quad, 'node_type': ntype, 'qQ': [float(x) for x in sw.qQ], 'wTQ': [float(x) for x in wQ]},
                     match={'kind': 'verlet-qQ-table'})
    try:
        sw.update_nodes()
        integ = sw.integrate()
        sw.compute_end_point()
    except Exception as e:
        ck.notes.append('verlet oracle skipped (exact run failed: %s)' % type(e).__name__)
        return
    un = [(L.u[m].pos.v[0], L.u[m].vel.v[0]) for m in range(M + 1)]
    fn = [L.f[m].v[0] for m in range(M + 1)]
    Q, QQ, QT, Qx = sw.coll.Qmat, sw.QQ, sw.QT, sw.Qx
    bad = None
    for m in range(1, M + 1):
        # positions:  x_m - dt^2 sum_{j<m} Qx[m,j] f_new_j = x0 + dt (sum_j Q[m,j]) v0 + dt^2 sum_j (QQ - Qx)[m,j] f_old_j
        lhs = un[m][0] - dt * dt * sum(Qx[m, j] * fn[j] for j in range(1, m))
        rhs = uo[0][0] + dt * sum(Q[m, j] for j in range(1, M + 1)) * uo[0][1] + dt * dt * sum((QQ[m, j] - Qx[m, j]) * fo[j] for j in range(1, M + 1)) + tv(m, 0)
        if lhs != rhs:
            bad = ('position', m)
        # velocities: v_m - dt sum_{j<=m} QT[m,j] f_new_j = v0 + dt sum_j (Q - QT)[m,j] f_old_j
        lhs = un[m][1] - dt * sum(QT[m, j] * fn[j] for j in range(1, m + 1))
        rhs = uo[0][1] + dt * sum((Q[m, j] - QT[m, j]) * fo[j] for j in range(1, M + 1)) + tv(m, 1)
        if lhs != rhs:
            bad = ('velocity', m)
        if fn[m] != -k * un[m][0]:
            bad = ('f_consistent', m)
    # end value: the last node exactly when configured so, else x0 + dt sum_n w_n (v0 + dt sum_j Q_nj f_j) / v0 + dt sum w_m f_m (+ tau[-1])
    w = sw.coll.weights
    rin = bool(sw.coll.right_is_node)
    ue = (L.uend.pos.v[0], L.uend.vel.v[0])
    if rin and not sw.params.do_coll_update:
        want = un[M]
    else:
        want = (uo[0][0] + dt * sum(w[n] for n in range(M)) * uo[0][1] + dt * dt * sum(sw.qQ[j] * fn[j + 1] for j in range(M)) + tv(M, 0),
                uo[0][1] + dt * sum(w[n] * fn[n + 1] for n in range(M)) + tv(M, 1))
    if ue != want:
        bad = ('end_point', 'copy' if (rin and not sw.params.do_coll_update) else 'quadrature')
    ck.case(key=('VERLET', M, quad, ntype, bool(sw.params.do_coll_update), with_tau), sample=None)
    if bad:
        ck.violation('verlet sweeper violates its position/velocity block form', {'M': M, 'dt': str(dt), 'quad_type': quad, 'node_type': ntype, 'do_coll_update': bool(sw.params.do_coll_update), 'tau': with_tau, 'failure': bad},
                     match={'kind': 'verlet-' + bad[0]})
    fields = ['v_M := %d%%nat' % M, 'v_dt := %s' % qc(dt), 'v_t0 := %s' % qc(t0), 'v_nodes := %s' % qcl([0] + list(sw.coll.nodes)),
              'v_Q := %s' % qcm(Q.tolist()), 'v_QQ := %s' % qcm(QQ.tolist()), 'v_Qx := %s' % qcm(Qx.tolist()), 'v_QT := %s' % qcm(QT.tolist()),
              'v_k := %s' % qc(k), 'v_p := %s' % qcl([a for a, _ in uo]), 'v_v := %s' % qcl([b for _, b in uo]), 'v_f := %s' % qcl(fo),
              'v_w := %s' % qcl([0] + list(w)), 'v_qQ := %s' % qcl([0] + list(sw.qQ)),
              'v_taup := %s' % coq_list(['None' if t is None else '(Some %s)' % qc(t[0]) for t in taus]),
              'v_tauv := %s' % coq_list(['None' if t is None else '(Some %s)' % qc(t[1]) for t in taus]),
              'v_rin := %s' % coq_bool(rin), 'v_dcu := %s' % coq_bool(bool(sw.params.do_coll_update))]
    expected = ([a for a, _ in un[1:]] + [b for _, b in un[1:]] + fn[1:] + [i.pos.v[0] for i in integ] + [i.vel.v[0] for i in integ] + [ue[0], ue[1]])
    return '({| %s |}, %s)' % ('; '.join(fields), qcl(expected))


# ----------------------------------------------------------------------------------------- main

def run(ck):
    logging.disable(logging.CRITICAL)
    rng = ck.rng
    thorough = ck.tier == 'thorough'
    ck.rule = ('seeded cases over (sweeper class, M, node family, quadrature type, preconditioner name(s), sweep index k, tau mode, '
               'end-point mode, table source exact-float-image/injected-rational, dimension); distinct = that tuple; non-trivial = M >= 2 '
               'or tau present (a one-node sweep without tau has no off-diagonal coupling)')
    ck.check_props(required=['C02_generic_implicit_matrix_form', 'C02_imex_matrix_form', 'C02_explicit_matrix_form', 'C02_multi_implicit_two_stage_form', 'C02_runge_kutta_stage_form', 'C02_imex_mass_matrix_form', 'C02_verlet_block_form', 'C02_verlet_end_point_form', 'C02_verlet_end_point_second_order_form',
                             'C02_integrate_is_dtQF', 'C02_end_point_quadrature', 'C02_residual_is_defect',
                             'C02_dae_fully_implicit_sweep_form', 'C02_dae_semi_implicit_sweep_form', 'C02_dae_runge_kutta_stage_form',
                             'C02_boris_position_form', 'C02_boris_block_form',
                             'C02_rkn_explicit_stage_form', 'C02_rkn_end_point_form', 'C02_multistep_update_form', 'C02_multistep_one_step_run_form'])
    from qmat.qdelta import QDELTA_GENERATORS
    from pySDC.implementations.sweeper_classes.generic_implicit import generic_implicit
    from pySDC.implementations.sweeper_classes.explicit import explicit
    names_I, names_E = [], []
    for k in sorted(QDELTA_GENERATORS):
        for cls, key, acc in ((generic_implicit, 'QI', names_I), (explicit, 'QE', names_E)):
            try:
                ex.make_level(cls, {'num_nodes': 3, 'quad_type': 'RADAU-RIGHT', key: k}, ex.DiagProb, {'lam': [1], 'c': [0]}, F(1, 10))
                acc.append(k)
            except Exception:
                pass
    ck.cov['implicit_preconditioner_names'] = names_I
    ck.cov['explicit_preconditioner_names'] = names_E
    if len(names_I) < 20 or len(names_E) < 3:
        ck.violation('sweepers accept suspiciously few preconditioner names', {'implicit': names_I, 'explicit': names_E}, match={'kind': 'names'})

    n_cases = 2000 if thorough else 320
    from pySDC.core.errors import CollocationError
    cases = []
    hist = {}
    rejected = {}
    for i in range(n_cases):
        kind = KINDS[i % 4]
        try:
            L, parts, meta = build_case(rng, kind, names_I, names_E, thorough)
            before = snapshot(L)
            expected, after = run_real(L)
        except ZeroDivisionError:
            continue      # singular 1 - a*lam for this draw
        except (NotImplementedError, CollocationError, ValueError) as e:
            if isinstance(e, ValueError) and 'NaN' not in str(e):
                raise
            rejected[str(e)[:60]] = rejected.get(str(e)[:60], 0) + 1     # configuration qmat/CollBase does not offer
            continue
        except Exception as e:
            ck.violation('real sweeper raised %s: %s' % (type(e).__name__, e), {'kind': kind}, match={'kind': 'raise', 'sweeper': kind})
            continue
        key = (kind, meta['M'], meta['node_type'], meta['quad'], tuple(meta['names']), meta['ksweep'], meta['tau'], meta['do_coll'], meta['inject'], meta['dim'])
        ck.case(key=key, nontrivial=(meta['M'] >= 2 or meta['tau'] != 'none'), sample=meta)
        hist[(kind, meta['M'])] = hist.get((kind, meta['M']), 0) + 1
        fails = oracle(L, parts, meta, before, after)
        if fails:
            ck.violation('%s: real sweeper output violates the matrix form of the property (%s)' % (kind, fails[0][0]),
                         {'meta': meta, 'before': before, 'failures': fails[:10]}, match={'kind': 'oracle-' + fails[0][0], 'sweeper': kind})
        cases.append((meta, coq_case(L, parts, meta, before, expected), bool(fails)))
    ck.cov['configurations_rejected_by_code'] = rejected
    ck.cov['histogram_kind_M'] = {'%s/M=%d' % k: v for k, v in sorted(hist.items())}

    # Coq: exact comparison with the executable model
    chunk = 20
    files = []
    for ci in range(0, len(cases), chunk):
        body = ['From Coq Require Import List ZArith QArith Qcanon.', 'From PySDC Require Import Model.Sweep Model.SweepExec.',
                'Import ListNotations.', 'Definition cases : list (case * list Qc) := [',
                ';\n'.join(c[1] for c in cases[ci:ci + chunk]), '].', 'Eval vm_compute in map check_case cases.']
        files.append(ck.write_gen('Cases_%03d.v' % (ci // chunk), '\n'.join(body) + '\n'))
    results = []
    with cf.ThreadPoolExecutor(max_workers=14) as pool:
        outs = list(pool.map(lambda f: ck.coqc(f, timeout=900), files))
    for f, (rc, out) in zip(files, outs):
        if rc != 0:
            ck.obligation('model evaluation ' + f.split('/')[-1], False, out[-800:])
            ck.violation('generated correspondence cases do not compile/evaluate', {'file': f, 'log': out[-3000:]}, match={'kind': 'gen'}, no_input=True)
            return
        results += parse_coq_value(eval_outputs(out)[0])
    assert len(results) == len(cases)
    ndiff = 0
    for (meta, _, oracle_failed), r in zip(cases, results):
        ck.traces += 1
        if r != -1:
            ndiff += 1
            ck.violation('model and real sweeper differ at observable #%d (%s)' % (r, meta['kind']),
                         {'correspondence': 'Model/SweepExec.run_case vs real sweeper', 'meta': meta, 'first_differing_observable': r},
                         match={'kind': 'correspondence', 'sweeper': meta['kind']}, no_input=not oracle_failed)
    ck.obligation('exact correspondence model = implementation on %d sweeps' % len(cases), ndiff == 0)

    # other sweepers: oracle in exact arithmetic
    rk_cases = []
    for cls in rk_classes():
        for _ in range(3 if thorough else 1):
            try:
                c = rk_oracle(ck, cls, rng)
                if c:
                    rk_cases.append(c)
            except ZeroDivisionError:
                pass
    if rk_cases:
        body = ['From Coq Require Import List ZArith QArith Qcanon.', 'From PySDC Require Import Model.Sweep Model.SweepExec.',
                'Import ListNotations.', 'Definition cases : list (case * list Qc) := [', ';\n'.join(c[1] for c in rk_cases), '].',
                'Eval vm_compute in map check_rk_case cases.']
        rc, out = ck.coqc(ck.write_gen('RKCases.v', '\n'.join(body) + '\n'), timeout=900)
        if rc != 0:
            ck.obligation('RK model evaluation', False, out[-800:])
            ck.violation('generated RK cases do not compile/evaluate', {'log': out[-3000:]}, match={'kind': 'gen'}, no_input=True)
        else:
            res = parse_coq_value(eval_outputs(out)[0])
            nb = 0
            for (name, _), r in zip(rk_cases, res):
                ck.traces += 1
                if r != -1:
                    nb += 1
                    ck.violation('Runge-Kutta model and real sweeper %s differ at stage value #%d' % (name, r),
                                 {'correspondence': 'Model/SweepExec.run_rk vs ' + name, 'class': name}, match={'kind': 'rk-correspondence', 'class': name}, no_input=True)
            ck.obligation('exact correspondence RK model = implementation on %d Runge-Kutta classes' % len(rk_cases), nb == 0)
    mass_cases = []
    for _ in range(40 if thorough else 12):
        try:
            c = mass_oracle(ck, rng)
            if c:
                mass_cases.append(c)
        except ZeroDivisionError:
            pass
    if mass_cases:
        body = ['From Coq Require Import List ZArith QArith Qcanon.', 'From PySDC Require Import Model.Sweep Model.SweepExec.',
                'Import ListNotations.', 'Definition cases : list (case * list Qc) := [', ';\n'.join(mass_cases), '].',
                'Eval vm_compute in map check_mass_case cases.']
        rc, out = ck.coqc(ck.write_gen('MassCases.v', '\n'.join(body) + '\n'), timeout=900)
        if rc != 0:
            ck.obligation('mass-sweeper model evaluation', False, out[-800:])
            ck.violation('generated mass-sweeper cases do not compile/evaluate', {'log': out[-3000:]}, match={'kind': 'gen'}, no_input=True)
        else:
            res = parse_coq_value(eval_outputs(out)[0])
            nb = sum(1 for r in res if r != -1)
            ck.traces += len(res)
            if nb:
                ck.violation('imex_1st_order_mass: model and real sweeper differ on %d of %d cases' % (nb, len(res)),
                             {'correspondence': 'Model/SweepExec.run_mass vs imex_1st_order_mass', 'first_differing': [r for r in res if r != -1][:5]},
                             match={'kind': 'mass-correspondence'}, no_input=True)
            ck.obligation('exact correspondence mass-sweeper model = implementation on %d cases' % len(res), nb == 0)
    vcases = [c for c in (verlet_oracle(ck, rng) for _ in range(120 if thorough else 30)) if c]
    if vcases:
        body = ['From Coq Require Import List ZArith QArith Qcanon.', 'From PySDC Require Import Model.Sweep Model.SweepExec.',
                'Import ListNotations.', 'Definition cases : list (vcase * list Qc) := [', ';\n'.join(vcases), '].',
                'Eval vm_compute in map check_verlet_case cases.']
        rc, out = ck.coqc(ck.write_gen('VerletCases.v', '\n'.join(body) + '\n'), timeout=900)
        if rc != 0:
            ck.obligation('verlet model evaluation', False, out[-800:])
            ck.violation('generated verlet cases do not compile/evaluate', {'log': out[-3000:]}, match={'kind': 'gen'}, no_input=True)
        else:
            res = parse_coq_value(eval_outputs(out)[0])
            nb = sum(1 for r in res if r != -1)
            ck.traces += len(res)
            if nb:
                ck.violation('verlet: model and real sweeper differ on %d of %d cases' % (nb, len(res)),
                             {'correspondence': 'Model/SweepExec.run_verlet vs verlet.update_nodes', 'first_differing': [r for r in res if r != -1][:5]},
                             match={'kind': 'verlet-correspondence'}, no_input=True)
            ck.obligation('exact correspondence verlet model = implementation on %d cases' % len(res), nb == 0)
    # ---- extension parts (own modules): DAE-project sweepers, boris_2nd_order, Runge-Kutta-Nystrom + Multistep
    from harness import c02_dae, c02_boris, c02_rkn
    c02_dae.run_part(ck, ck.rng, thorough)
    c02_boris.run_part(ck, ck.rng, thorough)
    c02_rkn.run_part(ck, ck.rng, thorough)
