"""C11 — transfer operators in time and space are exact on what they promise.

Tie to /repo (every run):
  * Pcoll / Rcoll are rebuilt by the live BaseTransfer for every (node family, quadrature type,
    fine count, coarse count) and validated by the Coq validator `check_node_transfer`
    (sound by C11_node_transfer_sound: EVERY polynomial below the number of source nodes is
    reproduced); `check_RP` validates Rcoll.Pcoll = I (C11_RP_identity);
  * the 1-D prolongation matrices are rebuilt by the live mesh_to_mesh / interpolation_matrix_1d for
    grids 2^l (periodic) and 2^l-1 (non-periodic), orders 2,4,6,8, shortcut on and off; every row is
    validated by `check_per_row` / `check_dir_row` against the support the property promises
    (`per_support` / `dir_support`: the k nearest coarse points, periodic images / boundary value
    included; C11_per_row_sound, C11_dir_row_sound, C11_per_support_nearest, C11_dir_support_nearest);
  * the helper's neighbour selection (next_neighbors, next_neighbors_periodic, continue_periodic_array,
    border_padding) is compared exactly with its Coq mirror on seeded inputs, the mirrored row supports are
    compared with the promised supports inside the kernel, and rows of interpolation_matrix_1d /
    restriction_matrix_1d on seeded NON-nested dyadic grids are validated against the mirrored supports;
  * R = 1/2 P^T (or injection, with R.P = I), Kronecker structure (exact, index level), component structure and
    dtype preservation of restrict()/prolong() on mesh / imex_mesh / comp2_mesh / ncomp problems, the
    NoCoarse transfers and the FFT transfers are decided by the implementation-side oracle.
"""
import concurrent.futures
import itertools
import os
import math
import warnings
from fractions import Fraction as F

import numpy as np

from harness.common import coq_list, dy_lit, zlit, parse_coq_value, eval_outputs

LEVEL = 'proof'
NODE_RTOL_EXP = -40     # validator tolerance for node-set transfer: 2^-40 * (sum|w||s|^k + |d|^k) + 2^-40
SPACE_RTOL_EXP = -40    # validator tolerance for space rows: 2^-40 * sum |w_j| |o_j|^k  (no absolute part)
RP_TOL_EXP = -38        # |(R.P)_ij - delta_ij| <= 2^-38
FFT_TOL = 1e-11         # band-limited data reproduced by the FFT prolongation (observed <= 4e-15)

HEADER = ['From Coq Require Import ZArith List Bool.',
          'From PySDC Require Import Base.Dyadic Model.TransferOps.',
          'Import ListNotations.', 'Open Scope Z_scope.', '',
          'Definition bad_idx (l : list bool) : list Z := map fst (filter (fun p => negb (snd p)) (combine (zseq 0 (length l)) l)).',
          '']


def mat_lit(M):
    return coq_list([coq_list([dy_lit(x) for x in row]) for row in M])


def zl(xs):
    return coq_list([zlit(x) for x in xs])


def fr(x):
    return F(float(x))


def poly_eval(c, x):
    r = F(0)
    for a in reversed(c):
        r = r * x + a
    return r


def lagrange_weights(nodes, x):
    """exact Lagrange basis values at x for distinct rational nodes"""
    w = []
    for j, xj in enumerate(nodes):
        num = den = F(1)
        for m, xm in enumerate(nodes):
            if m != j:
                num *= (x - xm)
                den *= (xj - xm)
        w.append(num / den)
    return w


class _Obj:
    pass


class _DummySpace:
    def __init__(self, fine_prob, coarse_prob, params):
        pass


class FakeProb:
    """the attributes of a problem that mesh_to_mesh reads: nvars, dx, init (and ncomp)"""

    def __init__(self, nvars, dx, ncomp=None, first=False, dtype='float64'):
        self.nvars = nvars
        self.dx = dx
        shp = nvars if isinstance(nvars, tuple) else (nvars,)
        if ncomp is not None:
            self.ncomp = ncomp
            shp = ((ncomp,) + shp) if first else (shp + (ncomp,))
        self.init = (shp if len(shp) > 1 else shp[0], None, np.dtype(dtype))


def run_coq_files(ck, files, timeout=900):
    """compile generated files in parallel; returns list of (rc, out) in order"""
    with concurrent.futures.ThreadPoolExecutor(max_workers=12) as ex:
        return list(ex.map(lambda f: ck.coqc(f, timeout=timeout), files))


class Agg:
    """one violation per distinct match dict: the first instance is the replay, the others are listed"""

    def __init__(self, ck):
        self.ck = ck
        self.items = {}

    def violation(self, what, replay, match=None, no_input=False):
        key = tuple(sorted((match or {}).items(), key=str))
        self.items.setdefault(key, []).append((what, replay, match, no_input))

    def flush(self):
        for key, lst in self.items.items():
            # prefer an instance that comes with a failing input
            lst.sort(key=lambda t: t[3])
            what, replay, match, no_input = lst[0]
            replay = dict(replay)
            if len(lst) > 1:
                replay['further_instances_of_the_same_class'] = [t[0] for t in lst[1:25]]
                what += '  [+%d further instance(s) of the same class]' % (len(lst) - 1)
            self.ck.violation(what, replay, match=match, no_input=no_input)
        n = len(self.items)
        self.items = {}
        return n


def gen_fail(ck, name, out):
    ck.obligation('%s evaluates' % name, False, out[-1500:])
    ck.violation('generated file %s does not compile' % name, {'log': out[-3000:]}, match={'kind': 'gen'}, no_input=True)


# ======================================================================================= node-set transfer

def node_tables(ck, thorough):
    from pySDC.core.collocation import CollBase
    from pySDC.core.base_transfer import BaseTransfer
    rng = ck.rng
    fams = ['EQUID', 'LEGENDRE', 'CHEBY-1', 'CHEBY-2', 'CHEBY-3', 'CHEBY-4']
    quads = ['GAUSS', 'RADAU-LEFT', 'RADAU-RIGHT', 'LOBATTO']
    rejected = []
    tables = []      # dict(case, P, R, fn, cn)
    colls = {}
    for nt in fams:
        for qt in quads:
            for n in range(1, 10):
                try:
                    colls[(nt, qt, n)] = CollBase(n, 0, 1, node_type=nt, quad_type=qt)
                except Exception as e:
                    rejected.append((nt, qt, n, type(e).__name__))
    pairs = [(nt, qt, nf, nc) for nt in fams for qt in quads for nf in range(1, 10) for nc in range(1, 10)
             if (nt, qt, nf) in colls and (nt, qt, nc) in colls]
    if not thorough:
        # quick: every (family, type) with every fine count; coarse counts: all counts for one seeded (family, type) pair,
        # the standard halving nc = (nf+1)//2 for every fine count, equal counts for two seeded counts, a seeded 3% of the rest
        full = set(rng.sample([(a, b) for a in fams for b in quads], 1))
        eq = set(rng.sample(range(1, 10), 2))
        keep = []
        for (nt, qt, nf, nc) in pairs:
            if (nt, qt) in full or nc == (nf + 1) // 2 or (nc == nf and nf in eq) or rng.random() < 0.03:
                keep.append((nt, qt, nf, nc))
        pairs = keep
    for (nt, qt, nf, nc) in pairs:
        Fl, Gl = _Obj(), _Obj()
        Fl.sweep, Gl.sweep = _Obj(), _Obj()
        Fl.sweep.coll, Gl.sweep.coll = colls[(nt, qt, nf)], colls[(nt, qt, nc)]
        Fl.prob = Gl.prob = None
        try:
            bt = BaseTransfer(Fl, Gl, {}, _DummySpace, {})
        except Exception as e:
            ck.agg.violation('BaseTransfer construction raised %s: %s' % (type(e).__name__, e),
                         {'node_type': nt, 'quad_type': qt, 'fine': nf, 'coarse': nc}, match={'kind': 'node-raise'})
            continue
        tables.append({'case': (nt, qt, nf, nc), 'P': np.asarray(bt.Pcoll, dtype=float), 'R': np.asarray(bt.Rcoll, dtype=float),
                       'fn': np.asarray(colls[(nt, qt, nf)].nodes, dtype=float), 'cn': np.asarray(colls[(nt, qt, nc)].nodes, dtype=float)})
    ck.cov['node_rejected_by_code'] = sorted(set((a, b, c) for a, b, c, _ in rejected))[:40]
    return tables


def node_oracle(t, rng, which):
    """implementation-side: random polynomial of degree < #source nodes is reproduced; returns (ok, replay)"""
    P = t['P'] if which == 'P' else t['R']
    src = t['cn'] if which == 'P' else t['fn']
    dst = t['fn'] if which == 'P' else t['cn']
    if P.shape != (len(dst), len(src)):
        return False, {'reason': 'shape', 'shape': list(P.shape), 'expected': [len(dst), len(src)]}
    for trial in range(3):
        deg = len(src) - 1 if trial == 0 else rng.randint(0, len(src) - 1)
        c = [F(rng.randint(-9, 9), rng.randint(1, 4)) for _ in range(deg + 1)]
        if trial == 1:
            c = [F(1)]       # constants: rows sum to one
        for i in range(len(dst)):
            lhs = sum(fr(P[i, j]) * poly_eval(c, fr(src[j])) for j in range(len(src)))
            rhs = poly_eval(c, fr(dst[i]))
            scale = sum(abs(fr(P[i, j])) * abs(poly_eval(c, fr(src[j]))) for j in range(len(src))) + abs(rhs) + 1
            if abs(lhs - rhs) > scale * F(1, 2 ** 36):
                return False, {'matrix': which + 'coll', 'row': i, 'poly_coeffs_low_to_high': [str(x) for x in c],
                               'transferred_value': float(lhs), 'polynomial_value': float(rhs),
                               'source_nodes': [float(x) for x in src], 'dest_node': float(dst[i]),
                               'matrix_row': [float(x) for x in P[i]]}
    return True, None


def run_nodes(ck, thorough):
    rng = ck.rng
    tables = node_tables(ck, thorough)
    rt = '(Dy 1 (%d))' % NODE_RTOL_EXP
    rp = '(Dy 1 (%d))' % RP_TOL_EXP
    chunks = [tables[i:i + 48] for i in range(0, len(tables), 48)]
    files = []
    for ci, chunk in enumerate(chunks):
        L = list(HEADER)
        L.append('Definition tabs : list (list (list dy) * list (list dy) * list dy * list dy) := [')
        L.append(';\n'.join('  (%s, %s, %s, %s)' % (mat_lit(t['P']), mat_lit(t['R']), coq_list([dy_lit(x) for x in t['fn']]),
                                                   coq_list([dy_lit(x) for x in t['cn']])) for t in chunk))
        L.append('].')
        L.append("Definition res (t : list (list dy) * list (list dy) * list dy * list dy) := let '(P, R, fn, cn) := t in")
        L.append('  let okP := check_node_transfer P cn fn %s %s in let okR := check_node_transfer R fn cn %s %s in' % (rt, rt, rt, rt))
        L.append('  (okP, if okP then None else first_bad_node_row 0 P cn fn %s %s,' % (rt, rt))
        L.append('   okR, if okR then None else first_bad_node_row 0 R fn cn %s %s,' % (rt, rt))
        L.append('   if Nat.leb (length cn) (length fn) then check_RP R P (length cn) %s else true).' % rp)
        L.append('Eval vm_compute in map res tabs.')
        files.append(ck.write_gen('Data_nodes_%d.v' % ci, '\n'.join(L) + '\n'))
    outs = run_coq_files(ck, files)
    results = []
    for f, (rc, out) in zip(files, outs):
        if rc != 0:
            gen_fail(ck, f.split('/')[-1], out)
            return
        results += parse_coq_value(eval_outputs(out)[0])
    assert len(results) == len(tables)
    nbad = 0
    for t, r in zip(tables, results):
        okP, badP, okR, badR, okRP = r
        nt, qt, nf, nc = t['case']
        ck.case(key=('nodes',) + t['case'], nontrivial=(nf != nc and min(nf, nc) >= 2),
                sample={'kind': 'node-transfer', 'case': t['case'], 'Pcoll_row0': [float(x) for x in t['P'][0]]})
        ck.traces += 1
        for which, ok, bad in (('P', okP, badP), ('R', okR, badR)):
            o_ok, o_rep = node_oracle(t, rng, which)
            if not ok or not o_ok:
                nbad += 1
                rep = {'call': 'BaseTransfer(...).%scoll' % which, 'node_type': nt, 'quad_type': qt, 'fine_nodes': nf, 'coarse_nodes': nc,
                       'validator_first_failing_(row,moment)': str(bad), 'oracle': o_rep}
                ck.agg.violation('%scoll for %s/%s %d<-%d nodes does not reproduce polynomials below the number of source nodes'
                             % (which, nt, qt, nf, nc), rep,
                             match={'kind': 'node-transfer', 'matrix': which + 'coll', 'equal_counts': nf == nc},
                             no_input=o_ok)
        if nc <= nf:
            # implementation-side R.P = I
            Pf = [[fr(x) for x in row] for row in t['P']]
            Rf = [[fr(x) for x in row] for row in t['R']]
            shape_ok = t['P'].shape == (nf, nc) and t['R'].shape == (nc, nf)
            worst = F(0)
            wit = None
            if shape_ok:
                for i in range(nc):
                    for j in range(nc):
                        v = abs(sum(Rf[i][m] * Pf[m][j] for m in range(nf)) - (1 if i == j else 0))
                        if v > worst:
                            worst, wit = v, (i, j)
            ck.cov['RP_worst_defect'] = max(ck.cov.get('RP_worst_defect', 0.0), float(worst))
            o_ok = shape_ok and worst <= F(1, 2 ** 36)
            if not okRP or not o_ok:
                nbad += 1
                u = [F(1 if j == (wit[1] if wit else 0) else 0) for j in range(nc)]
                ck.agg.violation('Rcoll.Pcoll is not the identity on the coarse node set (%s/%s fine %d coarse %d)' % (nt, qt, nf, nc),
                             {'call': 'BaseTransfer(...).Rcoll @ Pcoll', 'node_type': nt, 'quad_type': qt, 'fine_nodes': nf, 'coarse_nodes': nc,
                              'entry': wit, 'defect': float(worst), 'coarse_vector': [int(x) for x in u]},
                             match={'kind': 'node-RP'}, no_input=o_ok)
    ck.obligation('check_node_transfer on Pcoll and Rcoll of %d node-set pairs, check_RP where coarse <= fine' % len(tables), nbad == 0)
    ck.cov['node_validator_tol'] = 2.0 ** NODE_RTOL_EXP
    ck.cov['RP_tol'] = 2.0 ** RP_TOL_EXP


# ======================================================================================= space: 1-D matrices

def grids(periodic, lev):
    nf = 2 ** lev if periodic else 2 ** lev - 1
    nc = 2 ** (lev - 1) if periodic else 2 ** (lev - 1) - 1
    dxf = 1.0 / nf if periodic else 1.0 / (nf + 1)
    dxc = 1.0 / nc if periodic else 1.0 / (nc + 1)
    return nf, nc, dxf, dxc


def nearest_images_weights(periodic, nf, nc, k, i):
    """implementation-independent oracle: the row the property promises, exactly.
    Returns dict column -> weight (Fractions), from the k nearest coarse points in fine-mesh units."""
    if periodic:
        if i % 2 == 0:
            return {i // 2: F(1)}
        cands = []
        for c in range(nc):
            for m in (-1, 0, 1):
                cands.append((abs(2 * c + m * nf - i), 2 * c + m * nf - i, c))
        cands.sort()
        sel = cands[:k]
        offs = [F(o) for _, o, _ in sel]
        w = lagrange_weights(offs, F(0))
        row = {}
        for (_, _, c), wi in zip(sel, w):
            row[c] = row.get(c, F(0)) + wi
        return row
    if i % 2 == 1:
        return {(i + 1) // 2 - 1: F(1)}
    cands = sorted((abs(2 * q - (i + 1)), q) for q in range(nc + 2))
    sel = sorted(q for _, q in cands[:k])
    w = lagrange_weights([F(2 * q - (i + 1)) for q in sel], F(0))
    return {q - 1: wi for q, wi in zip(sel, w) if 1 <= q <= nc}


def run_space(ck, thorough):
    import pySDC.helpers.transfer_helper as th
    from pySDC.implementations.transfer_classes.TransferMesh import mesh_to_mesh
    rng = ck.rng
    levels_p = [2, 3, 4, 5] + ([6, 7] if thorough else [])
    levels_d = [2, 3, 4, 5] + ([6, 7] if thorough else [])
    cases = []
    rejected = []
    for periodic in (True, False):
        for lev in (levels_p if periodic else levels_d):
            nf, nc, dxf, dxc = grids(periodic, lev)
            for k in (2, 4, 6, 8):
                for nested in (True, False):
                    ro_all = sorted({0, 2, k}) if nested else sorted({2, k})   # order 0 (injection) exists on the shortcut path only
                    for ro in (ro_all if thorough else [rng.choice(ro_all)]):
                        par = {'periodic': periodic, 'iorder': k, 'rorder': ro, 'equidist_nested': nested}
                        try:
                            with warnings.catch_warnings():
                                warnings.simplefilter('ignore')
                                T = mesh_to_mesh(FakeProb(nf, dxf), FakeProb(nc, dxc), par)
                                P = np.asarray(T.Pspace.toarray(), dtype=float)
                                R = np.asarray(T.Rspace.toarray(), dtype=float)
                        except Exception as e:
                            rejected.append((periodic, nf, nc, k, nested, type(e).__name__))
                            continue
                        cases.append({'periodic': periodic, 'nf': nf, 'nc': nc, 'k': k, 'nested': nested, 'rorder': ro, 'P': P, 'R': R, 'T': T,
                                      'dup_of': next((c for c in cases if (c['periodic'], c['nf'], c['k'], c['nested']) == (periodic, nf, k, nested)
                                                      and np.array_equal(c['P'], P)), None)})
    ck.cov['space_rejected_by_code'] = sorted(set(r[:4] + (r[5],) for r in rejected))
    # configurations with k <= nc (periodic) resp. k <= nc + 1 (non-periodic) must be accepted by the code
    for (periodic, nf, nc, k, nested, err) in rejected:
        if (periodic and k <= nc) or (not periodic and k <= nc + 1 and nc >= 2):
            ck.agg.violation('mesh_to_mesh construction raised %s for a configuration with enough coarse points' % err,
                         {'periodic': periodic, 'nvars_fine': nf, 'nvars_coarse': nc, 'iorder': k, 'equidist_nested': nested},
                         match={'kind': 'space-raise', 'periodic': periodic})

    rt = '(Dy 1 (%d))' % SPACE_RTOL_EXP
    # ---- Coq: every row of every prolongation matrix against the promised support
    files = []
    groups = []
    cur, size = [], 0
    for c in cases:
        if c['dup_of'] is not None:
            continue          # the same prolongation matrix (another rorder) is already in a file
        cur.append(c)
        size += c['nf'] * c['nc']
        if size > 6000:
            groups.append(cur)
            cur, size = [], 0
    if cur:
        groups.append(cur)
    tr_cases = []
    for gi, grp in enumerate(groups):
        L = list(HEADER)
        L.append('Definition cases : list (bool * Z * Z * list (list dy)) := [')
        L.append(';\n'.join('  (%s, %d, %d, %s)' % ('true' if c['periodic'] else 'false', c['nc'], c['k'], mat_lit(c['P'])) for c in grp))
        L.append('].')
        L.append("Eval vm_compute in map (fun '(per, nc, k, M) => (length M, bad_idx (if per : bool then check_per_matrix nc k M %s else check_dir_matrix nc k M %s))) cases." % (rt, rt))
        # restriction = 1/2 * transpose of this prolongation (when rorder = iorder), entry by entry, in the kernel
        tr = [c for c in grp if c['rorder'] == c['k'] and c['nf'] <= 32 and c['R'].ndim == 2 and c['R'].shape[0] > 0]
        tr_cases += tr
        L.append('Definition rcases : list (list (list dy) * list (list dy)) := [')
        L.append(';\n'.join('  (%s, %s)' % (mat_lit(c['R']), mat_lit(c['P'])) for c in tr))
        L.append('].')
        L.append("Eval vm_compute in map (fun '(R, P) => check_scaled_transpose R P (Dy 1 (-1))) rcases.")
        files.append(ck.write_gen('Data_space_%d.v' % gi, '\n'.join(L) + '\n'))
    outs = run_coq_files(ck, files)
    results = []
    tr_results = []
    for f, (rc, out) in zip(files, outs):
        if rc != 0:
            gen_fail(ck, f.split('/')[-1], out)
            return
        ev = eval_outputs(out)
        results += parse_coq_value(ev[0])
        tr_results += parse_coq_value(ev[1])
    assert len(tr_results) == len(tr_cases)
    for c, ok in zip(tr_cases, tr_results):
        c['coq_transpose'] = ok
    uniq = [c for c in cases if c['dup_of'] is None]
    assert len(results) == len(uniq)
    for c, r in zip(uniq, results):
        c['coq'] = r
    nbad = 0
    worst = F(0)
    for c in cases:
        nrows, bad = (c['dup_of'] or c)['coq']
        periodic, nf, nc, k, nested, P = c['periodic'], c['nf'], c['nc'], c['k'], c['nested'], c['P']
        key = ('space', periodic, nf, k, nested)
        ck.case(key=key, nontrivial=True, sample={'kind': 'space-1d', 'periodic': periodic, 'nvars': [nf, nc], 'iorder': k,
                                                  'equidist_nested': nested, 'row1': [float(x) for x in P[1]]})
        ck.traces += 1
        # implementation-side oracle: every row equals the Lagrange weights on the k nearest coarse points
        obad = []
        if P.shape != (nf, nc):
            obad = [('shape', list(P.shape))]
        else:
            for i in range(nf):
                exp = nearest_images_weights(periodic, nf, nc, k, i)
                for j in range(nc):
                    e = exp.get(j, F(0))
                    d = abs(fr(P[i, j]) - e)
                    if e == 0 and d != 0 or d > F(1, 2 ** 36) * (abs(e) + 1):
                        obad.append(i)
                        break
                    worst = max(worst, d / (abs(e) + 1))
        cbad = list(bad) if nrows == nf else ['shape']
        if cbad or obad:
            nbad += 1
            i = obad[0] if obad and not isinstance(obad[0], tuple) else (cbad[0] if cbad and cbad[0] != 'shape' else 0)
            exp = nearest_images_weights(periodic, nf, nc, k, i) if P.shape == (nf, nc) else {}
            # a concrete failing datum: the degree k-1 polynomial (x - x_i)^(k-1) sampled at the nearest images
            ck.agg.violation('prolongation row %d is not the degree-%d interpolant through the %d nearest coarse points '
                         '(periodic=%s, nvars %d<-%d, equidist_nested=%s)' % (i, k - 1, k, periodic, nf, nc, nested),
                         {'call': 'mesh_to_mesh(...).Pspace  [interpolation_matrix_1d]', 'periodic': periodic, 'nvars_fine': nf,
                          'nvars_coarse': nc, 'iorder': k, 'equidist_nested': nested, 'row': i,
                          'actual_row': [float(x) for x in P[i]] if P.shape == (nf, nc) else None,
                          'promised_row': [float(exp.get(j, 0)) for j in range(nc)],
                          'rows_failing_validator': cbad[:20], 'rows_failing_oracle': [str(x) for x in obad[:20]]},
                         match={'kind': 'space-row', 'periodic': periodic, 'iorder_equals_coarse_size': k == nc},
                         no_input=not obad)
        # restriction: R = 1/2 P_r^T (exactly) or injection with R.P = I
        ro = c['rorder']
        try:
            with warnings.catch_warnings():
                warnings.simplefilter('ignore')
                Pr = P if ro == k else np.asarray(th.interpolation_matrix_1d(
                    *space_grids(periodic, nf, nc), k=ro, periodic=periodic, equidist_nested=nested).toarray(), dtype=float)
            fac = 0.5 if ro > 0 else 1.0
            okR = c['R'].shape == (nc, nf) and np.array_equal(c['R'], fac * Pr.T)
        except Exception:
            okR = False
        if ro == 0 and okR:
            okR = np.array_equal(c['R'] @ P, np.eye(nc))
            inj = all(c['R'][j, (2 * j) if periodic else (2 * j + 1)] == 1.0 and np.count_nonzero(c['R'][j]) == 1 for j in range(nc))
            okR = okR and inj
        ck.evaluations += 1
        if c.get('coq_transpose') is False and okR:
            nbad += 1
            ck.agg.violation('kernel: check_scaled_transpose Rspace Pspace 1/2 fails although the numpy comparison passes (periodic=%s, nvars %d<-%d, order %d)'
                             % (periodic, nf, nc, k), {'periodic': periodic, 'nvars_fine': nf, 'nvars_coarse': nc, 'iorder': k, 'rorder': ro},
                             match={'kind': 'space-restriction', 'rorder': ro}, no_input=True)
        if not okR:
            nbad += 1
            ck.agg.violation('Rspace is not %s (periodic=%s, nvars %d<-%d, iorder %d, rorder %d)'
                         % ('the injection with Rspace.Pspace = I' if ro == 0 else '1/2 * (interpolation matrix of order rorder)^T',
                            periodic, nf, nc, k, ro),
                         {'call': 'mesh_to_mesh(...).Rspace', 'periodic': periodic, 'nvars_fine': nf, 'nvars_coarse': nc, 'iorder': k,
                          'rorder': ro, 'equidist_nested': nested, 'Rspace_row0': [float(x) for x in c['R'][0]] if c['R'].ndim == 2 and c['R'].shape[0] else None},
                         match={'kind': 'space-restriction', 'rorder': ro})
    ck.obligation('check_per_row / check_dir_row on every row of %d prolongation matrices; check_scaled_transpose on %d (Rspace, Pspace) pairs'
                  % (len(uniq), len(tr_cases)), nbad == 0)
    ck.cov['space_worst_weight_defect'] = float(worst)
    ck.cov['space_validator_rtol'] = 2.0 ** SPACE_RTOL_EXP
    return cases


def space_grids(periodic, nf, nc):
    dxf = 1.0 / nf if periodic else 1.0 / (nf + 1)
    dxc = 1.0 / nc if periodic else 1.0 / (nc + 1)
    if periodic:
        return np.array([i * dxf for i in range(nf)]), np.array([i * dxc for i in range(nc)])
    return np.array([(i + 1) * dxf for i in range(nf)]), np.array([(i + 1) * dxc for i in range(nc)])


# ======================================================================================= helper mirror

def run_helpers(ck, thorough):
    """exact correspondence of the neighbour-selection helpers with their Coq mirror + mirrored supports vs promised"""
    import pySDC.helpers.transfer_helper as th
    rng = ck.rng
    S = 64     # coordinates are multiples of 1/64: all float operations of the helpers are exact
    n_each = 120 if thorough else 50
    nn_cases, nnp_cases, cont_cases, pad_cases = [], [], [], []
    for _ in range(n_each):
        n = rng.randint(1, 10)
        ps = [rng.randint(-40, 40) for _ in range(n)]
        if rng.random() < 0.6:
            ps = sorted(ps)
        p = rng.randint(-45, 45)
        k = rng.randint(0, n + 1)
        got = th.next_neighbors(p / S, np.array(ps, dtype=float) / S, k)
        nn_cases.append((p, ps, k, [int(x) for x in got]))
    for _ in range(n_each):
        n = rng.randint(1, 10)
        ps = sorted(rng.sample(range(0, S), n))
        if rng.random() < 0.5:
            ps = [x - ps[0] for x in ps]
        p = rng.randint(-S, 2 * S)
        k = rng.randint(0, n + 1)
        got = th.next_neighbors_periodic(p / S, np.array(ps, dtype=float) / S, k)
        nnp_cases.append((p, ps, k, [int(x) for x in got]))
    for _ in range(n_each):
        n = rng.randint(2, 10)
        arr = sorted(rng.sample(range(0, S), n))
        k = rng.randint(1, n)
        nn = sorted(rng.sample(range(n), k))
        if rng.random() < 0.3:
            a = rng.randint(0, n - k)
            nn = list(range(a, a + k))
        got = th.continue_periodic_array(np.array(arr, dtype=float) / S, nn)
        cont_cases.append((arr, nn, [int(round(float(x) * S)) for x in got], all(float(x) * S == round(float(x) * S) for x in got)))
    for _ in range(n_each):
        n = rng.randint(2, 9)
        g = sorted(rng.sample(range(-S, S), n))
        l, r = rng.randint(0, n - 1), rng.randint(0, n - 1)
        got = th.border_padding(np.array(g, dtype=float) / S, l, r)
        pad_cases.append((g, l, r, [int(round(float(x) * S)) for x in got]))
    L = list(HEADER)
    L.append('Eval vm_compute in %s.' % coq_list(['next_neighbors %s %s %d%%nat' % (zlit(p), zl(ps), k) for p, ps, k, _ in nn_cases]))
    L.append('Eval vm_compute in %s.' % coq_list(['next_neighbors_periodic %d %s %s %d%%nat' % (S, zlit(p), zl(ps), k) for p, ps, k, _ in nnp_cases]))
    L.append('Eval vm_compute in %s.' % coq_list(['continue_periodic_array %d %s %s' % (S, zl(a), zl(nn)) for a, nn, _, _ in cont_cases]))
    L.append('Eval vm_compute in %s.' % coq_list(['border_padding %s %d%%nat %d%%nat' % (zl(g), l, r) for g, l, r, _ in pad_cases]))
    # mirrored supports against the promised supports, every row, inside the kernel
    cfgs = []
    for periodic in (True, False):
        for lev in ([3, 4, 5, 6] if thorough else [3, 4, 5]):
            nf, nc, _, _ = grids(periodic, lev)
            for k in (2, 4, 6, 8):
                if (periodic and k < nc) or (not periodic and k <= nc + 1):
                    cfgs.append((periodic, nf, nc, k))
    L.append('Definition sup_ok (spec model : list (Z * Z)) : bool :=')
    L.append('  match spec with [s] => existsb (pair_eqb s) model | _ => same_support spec model end.')
    L.append('Definition cfg_bad (c : bool * Z * Z * Z) : list Z * list Z :=')
    L.append("  let '(per, nf, nc, k) := c in")
    L.append('  if per : bool then')
    L.append('    let fine := zseq 0 (Z.to_nat nf) in let coarse := map (fun j => 2 * j) (zseq 0 (Z.to_nat nc)) in')
    L.append('    (bad_idx (map (fun i => same_support (per_support nc k i) (model_row_per_nested nf fine coarse k i)) fine),')
    L.append('     bad_idx (map (fun i => sup_ok (per_support nc k i) (model_row_per_general nf fine coarse (Z.to_nat k) i)) fine))')
    L.append('  else')
    L.append('    let fine := zseq 1 (Z.to_nat nf) in let coarse := map (fun j => 2 * (j + 1)) (zseq 0 (Z.to_nat nc)) in')
    L.append('    (bad_idx (map (fun i => same_support (dir_support nc k i) (model_row_dir_nested fine coarse k i)) (zseq 0 (Z.to_nat nf))),')
    L.append('     bad_idx (map (fun i => sup_ok (dir_support nc k i) (model_row_dir_general fine coarse (Z.to_nat k) i)) (zseq 0 (Z.to_nat nf)))).')
    L.append('Eval vm_compute in map cfg_bad %s.' % coq_list(['(%s, %d, %d, %d)' % ('true' if p else 'false', nf, nc, k) for p, nf, nc, k in cfgs]))
    rc, out = ck.coqc(ck.write_gen('Cases_helpers.v', '\n'.join(L) + '\n'), timeout=900)
    if rc != 0:
        gen_fail(ck, 'Cases_helpers.v', out)
        return
    vals = [parse_coq_value(v) for v in eval_outputs(out)]
    nbad = 0
    for (p, ps, k, got), model in zip(nn_cases, vals[0]):
        ck.case(key=('next_neighbors', p, tuple(ps), k), nontrivial=k >= 1 and len(ps) >= 2)
        if list(model) != got:
            nbad += 1
            # oracle: the selection must consist of k points none of which is farther than an unselected one
            d = [abs(x - p) for x in ps]
            o_ok = (len(set(got)) == min(k, len(ps)) and got == sorted(got)
                    and all(d[i] <= d[j] for i in got for j in range(len(ps)) if j not in got))
            ck.agg.violation('next_neighbors differs from its model', {'call': 'next_neighbors', 'p': p / S, 'ps': [x / S for x in ps], 'k': k,
                                                                   'impl': got, 'model': list(model)},
                         match={'kind': 'helper', 'fn': 'next_neighbors'}, no_input=o_ok)
    for (p, ps, k, got), model in zip(nnp_cases, vals[1]):
        ck.case(key=('next_neighbors_periodic', p, tuple(ps), k), nontrivial=k >= 1 and len(ps) >= 2)
        if list(model) != got:
            nbad += 1
            pb = p % S
            d = [min(abs(x - ps[0] + m * S - pb) for m in (-1, 0, 1)) for x in ps]
            o_ok = (len(set(got)) == min(k, len(ps)) and got == sorted(got)
                    and all(d[i] <= d[j] for i in got for j in range(len(ps)) if j not in got))
            ck.agg.violation('next_neighbors_periodic differs from its model', {'call': 'next_neighbors_periodic', 'p': p / S, 'ps': [x / S for x in ps],
                                                                            'k': k, 'impl': got, 'model': list(model)},
                         match={'kind': 'helper', 'fn': 'next_neighbors_periodic'}, no_input=o_ok)
    for (arr, nn, got, exact), model in zip(cont_cases, vals[2]):
        ck.case(key=('continue', tuple(arr), tuple(nn)), nontrivial=len(nn) >= 2)
        if list(model) != got or not exact:
            nbad += 1
            # oracle: every returned value is a periodic image of the selected point
            o_ok = len(got) == len(nn) and all((g - arr[n]) % S == 0 for g, n in zip(got, nn))
            ck.agg.violation('continue_periodic_array differs from its model', {'call': 'continue_periodic_array', 'arr': [x / S for x in arr], 'nn': nn,
                                                                            'impl': [x / S for x in got], 'model': [x / S for x in model]},
                         match={'kind': 'helper', 'fn': 'continue_periodic_array'}, no_input=o_ok)
    for (g, l, r, got), model in zip(pad_cases, vals[3]):
        ck.case(key=('pad', tuple(g), l, r), nontrivial=l + r > 0)
        if list(model) != got:
            nbad += 1
            exp = [2 * g[0] - g[l - i] for i in range(l)] + g + [2 * g[-1] - g[-2 - j] for j in range(r)]
            ck.agg.violation('border_padding differs from its model', {'call': 'border_padding', 'grid': [x / S for x in g], 'l': l, 'r': r,
                                                                   'impl': [x / S for x in got], 'model': [x / S for x in model]},
                         match={'kind': 'helper', 'fn': 'border_padding'}, no_input=(got == exp))
    ck.obligation('helper mirror = implementation on %d seeded calls' % (len(nn_cases) + len(nnp_cases) + len(cont_cases) + len(pad_cases)), nbad == 0)
    mbad = 0
    for (periodic, nf, nc, k), (b1, b2) in zip(cfgs, vals[4]):
        ck.evaluations += 1
        if b1 or b2:
            mbad += 1
            ck.agg.violation('the mirrored neighbour selection does not give the k nearest coarse points (model-level; periodic=%s nvars %d<-%d order %d)'
                         % (periodic, nf, nc, k), {'rows_nested_path': list(b1), 'rows_general_path': list(b2)},
                         match={'kind': 'model-support', 'periodic': periodic}, no_input=True)
    ck.obligation('mirrored supports = promised supports on %d grid configurations (all rows, both code paths)' % len(cfgs), mbad == 0)

    # ---- rows on seeded NON-nested dyadic grids against the mirrored general path (interpolation and restriction)
    rt = '(Dy 1 (%d))' % SPACE_RTOL_EXP
    gen_cases = []
    ngen = 40 if thorough else 16
    SS = 1024
    for _ in range(ngen):
        # uniform source grid, uniform target grid of a different size (non-nested, seeded offset); coordinates are
        # multiples of 1/1024 so that every float operation of the helpers is exact
        periodic = rng.random() < 0.5
        k = rng.choice([2, 3, 4, 5, 6])
        if periodic:
            ns = rng.choice([8, 16])
            hs = SS // ns
            src = [j * hs for j in range(ns)]
            ht = rng.choice([h for h in (40, 48, 72, 88, 104, 136) if h != hs])
            t0 = rng.randrange(1, ht)
            tgt = list(range(t0, SS, ht))
        else:
            ns = rng.randint(k + 1, 12)
            hs = rng.choice([8, 12, 16, 20])
            src = [hs * (j + 1) for j in range(ns)]
            ht = rng.choice([h for h in (6, 10, 14, 18, 22) if h != hs])
            t0 = rng.randrange(1, ht)
            tgt = [t for t in range(t0, hs * (ns + 1), ht)]
        kind = rng.choice(['interp', 'restrict'])
        fa, ca = np.array(tgt, dtype=float) / SS, np.array(src, dtype=float) / SS
        try:
            with warnings.catch_warnings():
                warnings.simplefilter('ignore')
                if kind == 'interp':
                    M = th.interpolation_matrix_1d(fa, ca, k=k, periodic=periodic, equidist_nested=False).toarray()
                else:
                    M = th.restriction_matrix_1d(ca, fa, k=k, periodic=periodic).toarray()
        except Exception as e:
            ck.cov.setdefault('general_grid_rejected', []).append((periodic, k, ns, nt, kind, type(e).__name__))
            continue
        gen_cases.append({'periodic': periodic, 'k': k, 'src': src, 'tgt': tgt, 'kind': kind, 'M': np.asarray(M, dtype=float)})
    L = list(HEADER)
    L.append('Definition gcases : list (bool * nat * list Z * list Z * list (list dy)) := [')
    L.append(';\n'.join('  (%s, %d%%nat, %s, %s, %s)' % ('true' if c['periodic'] else 'false', c['k'], zl(c['tgt']), zl(c['src']), mat_lit(c['M']))
                        for c in gen_cases))
    L.append('].')
    L.append("Definition grow (per : bool) (k : nat) (tgt src : list Z) (ir : Z * list dy) : bool :=")
    L.append("  if per then check_sup_row (model_row_per_general %d tgt src k (fst ir)) [] (snd ir) %s" % (SS, rt))
    L.append("  else check_sup_row (model_row_dir_general tgt src k (fst ir)) [0; Z.of_nat (length src) + 1] (pad_row (snd ir)) %s." % rt)
    L.append("Eval vm_compute in map (fun '(per, k, tgt, src, M) => bad_idx (map (grow per k tgt src) (combine (zseq 0 (length M)) M))) gcases.")
    rc, out = ck.coqc(ck.write_gen('Cases_general_grids.v', '\n'.join(L) + '\n'), timeout=900)
    if rc != 0:
        gen_fail(ck, 'Cases_general_grids.v', out)
        return
    res = parse_coq_value(eval_outputs(out)[0]) if gen_cases else []
    gbad = 0
    for c, bad in zip(gen_cases, res):
        ck.case(key=('general-grid', c['periodic'], c['k'], tuple(c['src']), tuple(c['tgt']), c['kind']), nontrivial=True)
        ck.traces += 1
        # implementation-side oracle: rows sum to one on periodic grids; every row interpolates a random polynomial of degree < k
        # that vanishes ... (non-periodic: constants are not preserved next to the boundary, so use the exact nearest-point weights)
        obad = general_grid_oracle(c, SS)
        if bad or obad:
            gbad += 1
            i = obad[0] if obad else bad[0]
            ck.agg.violation('%s row %d on a non-nested grid is not the Lagrange interpolant through the %d nearest points (periodic=%s)'
                         % ('interpolation_matrix_1d' if c['kind'] == 'interp' else 'restriction_matrix_1d', i, c['k'], c['periodic']),
                         {'call': c['kind'], 'periodic': c['periodic'], 'k': c['k'], 'target_grid': [x / SS for x in c['tgt']],
                          'source_grid': [x / SS for x in c['src']], 'row': i, 'actual_row': [float(x) for x in c['M'][i]],
                          'rows_failing_validator': list(bad), 'rows_failing_oracle': obad},
                         match={'kind': 'general-grid', 'fn': c['kind'], 'periodic': c['periodic']}, no_input=not obad)
    ck.obligation('check_sup_row (mirrored general path) on rows of %d matrices over non-nested grids' % len(gen_cases), gbad == 0)


def general_grid_oracle(c, SS):
    """rows must equal the exact Lagrange weights on the k nearest source points (periodic images / mirror-padded grid)"""
    M, src, tgt, k = c['M'], c['src'], c['tgt'], c['k']
    bad = []
    for i, p in enumerate(tgt):
        if c['periodic']:
            cands = sorted((abs(s + m * SS - p), j, s + m * SS) for j, s in enumerate(src) for m in (-1, 0, 1))
            # keep one (the nearest) image per point, as the helper measures the distance of a point by its nearest image
            seen, sel = set(), []
            for d, j, pos in cands:
                if j not in seen:
                    seen.add(j)
                    sel.append((d, j, pos))
            sel = sorted(sel)[:k]
            w = lagrange_weights([F(pos) for _, _, pos in sel], F(p))
            exp = {j: wi for (_, j, _), wi in zip(sel, w)}
        else:
            pad = [2 * src[0] - src[1]] + list(src) + [2 * src[-1] - src[-2]]
            sel = sorted(sorted(range(len(pad)), key=lambda q: (abs(pad[q] - p), q))[:k])
            w = lagrange_weights([F(pad[q]) for q in sel], F(p))
            exp = {q - 1: wi for q, wi in zip(sel, w) if 1 <= q <= len(src)}
        for j in range(len(src)):
            e = exp.get(j, F(0))
            if abs(fr(M[i, j]) - e) > F(1, 2 ** 30) * (abs(e) + 1):
                bad.append(i)
                break
    return bad


# ======================================================================================= n-D, data types, FFT

def run_structure(ck, thorough):
    from pySDC.implementations.transfer_classes.TransferMesh import mesh_to_mesh
    from pySDC.implementations.datatype_classes.mesh import mesh, imex_mesh, comp2_mesh
    rng = ck.rng
    nk = 0
    # ---- Kronecker structure (exact, index level) against the 1-D tables of the same live code
    for periodic in (True, False):
        for dim in (2, 3):
            for k in (2, 4):
                lev = 3 if (dim == 3 or not periodic) else rng.choice([3, 4])
                nf, nc, dxf, dxc = grids(periodic, lev)
                par = {'periodic': periodic, 'iorder': k, 'rorder': rng.choice([2, k]), 'equidist_nested': rng.random() < 0.5}
                with warnings.catch_warnings():
                    warnings.simplefilter('ignore')
                    T1 = mesh_to_mesh(FakeProb(nf, dxf), FakeProb(nc, dxc), par)
                    Tn = mesh_to_mesh(FakeProb((nf,) * dim, dxf), FakeProb((nc,) * dim, dxc), par)
                P1, R1 = np.asarray(T1.Pspace.toarray()), np.asarray(T1.Rspace.toarray())
                Pn, Rn = np.asarray(Tn.Pspace.toarray()), np.asarray(Tn.Rspace.toarray())
                ok = Pn.shape == (nf ** dim, nc ** dim) and Rn.shape == (nc ** dim, nf ** dim)
                wit = None
                if ok:
                    fi = list(itertools.product(range(nf), repeat=dim))
                    cj = list(itertools.product(range(nc), repeat=dim))
                    flat = lambda t, n: sum(t[a] * n ** (dim - 1 - a) for a in range(dim))
                    pairs = [(rng.choice(fi), rng.choice(cj)) for _ in range(400)]
                    # plus pairs inside the support
                    for _ in range(200):
                        p = rng.choice(fi)
                        q = tuple(int(rng.choice(list(np.flatnonzero(P1[p[a]])) or [0])) for a in range(dim))
                        pairs.append((p, q))
                    for p, q in pairs:
                        exp = F(1)
                        expR = F(1)
                        for a in range(dim):
                            exp *= fr(P1[p[a], q[a]])
                            expR *= fr(R1[q[a], p[a]])
                        gotP, gotR = fr(Pn[flat(p, nf), flat(q, nc)]), fr(Rn[flat(q, nc), flat(p, nf)])
                        if abs(gotP - exp) > abs(exp) * F(1, 2 ** 48) or abs(gotR - expR) > abs(expR) * F(1, 2 ** 48):
                            ok, wit = False, (p, q)
                            break
                nk += 1
                ck.case(key=('kron', periodic, dim, k), nontrivial=True)
                if not ok:
                    ck.agg.violation('%d-D Pspace/Rspace is not the Kronecker product of the 1-D operators' % dim,
                                 {'call': 'mesh_to_mesh(...)', 'periodic': periodic, 'dim': dim, 'nvars_fine': nf, 'nvars_coarse': nc, 'params': par,
                                  'fine_index,coarse_index': wit}, match={'kind': 'kron', 'dim': dim})
    # non-square grids (non-periodic): the order of the Kronecker factors matters
    kron_cases = []
    for k in (2, 4):
        par = {'periodic': False, 'iorder': k, 'rorder': 2, 'equidist_nested': True}
        (nfa, nca), (nfb, ncb) = (15, 7), (7, 3)
        with warnings.catch_warnings():
            warnings.simplefilter('ignore')
            Ta = mesh_to_mesh(FakeProb(nfa, 1 / 16), FakeProb(nca, 1 / 8), par)
            Tb = mesh_to_mesh(FakeProb(nfb, 1 / 16), FakeProb(ncb, 1 / 8), par)
            Tn = mesh_to_mesh(FakeProb((nfa, nfb), 1 / 16), FakeProb((nca, ncb), 1 / 8), par)
        Pa, Pb, Pn = np.asarray(Ta.Pspace.toarray()), np.asarray(Tb.Pspace.toarray()), np.asarray(Tn.Pspace.toarray())
        Ra, Rb, Rn = np.asarray(Ta.Rspace.toarray()), np.asarray(Tb.Rspace.toarray()), np.asarray(Tn.Rspace.toarray())
        ok = Pn.shape == (nfa * nfb, nca * ncb) and Rn.shape == (nca * ncb, nfa * nfb)
        wit = None
        kpairs = []
        if ok:
            for _ in range(600):
                p = (rng.randrange(nfa), rng.randrange(nfb))
                q = (int(rng.choice(list(np.flatnonzero(Pa[p[0]])) or [0])), int(rng.choice(list(np.flatnonzero(Pb[p[1]])) or [0]))) if rng.random() < 0.6 \
                    else (rng.randrange(nca), rng.randrange(ncb))
                eP = fr(Pa[p[0], q[0]]) * fr(Pb[p[1], q[1]])
                eR = fr(Ra[q[0], p[0]]) * fr(Rb[q[1], p[1]])
                gP, gR = fr(Pn[p[0] * nfb + p[1], q[0] * ncb + q[1]]), fr(Rn[q[0] * ncb + q[1], p[0] * nfb + p[1]])
                if abs(gP - eP) > abs(eP) * F(1, 2 ** 48) or abs(gR - eR) > abs(eR) * F(1, 2 ** 48):
                    ok, wit = False, (p, q)
                    break
                if len(kpairs) < 60:
                    kpairs.append((p[0] * nfb + p[1], q[0] * ncb + q[1], gP, abs(eP) * F(1, 2 ** 48), gR, abs(eR) * F(1, 2 ** 48)))
        if ok:
            kron_cases.append((k, (nfa, nfb), (nca, ncb), [[fr(x) for x in row] for row in Pa.tolist()], [[fr(x) for x in row] for row in Pb.tolist()],
                               [[fr(x) for x in row] for row in Ra.tolist()], [[fr(x) for x in row] for row in Rb.tolist()], kpairs))
        nk += 1
        ck.case(key=('kron-nonsquare', k), nontrivial=True)
        if not ok:
            ck.agg.violation('2-D Pspace/Rspace on a non-square grid is not kron(P_x, P_y) in C (row-major) order',
                             {'call': 'mesh_to_mesh(...)', 'nvars_fine': (nfa, nfb), 'nvars_coarse': (nca, ncb), 'params': par,
                              'fine_index,coarse_index': wit}, match={'kind': 'kron', 'dim': 2})
    ck.cov['kron_cases'] = nk
    # the same entries through the Coq entry function kron_rect (theorem C11_kron_acts_per_axis), kernel-evaluated
    if kron_cases:
        from harness.props.c02 import qc, qcm
        from harness.common import coq_list as _cl, parse_coq_value as _pv, eval_outputs as _eo
        L = ['From Coq Require Import List ZArith QArith Qabs Qcanon.', 'From PySDC Require Import Model.Sweep Model.SweepExec Model.FDnd.',
             'Import ListNotations.', 'Local Open Scope Qc_scope.',
             'Definition okq (model got tol : Qc) : bool := Qle_bool (Qabs (this model - this got)%Q) (this tol).']
        for i, (k, (nfa, nfb), (nca, ncb), Pa_, Pb_, Ra_, Rb_, kp) in enumerate(kron_cases):
            L.append('Definition Pa%d := mat %s. Definition Pb%d := mat %s. Definition Ra%d := mat %s. Definition Rb%d := mat %s.'
                     % (i, qcm(Pa_), i, qcm(Pb_), i, qcm(Ra_), i, qcm(Rb_)))
            L.append("Eval vm_compute in map (fun '(r, c, gp, tp, gr, tr) => okq (kron_rect Qcmult %d%%nat %d%%nat Pa%d Pb%d r c) gp tp "
                     "&& okq (kron_rect Qcmult %d%%nat %d%%nat Ra%d Rb%d c r) gr tr)%%bool %s."
                     % (nfb, ncb, i, i, ncb, nfb, i, i,
                        _cl(['(%d%%nat, %d%%nat, %s, %s, %s, %s)' % (r_, c_, qc(a), qc(b), qc(c2), qc(d)) for r_, c_, a, b, c2, d in kp])))
        rc, out = ck.coqc(ck.write_gen('Data_kron.v', '\n'.join(L) + '\n'), timeout=900)
        if rc != 0:
            ck.obligation('Data_kron.v evaluates', False, out[-1500:])
            ck.agg.violation('generated Kronecker entry table does not compile', {'log': out[-3000:]}, match={'kind': 'gen'})
        else:
            nbad = 0
            for (k, nfs, ncs, *_rest), o in zip(kron_cases, _eo(out)):
                for okv in _pv(o):
                    if not okv:
                        nbad += 1
            if nbad:
                ck.agg.violation('2-D Pspace/Rspace entries differ from the Kronecker-product entry function of the model (kron_rect) in %d sampled entries' % nbad,
                                 {'cases': [(c[0], c[1], c[2]) for c in kron_cases]}, match={'kind': 'kron-entry', 'dim': 2})
            ck.obligation('kron_rect = real 2-D Pspace/Rspace entries on %d non-square transfers' % len(kron_cases), nbad == 0)

    # ---- restrict()/prolong(): type, shape, dtype, per-component action = matrix applied to that component
    def fill(a):
        a[...] = np.array([rng.randint(-16, 16) / 8.0 for _ in range(a.size)]).reshape(a.shape)
        if np.iscomplexobj(a):
            a[...] = a + 1j * np.array([rng.randint(-16, 16) / 8.0 for _ in range(a.size)]).reshape(a.shape)

    nobs = 0
    for periodic in (True, False):
        for nv_kind in ('int', '1tuple', '2tuple'):
            for dt in ('float64', 'complex128'):
                for cls, comp in ((mesh, None), (imex_mesh, None), (comp2_mesh, None), (mesh, 'last'), (mesh, 'first')):
                    nf, nc, dxf, dxc = grids(periodic, 3)
                    nvf = nf if nv_kind == 'int' else ((nf,) if nv_kind == '1tuple' else (nf, nf))
                    nvc = nc if nv_kind == 'int' else ((nc,) if nv_kind == '1tuple' else (nc, nc))
                    if comp and nv_kind == 'int':
                        continue
                    kw = dict(ncomp=2, first=(comp == 'first')) if comp else {}
                    pf, pc = FakeProb(nvf, dxf, dtype=dt, **kw), FakeProb(nvc, dxc, dtype=dt, **kw)
                    par = {'periodic': periodic, 'iorder': rng.choice([2, 4]), 'rorder': 2}
                    with warnings.catch_warnings():
                        warnings.simplefilter('ignore')
                        T = mesh_to_mesh(pf, pc, par)
                    Pm, Rm = T.Pspace, T.Rspace
                    label = {'periodic': periodic, 'nvars': nv_kind, 'dtype': dt, 'datatype': cls.__name__, 'ncomp': comp, 'params': par}
                    try:
                        G = cls(pc.init)
                        fill(G)
                        Fd = T.prolong(G)
                        Fin = cls(pf.init)
                        fill(Fin)
                        Gd = T.restrict(Fin)
                    except Exception as e:
                        ck.agg.violation('restrict/prolong raised %s: %s' % (type(e).__name__, e), {'case': label}, match={'kind': 'structure-raise', 'datatype': cls.__name__})
                        continue
                    nobs += 1
                    ck.case(key=('structure', periodic, nv_kind, dt, cls.__name__, comp), nontrivial=True)
                    ck.traces += 1

                    def comps(a, ncomp_kind, names):
                        if names:
                            return [np.asarray(a[i]) for i in range(len(names))]
                        if ncomp_kind == 'last':
                            return [np.asarray(a[..., i]) for i in range(2)]
                        if ncomp_kind == 'first':
                            return [np.asarray(a[i, ...]) for i in range(2)]
                        return [np.asarray(a)]
                    names = getattr(cls, 'components', None)
                    problems = []
                    for (out, inp, Mx, prob_out, what) in ((Fd, G, Pm, pf, 'prolong'), (Gd, Fin, Rm, pc, 'restrict')):
                        if type(out) is not type(inp):
                            problems.append('%s: type %s -> %s' % (what, type(inp).__name__, type(out).__name__))
                        if out.dtype != inp.dtype:
                            problems.append('%s: dtype %s -> %s' % (what, inp.dtype, out.dtype))
                        ref = cls(prob_out.init)
                        if out.shape != ref.shape:
                            problems.append('%s: shape %s, expected %s' % (what, out.shape, ref.shape))
                            continue
                        if out is inp:
                            problems.append('%s: returns its argument' % what)
                        for ci, (co, cin) in enumerate(zip(comps(out, comp, names), comps(inp, comp, names))):
                            exp = Mx.dot(cin.flatten()).reshape(co.shape)
                            if not np.array_equal(co, exp):
                                problems.append('%s: component %d is not the matrix applied to component %d' % (what, ci, ci))
                    if problems:
                        ck.agg.violation('restrict/prolong does not preserve data type / component structure: ' + '; '.join(problems[:3]),
                                     {'call': 'mesh_to_mesh.restrict/prolong', 'case': label, 'problems': problems,
                                      'coarse_data': np.asarray(G).tolist() if not np.iscomplexobj(G) else str(np.asarray(G).tolist())},
                                     match={'kind': 'structure', 'datatype': cls.__name__, 'ncomp': comp})
    ck.cov['structure_observations'] = nobs
    ck.obligation('type/shape/dtype/per-component action of restrict and prolong on %d configurations' % nobs,
                  not any(dict(k).get('kind') in ('structure', 'structure-raise') for k in ck.agg.items))

    # ---- tensor-product action: prolongation of separable data is the outer product of the 1-D prolongations (exact rationals)
    for periodic in (True, False):
        nf, nc, dxf, dxc = grids(periodic, 3)
        par = {'periodic': periodic, 'iorder': 4, 'rorder': 2}
        with warnings.catch_warnings():
            warnings.simplefilter('ignore')
            T1 = mesh_to_mesh(FakeProb(nf, dxf), FakeProb(nc, dxc), par)
            T2 = mesh_to_mesh(FakeProb((nf, nf), dxf), FakeProb((nc, nc), dxc), par)
        P1 = [[fr(x) for x in row] for row in np.asarray(T1.Pspace.toarray())]
        Pn = np.asarray(T2.Pspace.toarray())
        f = [F(rng.randint(-8, 8), 4) for _ in range(nc)]
        g = [F(rng.randint(-8, 8), 4) for _ in range(nc)]
        u = [f[a] * g[b] for a in range(nc) for b in range(nc)]
        Pf = [sum(P1[i][j] * f[j] for j in range(nc)) for i in range(nf)]
        Pg = [sum(P1[i][j] * g[j] for j in range(nc)) for i in range(nf)]
        ok = True
        for i in range(nf):
            for j in range(nf):
                v = sum(fr(Pn[i * nf + j, m]) * u[m] for m in range(nc * nc) if Pn[i * nf + j, m] != 0.0)
                if abs(v - Pf[i] * Pg[j]) > F(1, 2 ** 44) * (abs(Pf[i] * Pg[j]) + 1):
                    ok = False
        ck.case(key=('tensor', periodic), nontrivial=True)
        if not ok:
            ck.agg.violation('2-D prolongation of separable data is not the product of the 1-D prolongations',
                         {'periodic': periodic, 'f': [str(x) for x in f], 'g': [str(x) for x in g]}, match={'kind': 'tensor'})


def run_nocoarse(ck):
    from pySDC.implementations.transfer_classes.TransferMesh_NoCoarse import mesh_to_mesh as m2m_nc
    from pySDC.implementations.transfer_classes.TransferParticles_NoCoarse import particles_to_particles
    from pySDC.implementations.datatype_classes.mesh import mesh, imex_mesh
    from pySDC.implementations.datatype_classes.particles import particles, fields, acceleration
    rng = ck.rng
    T = m2m_nc(None, None, {})
    objs = []
    for cls in (mesh, imex_mesh):
        for dt in ('float64', 'complex128'):
            a = cls(((3, 4), None, np.dtype(dt)))
            a[...] = np.array([rng.randint(-9, 9) for _ in range(a.size)]).reshape(a.shape)
            objs.append((T, a))
    Tp = particles_to_particles(None, None, {})

    def parts(o):
        """the numpy arrays an object consists of"""
        if isinstance(o, particles):
            return [('pos', o.pos), ('vel', o.vel), ('q', o.q), ('m', o.m)]
        if isinstance(o, fields):
            return [('elec', o.elec), ('magn', o.magn)]
        return [('self', o)]

    for cls in (particles, fields, acceleration):
        a = cls(((3, 5), None, np.dtype('float64')))
        for _, arr in parts(a):
            arr[...] = np.array([rng.randint(-9, 9) for _ in range(arr.size)]).reshape(arr.shape)
        objs.append((Tp, a))
    nbad = 0
    for Tr, a in objs:
        for what in ('restrict', 'prolong'):
            ck.case(key=('nocoarse', type(a).__name__, str(parts(a)[0][1].dtype), what), nontrivial=True)
            try:
                b = getattr(Tr, what)(a)
                ok = type(b) is type(a) and b is not a
                if ok:
                    for (na, xa), (nb, xb) in zip(parts(a), parts(b)):
                        ok = ok and type(xa) is type(xb) and xa.dtype == xb.dtype and xa.shape == xb.shape \
                            and np.array_equal(np.asarray(xa), np.asarray(xb)) and not np.shares_memory(np.asarray(xa), np.asarray(xb))
                err = None
            except Exception as e:
                ok, err = False, '%s: %s' % (type(e).__name__, e)
            if not ok:
                nbad += 1
                ck.agg.violation('NoCoarse transfer %s is not a type-preserving copy for %s' % (what, type(a).__name__),
                             {'call': type(Tr).__name__ + '.' + what, 'datatype': type(a).__name__,
                              'data': {n: str(np.asarray(x).tolist()) for n, x in parts(a)}, 'error': err},
                             match={'kind': 'nocoarse', 'datatype': type(a).__name__})
    ck.obligation('NoCoarse transfers are type-preserving copies (%d observations)' % (2 * len(objs)), nbad == 0)


def run_fft(ck, thorough):
    from pySDC.implementations.transfer_classes.TransferMesh_FFT import mesh_to_mesh_fft
    from pySDC.implementations.transfer_classes.TransferMesh_FFT2D import mesh_to_mesh_fft2d
    from pySDC.implementations.datatype_classes.mesh import mesh, imex_mesh
    rng = ck.rng
    worst = 0.0
    nbad = 0
    for lev in ([2, 3, 4, 5, 6] if thorough else [2, 3, 5]):
        nf, nc = 2 ** lev, 2 ** (lev - 1)
        for ratio_lev in (1, 2):
            nc2 = nf >> ratio_lev
            if nc2 < 2:
                continue
            T = mesh_to_mesh_fft(FakeProb(nf, 1.0 / nf), FakeProb(nc2, 1.0 / nc2), {})
            xc, xf = np.arange(nc2) / nc2, np.arange(nf) / nf
            for cls in (mesh, imex_mesh):
                # band-limited data: modes strictly below the coarse Nyquist frequency, random amplitudes
                amp = [(rng.randint(-8, 8) / 4.0, rng.randint(-8, 8) / 4.0) for _ in range(nc2 // 2)]
                fun = lambda x: sum(a * np.cos(2 * np.pi * m * x) + b * np.sin(2 * np.pi * m * x) for m, (a, b) in enumerate(amp))
                G = cls(FakeProb(nc2, 1.0 / nc2).init)
                comps = ['impl', 'expl'] if cls is imex_mesh else [None]
                fac = {None: 1.0, 'impl': 1.0, 'expl': -2.0}      # different data per component
                for cn in comps:
                    (getattr(G, cn) if cn else G)[:] = fac[cn] * fun(xc)
                ck.case(key=('fft1d', nf, nc2, cls.__name__), nontrivial=nc2 >= 4)
                ck.traces += 1
                try:
                    Fm = T.prolong(G)
                    back = T.restrict(Fm)
                    errs = []
                    ok = type(Fm) is cls and type(back) is cls and Fm.dtype == G.dtype and back.shape == G.shape
                    for cn in comps:
                        fv = np.asarray(getattr(Fm, cn) if cn else Fm)
                        bv = np.asarray(getattr(back, cn) if cn else back)
                        ok = ok and fv.shape == (nf,)
                        if ok:
                            errs += [float(np.abs(fv - fac[cn] * fun(xf)).max()), float(np.abs(bv - fac[cn] * fun(xc)).max())]
                    err = max(errs) if errs else float('inf')
                    exc = None
                except Exception as e:
                    ok, err, exc = False, float('inf'), '%s: %s' % (type(e).__name__, e)
                scale = 2 * (1 + sum(abs(a) + abs(b) for a, b in amp))
                worst = max(worst, err / scale if ok else 0.0)
                if not ok or err > FFT_TOL * scale:
                    nbad += 1
                    ck.agg.violation('FFT prolongation does not reproduce band-limited data / injection does not return the coarse data '
                                 '(nvars %d<-%d, %s)' % (nf, nc2, cls.__name__),
                                 {'call': 'mesh_to_mesh_fft.prolong/restrict', 'nvars_fine': nf, 'nvars_coarse': nc2, 'datatype': cls.__name__,
                                  'cos_sin_amplitudes_per_mode': amp, 'max_error': err, 'exception': exc},
                                 match={'kind': 'fft1d', 'datatype': cls.__name__, 'bandlimited': True})
            # general coarse data (content at the coarse Nyquist frequency): injection after prolongation must return it
            G = mesh(FakeProb(nc2, 1.0 / nc2).init)
            G[:] = [rng.randint(-8, 8) / 4.0 for _ in range(nc2)]
            if nc2 >= 2:
                G[0] += 1.0 if abs(sum((-1) ** j * G[j] for j in range(nc2))) < 0.5 else 0.0   # make sure the Nyquist coefficient is non-zero
            back = T.restrict(T.prolong(G))
            err = float(np.abs(np.asarray(back) - np.asarray(G)).max())
            ck.case(key=('fft1d-general', nf, nc2), nontrivial=True)
            if err > FFT_TOL * 10:
                nbad += 1
                ck.agg.violation('1-D FFT transfer: injection after prolongation does not return general coarse data '
                             '(the coarse Nyquist mode is copied to the fine Nyquist frequency); nvars %d<-%d, max error %.3g' % (nf, nc2, err),
                             {'call': 'mesh_to_mesh_fft.restrict(prolong(G))', 'nvars_fine': nf, 'nvars_coarse': nc2,
                              'coarse_data': [float(x) for x in G], 'returned': [float(x) for x in back], 'max_error': err},
                             match={'kind': 'fft1d', 'bandlimited': False, 'nyquist': True})
    # 2-D
    for lev in ([2, 3, 4] if thorough else [2, 3]):
        nf, nc = 2 ** lev, 2 ** (lev - 1)
        T = mesh_to_mesh_fft2d(FakeProb((nf, nf), 1.0 / nf), FakeProb((nc, nc), 1.0 / nc), {})
        xc, xf = np.arange(nc) / nc, np.arange(nf) / nf
        XC, YC = np.meshgrid(xc, xc, indexing='ij')
        XF, YF = np.meshgrid(xf, xf, indexing='ij')
        modes = [(m, n, rng.randint(-8, 8) / 4.0, rng.randint(-8, 8) / 4.0) for m in range(-(nc // 2) + 1, nc // 2) for n in range(-(nc // 2) + 1, nc // 2)]
        fun = lambda X, Y: sum(a * np.cos(2 * np.pi * (m * X + n * Y)) + b * np.sin(2 * np.pi * (m * X + n * Y)) for m, n, a, b in modes)
        G = mesh(FakeProb((nc, nc), 1.0 / nc).init)
        G[:] = fun(XC, YC)
        ck.case(key=('fft2d', nf), nontrivial=nc >= 4)
        ck.traces += 1
        try:
            Fm = T.prolong(G)
            back = T.restrict(Fm)
            ok = type(Fm) is mesh and Fm.shape == (nf, nf) and type(back) is mesh and back.shape == (nc, nc) and Fm.dtype == G.dtype
            err = max(float(np.abs(np.asarray(Fm) - fun(XF, YF)).max()), float(np.abs(np.asarray(back) - np.asarray(G)).max())) if ok else float('inf')
            exc = None
        except Exception as e:
            ok, err, exc = False, float('inf'), '%s: %s' % (type(e).__name__, e)
        scale = 1 + sum(abs(a) + abs(b) for _, _, a, b in modes)
        worst = max(worst, err / scale if ok else 0.0)
        if not ok or err > FFT_TOL * scale:
            nbad += 1
            ck.agg.violation('2-D FFT prolongation does not reproduce band-limited data / injection does not return the coarse data (nvars %d<-%d)' % (nf, nc),
                         {'call': 'mesh_to_mesh_fft2d.prolong/restrict', 'nvars_fine': nf, 'nvars_coarse': nc, 'modes(m,n,cos,sin)': modes, 'max_error': err,
                          'exception': exc}, match={'kind': 'fft2d', 'datatype': 'mesh'})
        # general data: injection after prolongation is the identity
        G[:] = np.array([rng.randint(-8, 8) / 4.0 for _ in range(nc * nc)]).reshape(nc, nc)
        back = T.restrict(T.prolong(G))
        err = float(np.abs(np.asarray(back) - np.asarray(G)).max())
        ck.case(key=('fft2d-general', nf), nontrivial=True)
        if err > FFT_TOL * 10:
            nbad += 1
            ck.agg.violation('2-D FFT transfer: injection after prolongation does not return the coarse data', {'nvars_fine': nf, 'nvars_coarse': nc,
                         'coarse_data': np.asarray(G).tolist(), 'max_error': err}, match={'kind': 'fft2d', 'bandlimited': False})
        # imex_mesh: component structure
        Gi = imex_mesh(FakeProb((nc, nc), 1.0 / nc).init)
        Gi.impl[:] = fun(XC, YC)
        Gi.expl[:] = 2 * fun(XC, YC)
        ck.case(key=('fft2d-imex', nf), nontrivial=True)
        try:
            Fi = T.prolong(Gi)
            ok = type(Fi) is imex_mesh and Fi.shape == (2, nf, nf)
            err = max(float(np.abs(np.asarray(Fi.impl) - fun(XF, YF)).max()), float(np.abs(np.asarray(Fi.expl) - 2 * fun(XF, YF)).max())) if ok else float('inf')
            exc = None
        except Exception as e:
            ok, err, exc = False, float('inf'), '%s: %s' % (type(e).__name__, e)
        if not ok or err > FFT_TOL * 2 * scale:
            nbad += 1
            ck.agg.violation('2-D FFT prolongation of an imex_mesh does not preserve the component structure / values (%s)' % (exc or 'max error %.3g' % err),
                         {'call': 'mesh_to_mesh_fft2d.prolong(imex_mesh)', 'nvars_fine': nf, 'nvars_coarse': nc, 'exception': exc, 'max_error': err},
                         match={'kind': 'fft2d', 'datatype': 'imex_mesh'})
    ck.cov['fft_worst_relative_error'] = worst
    ck.cov['fft_tol'] = FFT_TOL
    ck.obligation('FFT transfers: band-limited data reproduced, injection after prolongation returns the coarse data', nbad == 0)


REQUIRED = ['C11_node_transfer_sound', 'C11_node_transfer_rows_sum_one', 'C11_RP_identity', 'C11_interp_row_sound_affine',
            'C11_space_row_sound', 'C11_scaled_transpose_sound', 'C11_per_row_sound', 'C11_per_row_constants', 'C11_dir_row_sound',
            'C11_per_support_nearest', 'C11_per_support_images', 'C11_dir_support_nearest', 'C11_next_neighbors_spec',
            'C11_next_neighbors_periodic_spec', 'C11_kron_acts_per_axis']


def run(ck):
    thorough = ck.tier == 'thorough'
    ck.rule = ('node sets: (family, quadrature type, fine count, coarse count) in 1..9 (quick: seeded subset always containing the halving (nf+1)//2 for every nf, '
               'equal counts and one complete (family, type)); space: grids 2^l / 2^l-1, orders 2,4,6,8, shortcut on/off, every row; helpers: seeded dyadic inputs; '
               'a case is distinct when its configuration tuple is new, non-trivial when source and destination differ and have >= 2 points')
    ck.agg = Agg(ck)
    if os.environ.get('C11_SELFTEST_SKIP_PROPS') == '1':
        # mutation self-tests only: the Coq development does not depend on /repo, so re-checking it per mutant is skipped
        ck.notes.append('C11_SELFTEST_SKIP_PROPS=1: property theorems NOT re-checked in this run')
        ck.obligation('property theorems re-checked', False, 'skipped by C11_SELFTEST_SKIP_PROPS (self-test mode)', kind='theorem')
    else:
        ck.check_props(required=REQUIRED)
    ck.log('property theorems checked')
    import traceback
    sections = [('node tables', lambda: run_nodes(ck, thorough)), ('space tables', lambda: run_space(ck, thorough)),
                ('helper mirror', lambda: run_helpers(ck, thorough)), ('structure', lambda: run_structure(ck, thorough)),
                ('nocoarse', lambda: run_nocoarse(ck)), ('fft', lambda: run_fft(ck, thorough))]
    for name, fn in sections:
        try:
            fn()
        except Exception:
            # a crash of one section (implementation or harness raised) must not hide what the other sections found
            tb = traceback.format_exc()
            ck.obligation('section %s ran to completion' % name, False, tb[-1500:], kind='harness')
            ck.agg.violation('section "%s" of the check crashed: %s' % (name, tb.strip().splitlines()[-1]), {'traceback': tb},
                             match={'kind': 'crash', 'section': name}, no_input=True)
        ck.log(name + ' done')
    ck.agg.flush()
