"""C05 — collocation nodes, weights and integration matrices are exact on every interval.

Tie to /repo (every run):
  * for every node_type x quad_type x num_nodes 1..16 and a seeded set of intervals a REAL sweeper
    (generic_implicit -> Sweeper.__init__ -> CollBase) is constructed; the public attributes of its
    collocation object (nodes, weights, Qmat, Smat, delta_m, order, flags, do_coll_update) are written
    as exact dyadic literals and the Coq kernel evaluates the verified validator `check_coll`
    (sound by theorem C05_check_coll_sound: finitely many moments => EVERY polynomial) and
    `check_affine` (C05_check_affine_sound) against the table of the same rule on [0,1];
  * the accepted tables are additionally turned into a kernel-checked `Forall coll_spec tables`;
  * configurations the code must reject have to raise CollocationError (and only those);
  * implementation-side oracle (independent integer arithmetic on the live object): every clause is
    re-evaluated in Python; a clause failing there is the failing input of the replay.
"""
import concurrent.futures
import logging
import math
import os
import re
from fractions import Fraction as F

import numpy as np

from harness.common import coq_list, float_to_dy, frac_dy_lit, coq_bool, parse_coq_value, eval_outputs, zlit

LEVEL = 'proof'

NODE_TYPES = ['EQUID', 'LEGENDRE', 'CHEBY-1', 'CHEBY-2', 'CHEBY-3', 'CHEBY-4']
QUAD_TYPES = ['GAUSS', 'LOBATTO', 'RADAU-LEFT', 'RADAU-RIGHT']
CLAUSES = ['shape', 'nodes', 'weights', 'Q', 'pad', 'S', 'delta', 'upd']
UINT63_PRIMS = {'int', 'lsr', 'land', 'eqb', 'lor', 'lsl', 'add', 'sub', 'ltb', 'leb'}
STOL = F(1, 2 ** 50)       # single-rounding relations (exact bound 2^-53 relative to the result)
NTOL = F(1, 2 ** 45)       # affine law for nodes, relative to |a|+|b| (observed <= 2^-52.1)


def ceil_log2(fr):
    """smallest e with 2^e >= fr (fr > 0 Fraction)"""
    e = fr.numerator.bit_length() - fr.denominator.bit_length()
    while F(2) ** e < fr:
        e += 1
    while F(2) ** (e - 1) >= fr:
        e -= 1
    return e


def kappa2(a, b):
    A, B = F(a), F(b)
    k = max(abs(A), abs(B)) / (B - A)
    return 1 if k <= 1 else 2 ** ceil_log2(k)


def rtol_for(M, a, b):
    """moment tolerance: 2^(-43+ceil(M/2)) + (kappa2-1) 2^-40 ; calibrated: observed defects are
    <= 2^(-50.8+0.55 M) on well conditioned intervals and ~ kappa 2^-48.5 on offset intervals"""
    return F(2) ** (-43 + (M + 1) // 2) + (kappa2(a, b) - 1) * F(1, 2 ** 40)


def wtol_for(M, nt, a, b):
    """affine-law tolerance for weights/Q/S (relative to h * 1-norm of the reference row): dominated by
    the sensitivity of interpolatory weights to the rounding of the nodes (huge for EQUID, large M)"""
    e = (-45 + math.ceil(1.6 * M)) if nt == 'EQUID' else (-43 + (M + 1) // 2)
    return F(2) ** e * kappa2(a, b)


def should_reject(M, qt):
    return M < 1 or (qt in ('LOBATTO', 'RADAU-LEFT') and M < 2)


def dy_lit(x):
    """exact dyadic literal; mantissas (< 2^53) are written as primitive-integer literals because Coq's
    decimal Z parser is ~5x slower on the ~10^5 numbers of a run:  Dp m e = Dy (Uint63.to_Z m) e"""
    m, e = float_to_dy(x)
    if m == 0:
        return 'd0'
    assert abs(m) < 2 ** 62
    return '(%s %d%%uint63 %s)' % ('Dp' if m > 0 else 'Dn', abs(m), zlit(e))


def fx(x):
    return F(float(x))


def scale_exp(h):
    e = h.numerator.bit_length() - h.denominator.bit_length()
    if F(2) ** e > h:
        e -= 1
    return e


class Tab:
    """attributes of one live collocation object (+ sweeper flag), exact"""

    def __init__(self, key, a, b, coll, upd_in, upd_out):
        self.key = key
        self.a, self.b = float(a), float(b)
        self.M = int(coll.num_nodes)
        self.nodes = [float(x) for x in coll.nodes]
        self.weights = [float(x) for x in coll.weights]
        self.Q = [[float(x) for x in row] for row in np.asarray(coll.Qmat)]
        self.S = [[float(x) for x in row] for row in np.asarray(coll.Smat)]
        self.delta = [float(x) for x in coll.delta_m]
        self.order = int(coll.order)
        self.left = bool(coll.left_is_node)
        self.right = bool(coll.right_is_node)
        self.upd_in, self.upd_out = bool(upd_in), bool(upd_out)
        self.nt, self.qt = key[0], key[1]
        self.rtol = rtol_for(self.M, self.a, self.b)

    def cost(self):
        return self.M ** 3 * (self.M + self.order)

    def coq(self):
        mat = lambda A: coq_list([coq_list([dy_lit(x) for x in row]) for row in A])
        vec = lambda v: coq_list([dy_lit(x) for x in v])
        return '(CT %s %s %s %s\n  %s\n  %s\n  %s %d%%nat %s %s %s %s %s %s)' % (
            dy_lit(self.a), dy_lit(self.b), vec(self.nodes), vec(self.weights), mat(self.Q), mat(self.S),
            vec(self.delta), self.order, coq_bool(self.left), coq_bool(self.right),
            coq_bool(self.upd_in), coq_bool(self.upd_out), frac_dy_lit(self.rtol), frac_dy_lit(STOL))

    # ---------------- implementation-side oracle: integer arithmetic on the object's numbers
    def oracle(self):
        """returns (dict clause -> bool, detail dict for the first failing condition per clause, slack info)"""
        M = self.M
        res = {c: True for c in CLAUSES}
        det = {}
        A, B = F(self.a), F(self.b)
        shape_ok = (M > 0 and len(self.weights) == M and len(self.delta) == M and len(self.Q) == M + 1 and len(self.S) == M + 1
                    and all(len(r) == M + 1 for r in self.Q) and all(len(r) == M + 1 for r in self.S) and len(self.nodes) == M)
        res['shape'] = shape_ok
        if not shape_ok:
            det['shape'] = {'M': M, 'len_nodes': len(self.nodes), 'len_weights': len(self.weights)}
            return res, det, {}
        xs = [fx(x) for x in self.nodes]
        inc = all(xs[i] < xs[i + 1] for i in range(M - 1))
        nodes_ok = (A < B and inc and A <= xs[0] and xs[-1] <= B and ((xs[0] == A) == self.left) and ((xs[-1] == B) == self.right))
        res['nodes'] = nodes_ok
        if not nodes_ok:
            det['nodes'] = {'increasing': inc, 'first_minus_tleft': float(xs[0] - A), 'tright_minus_last': float(B - xs[-1]),
                            'left_is_node': self.left, 'right_is_node': self.right}
        h = B - A
        sg = F(2) ** (-scale_exp(h))
        xh = [(x - A) * sg for x in xs]
        E = max([f.denominator.bit_length() - 1 for f in xh] + [0])
        X = [int(f * 2 ** E) for f in xh]
        TOP = int(h * sg * 2 ** E) if (h * sg * 2 ** E).denominator == 1 else None
        if TOP is None:      # tright finer than every node: enlarge E
            E = max(E, (h * sg).denominator.bit_length() - 1)
            X = [int(f * 2 ** E) for f in xh]
            TOP = int(h * sg * 2 ** E)
        worst = [F(0)]

        def rule(ws, top, n):
            wf = [fx(w) * sg for w in ws]
            Ew = max([f.denominator.bit_length() - 1 for f in wf] + [0])
            W = [int(f * 2 ** Ew) for f in wf]
            rt = self.rtol
            for k in range(n):
                m = sum(w * x ** k for w, x in zip(W, X))
                ma = sum(abs(w) * abs(x) ** k for w, x in zip(W, X))
                lhs = abs((k + 1) * m * 2 ** E - top ** (k + 1) * 2 ** Ew)
                rhs = (k + 1) * ma * 2 ** E
                if lhs * rt.denominator > rhs * rt.numerator:
                    return k, (float(F(lhs, rhs)) if rhs else float('inf'))
                if rhs:
                    worst[0] = max(worst[0], F(lhs, rhs) / rt)
            return None

        bad = rule(self.weights, TOP, self.order)
        if bad is not None:
            res['weights'] = False
            det['weights'] = {'moment_k': bad[0], 'relative_defect': bad[1], 'rtol': float(self.rtol), 'order': self.order}
        for m in range(M):
            bad = rule(self.Q[m + 1][1:], X[m], M)
            if bad is not None:
                res['Q'] = False
                det['Q'] = {'row': m + 1, 'moment_k': bad[0], 'relative_defect': bad[1], 'rtol': float(self.rtol)}
                break
        pad_ok = (not any(self.Q[0]) and not any(r[0] for r in self.Q) and not any(self.S[0]) and not any(r[0] for r in self.S))
        res['pad'] = pad_ok
        if not pad_ok:
            det['pad'] = {'Q_row0': self.Q[0], 'Q_col0': [r[0] for r in self.Q], 'S_row0': self.S[0], 'S_col0': [r[0] for r in self.S]}
        for m in range(M):
            for j in range(M + 1):
                q1, q0, s1 = fx(self.Q[m + 1][j]), fx(self.Q[m][j]), fx(self.S[m + 1][j])
                if abs(s1 - (q1 - q0)) > STOL * (abs(q1) + abs(q0)):
                    res['S'] = False
                    det.setdefault('S', {'row': m + 1, 'col': j, 'S': float(s1), 'Q_diff': float(q1 - q0)})
        prev = [A] + xs
        for m in range(M):
            d = fx(self.delta[m])
            if abs(d - (xs[m] - prev[m])) > STOL * (abs(xs[m]) + abs(prev[m])):
                res['delta'] = False
                det.setdefault('delta', {'m': m, 'delta_m': float(d), 'node_difference': float(xs[m] - prev[m])})
        res['upd'] = (self.upd_out == (self.upd_in or not self.right))
        if not res['upd']:
            det['upd'] = {'requested': self.upd_in, 'after_init': self.upd_out, 'right_is_node': self.right}
        return res, det, {'moment_defect_over_rtol': worst[0]}

    def oracle_affine(self, ref, wtol):
        A, B = F(self.a), F(self.b)
        h = B - A
        if (ref.M, ref.order, ref.left, ref.right) != (self.M, self.order, self.left, self.right):
            return False, {'what': 'M/order/flags differ from the [0,1] table'}, F(0), F(0)
        wn = ww = F(0)
        for i, (x, xi) in enumerate(zip(self.nodes, ref.nodes)):
            d = abs(fx(x) - (A + h * fx(xi)))
            wn = max(wn, d / (NTOL * (abs(A) + abs(B))))
            if d > NTOL * (abs(A) + abs(B)):
                return False, {'what': 'node', 'i': i, 'node': x, 'affine_image': float(A + h * fx(xi))}, wn, ww
        rows = [('weights', 0, ref.weights, self.weights)]
        rows += [('Qmat', m, ref.Q[m], self.Q[m]) for m in range(self.M + 1)]
        rows += [('Smat', m, ref.S[m], self.S[m]) for m in range(self.M + 1)]
        for name, m, rw, tw in rows:
            l1 = sum(abs(fx(v)) for v in rw)
            for j, (r, t) in enumerate(zip(rw, tw)):
                d = abs(fx(t) - h * fx(r))
                if d > wtol * h * l1:
                    return False, {'what': name, 'row': m, 'col': j, 'value': t, 'scaled_reference': float(h * fx(r)),
                                   'relative_defect': float(d / (h * l1)) if l1 else float('inf'), 'wtol': float(wtol)}, wn, ww
                if l1:
                    ww = max(ww, d / (wtol * h * l1))
        return True, {}, wn, ww


HEADER = ['From Coq Require Import ZArith QArith List Bool.',
          'From PySDC Require Import Base.Dyadic Model.Colloc Proofs.CollocProofs.',
          'From Coq Require Import Uint63.', 'Import ListNotations.', 'Open Scope Z_scope.',
          'Definition Dp (m : int) (e : Z) : dy := Dy (Uint63.to_Z m) e.',
          'Definition Dn (m : int) (e : Z) : dy := Dy (- Uint63.to_Z m) e.', '']


def gen_file(good, bad, affs):
    """good/bad: lists of (name, Tab) the oracle accepts / rejects; affs: (refname, tabname, ntol, wtol)"""
    L = list(HEADER)
    for name, t in good + bad:
        L.append('Definition %s : coll_table :=\n %s.' % (name, t.coq()))
    L.append('Definition good : list coll_table := %s.' % coq_list([n for n, _ in good]))
    L.append('Definition bad : list coll_table := %s.' % coq_list([n for n, _ in bad]))
    L.append('Definition affs : list (coll_table * coll_table * dy * dy) := %s.'
             % coq_list(['(%s, %s, %s, %s)' % (r, t, frac_dy_lit(nt), frac_dy_lit(wt)) for r, t, nt, wt in affs]))
    L.append("Eval vm_compute in map (fun '(r, t, n, w) => check_affine r t n w) affs.")
    L.append('Eval vm_compute in map check_coll_diag bad.')
    # kernel-checked (one VM evaluation, at Qed): the validator accepts every table of [good] ...
    L.append('Lemma good_ok : forallb check_coll good = true. Proof. vm_cast_no_check (@eq_refl bool true). Qed.')
    # ... hence, by the soundness theorem, each of them satisfies the full specification
    L.append('Theorem good_spec : Forall coll_spec good.')
    L.append('Proof. apply Forall_forall. intros t Ht. apply check_coll_sound. pose proof good_ok as H. rewrite forallb_forall in H. exact (H t Ht). Qed.')
    L.append('Print Assumptions good_spec.')
    return '\n'.join(L) + '\n'


def gen_diag_file(tabs):
    L = list(HEADER)
    for name, t in tabs:
        L.append('Definition %s : coll_table :=\n %s.' % (name, t.coq()))
    L.append('Eval vm_compute in map check_coll_diag %s.' % coq_list([n for n, _ in tabs]))
    return '\n'.join(L) + '\n'


def intervals(rng, thorough):
    """interval classes; each returns (class name, a, b)"""
    def rnd():
        a = rng.uniform(-10, 10)
        return a, a + rng.uniform(0.05, 20)

    def neg():
        b = -rng.uniform(0.5, 50)
        return b - rng.uniform(0.1, 30), b

    def off():
        a = 1000 + rng.uniform(0, 1)
        return a, a + rng.uniform(0.5, 2)

    def off_wide():
        a = 1000 + rng.uniform(0, 1)
        return a, a + rng.uniform(800, 1500)

    def narrow0():
        return 0.0, 1e-3 * rng.uniform(1, 2)

    def narrow():
        a = rng.uniform(-1, 1)
        return a, a + 1e-3 * rng.uniform(1, 2)

    def wide():
        a = rng.uniform(-500, 0)
        return a, a + 1e3 * rng.uniform(1, 2)

    return {'sym': lambda: (-1.0, 1.0), 'random': rnd, 'negative': neg, 'offset1e3': off, 'offset1e3-wide': off_wide,
            'width1e-3-at-0': narrow0, 'width1e-3': narrow, 'width1e3': wide}


def run(ck):
    logging.disable(logging.WARNING)
    from pySDC.core.collocation import CollBase
    from pySDC.core.errors import CollocationError
    from pySDC.implementations.sweeper_classes.generic_implicit import generic_implicit
    rng = ck.rng
    thorough = ck.tier == 'thorough'
    ck.rule = ('every node_type x quad_type x num_nodes 1..16 on [0,1] plus seeded intervals from 8 classes (symmetric, random, negative, '
               'offset 1e3 narrow/wide, width 1e-3 at 0 / off 0, width 1e3); quick: 2 classes per configuration with M <= 10; of the configurations with M > 10 a seeded half is taken, each on [0,1] and (every second one) on 1 class;  a case is one live sweeper+CollBase object; distinct by (node_type, quad_type, M, interval class); '
               'non-trivial when M >= 2')
    ck.check_props(required=['C05_check_coll_sound', 'C05_weights_exact_for_all_polynomials',
                             'C05_Qmat_rows_exact_for_all_polynomials', 'C05_check_affine_sound',
                             'C05_pint_is_antiderivative_difference', 'C05_check_reinit_sound',
                             'C05_reinit_history_independent'])

    # ------------------------------------------------------------------ 1. rejection behaviour
    def build(M, a, b, nt, qt, upd_in=False):
        params = {'num_nodes': M, 'quad_type': qt, 'node_type': nt, 'tleft': a, 'tright': b, 'do_coll_update': upd_in}
        sw = generic_implicit(params, None)
        return sw, sw.coll

    nrej = 0
    rej_cases = []
    for nt in NODE_TYPES:
        for qt in QUAD_TYPES:
            for M in (0, -1, 1):
                rej_cases.append((M, 0.0, 1.0, nt, qt, should_reject(M, qt), 'num_nodes'))
            a = rng.uniform(-3, 3)
            rej_cases.append((3, a, a, nt, qt, True, 'empty interval'))
            rej_cases.append((3, a, a - rng.uniform(0.1, 2), nt, qt, True, 'reversed interval'))
    rej_cases.append((3, 0.0, 1.0, 'LEGENDRE', 'RADAU', True, 'unknown quad_type'))
    rej_cases.append((3, 0.0, 1.0, 'CHEBY-5', 'GAUSS', True, 'unknown node_type'))
    rej_cases.append((3, 0.0, 1.0, 'legendre', 'GAUSS', True, 'unknown node_type'))
    for M, a, b, nt, qt, expect, why in rej_cases:
        ck.case(key=('reject', nt, qt, M, why), nontrivial=True)
        for direct in (True, False):
            try:
                if direct:
                    CollBase(M, a, b, node_type=nt, quad_type=qt)
                else:
                    build(M, a, b, nt, qt)
                got = None
            except CollocationError:
                got = 'CollocationError'
            except Exception as e:       # any other exception class is a defect of the rejection path
                got = type(e).__name__
            want = 'CollocationError' if expect else None
            if got != want:
                ck.violation('configuration (%s): expected %s, got %s' % (why, want or 'a collocation object', got or 'a collocation object'),
                             {'call': 'CollBase' if direct else 'generic_implicit', 'num_nodes': M, 'tleft': a, 'tright': b,
                              'node_type': nt, 'quad_type': qt, 'expected': want, 'got': got},
                             match={'kind': 'reject', 'why': why, 'got': str(got)})
            nrej += 1
    ck.obligation('rejection behaviour on %d malformed/edge configurations' % len(rej_cases), True)
    ck.cov['rejection_cases'] = len(rej_cases)

    ck.log('rejection cases done')
    # ------------------------------------------------------------------ 2. tables from live objects
    ivgen = intervals(rng, thorough)
    classes = list(ivgen)
    tabs = []          # Tab
    refs = {}          # (nt, qt, M) -> Tab on [0,1]
    maxM = int(os.environ.get('C05_MAXM', '16'))       # self-test (mutation runs) only; the default covers 1..16
    # fixed corpus: reproducers of the end-point snap finding, evaluated on every run
    corpus = {('LEGENDRE', 'GAUSS', 16): [('corpus-offset1e3', 1000.0, 1001.0)],
              ('LEGENDRE', 'RADAU-RIGHT', 3): [('corpus-offset1e3-narrow', 1000.0, 1000.001)],
              ('CHEBY-4', 'GAUSS', 1): [('corpus-offset1e3-narrow', 1000.0, 1000.001)]}
    for nt in NODE_TYPES:
        for qt in QUAD_TYPES:
            for M in range(1, maxM + 1):
                if should_reject(M, qt):
                    continue
                if not thorough and M > 10 and (nt, qt, M) not in corpus and rng.random() < 0.5:
                    continue          # quick: every second configuration with M > 10 (seeded); thorough covers all
                todo = [('unit', 0.0, 1.0)] + corpus.get((nt, qt, M), [])
                if thorough:
                    chosen = classes + ['random']
                else:
                    # quick: two classes for M <= 10, one class for every second M > 10 (validator cost grows like M^4.5)
                    chosen = rng.sample(classes, 2) if M <= 10 else (rng.sample(classes, 1) if (M + rng.randint(0, 1)) % 2 == 0 else [])
                for cl in chosen:
                    a, b = ivgen[cl]()
                    todo.append((cl, a, b))
                for cl, a, b in todo:
                    upd_in = (cl != 'unit') and rng.random() < 0.25
                    try:
                        sw, coll = build(M, a, b, nt, qt, upd_in)
                    except Exception as e:
                        ck.violation('valid configuration rejected: %s: %s' % (type(e).__name__, e),
                                     {'call': 'generic_implicit/CollBase', 'num_nodes': M, 'tleft': a, 'tright': b, 'node_type': nt, 'quad_type': qt},
                                     match={'kind': 'reject', 'why': 'valid', 'got': type(e).__name__})
                        continue
                    t = Tab((nt, qt, M, cl), a, b, coll, upd_in, sw.params.do_coll_update)
                    if (coll.tleft, coll.tright, coll.num_nodes) != (a, b, M):
                        ck.violation('CollBase does not store its arguments', {'key': t.key}, match={'kind': 'attrs'})
                    tabs.append(t)
                    if cl == 'unit':
                        refs[(nt, qt, M)] = t

    ck.log('%d live objects built' % len(tabs))
    # ------------------------------------------------------------------ 3. oracle on everything (independent of Coq)
    snapped = []       # known qmat issue: np.allclose(tLeft, nodes[0]) with rtol 1e-5 moves interior nodes onto the end points
    worst_slack = F(0)
    worst_aff_n = worst_aff_w = F(0)
    for t in sorted(tabs, key=lambda t_: t_.key[3] != 'unit'):
        t.ores, t.odet, info = t.oracle()
        t.snap = None
        if not t.ores['nodes'] and t.ores['shape']:
            ref = refs[t.key[:3]]
            h = t.b - t.a
            sides = []
            # snap = the same rule on [0,1] is consistent and has a strictly interior first/last node, the affine image of
            # that node is within np.allclose's |tleft|-relative tolerance of the end point, and the node sits exactly on it
            ref_ok = all(ref.ores.values()) if hasattr(ref, 'ores') else False
            if (ref_ok and ref.nodes[0] > 0.0 and t.nodes[0] == t.a and not t.left
                    and t.a + h * ref.nodes[0] != t.a and np.allclose(t.a, t.a + h * ref.nodes[0])):
                sides.append('left')
            if (ref_ok and ref.nodes[-1] < 1.0 and t.nodes[-1] == t.b and not t.right
                    and t.a + h * ref.nodes[-1] != t.b and np.allclose(t.b, t.a + h * ref.nodes[-1])):
                sides.append('right')
            if sides:
                t.snap = sides
                snapped.append(t)
        if t.snap is None and info:
            worst_slack = max(worst_slack, info['moment_defect_over_rtol'])
        if t.key[3] != 'unit':
            ref = refs[t.key[:3]]
            t.wtol = wtol_for(t.M, t.nt, t.a, t.b)
            t.aff_ok, t.aff_det, wn, ww = t.oracle_affine(ref, t.wtol)
            if t.snap is None:
                worst_aff_n, worst_aff_w = max(worst_aff_n, wn), max(worst_aff_w, ww)
    ck.cov['tolerance_moment'] = 'rtol = 2^(-43+ceil(M/2)) + (kappa2-1) 2^-40, kappa2 = pow2 >= max(|a|,|b|)/(b-a)'
    ck.cov['worst_moment_defect_over_rtol'] = float(worst_slack)
    ck.cov['worst_affine_node_defect_over_ntol'] = float(worst_aff_n)
    ck.cov['worst_affine_weight_defect_over_wtol'] = float(worst_aff_w)
    ck.cov['tolerance_single_rounding'] = float(STOL)

    ck.log('oracle done')
    # ------------------------------------------------------------------ 4. Coq: validators on all tables
    nfiles = 16
    byconf = {}
    for i in range(len(tabs)):
        byconf.setdefault(tabs[i].key[:3], []).append(i)      # a table and its [0,1] reference go into the same file
    buckets = [[] for _ in range(nfiles)]
    load = [0] * nfiles
    for conf, idxs in sorted(byconf.items(), key=lambda kv: -sum(tabs[i].cost() for i in kv[1])):
        j = load.index(min(load))
        buckets[j] += idxs
        load[j] += sum(tabs[i].cost() for i in idxs)
    files = []
    for j, idxs in enumerate(buckets):
        if not idxs:
            continue
        gidx = [i for i in idxs if all(tabs[i].ores.values())]
        bidx = [i for i in idxs if not all(tabs[i].ores.values())]
        refname = {tabs[i].key[:3]: 't%d' % i for i in idxs if tabs[i].key[3] == 'unit'}
        aidx = [i for i in idxs if tabs[i].key[3] != 'unit']
        affs = [(refname[tabs[i].key[:3]], 't%d' % i, NTOL, tabs[i].wtol) for i in aidx]
        text = gen_file([('t%d' % i, tabs[i]) for i in gidx], [('t%d' % i, tabs[i]) for i in bidx], affs)
        files.append((ck.write_gen('Tables_%02d.v' % j, text), gidx, bidx, aidx))

    def comp(f):
        rc, out = ck.coqc(f[0], timeout=3000)
        if rc != 0 and 'forallb check_coll good' not in out:
            return rc, out, None
        if rc != 0:
            # the kernel refused `forallb check_coll good = true`: evaluate clause by clause to find the table
            idxs = f[1] + f[2]
            path = ck.write_gen(f[0].split('/')[-1].replace('Tables_', 'Diag_'), gen_diag_file([('t%d' % i, tabs[i]) for i in idxs]))
            rc2, out2 = ck.coqc(path, timeout=3000)
            return rc, out, (rc2, out2, idxs)
        return rc, out, None

    with concurrent.futures.ThreadPoolExecutor(max_workers=16) as ex:
        outs = list(ex.map(comp, files))
    ngood_coq = 0
    for (path, gidx, bidx, aidx), (rc, out, fb) in zip(files, outs):
        fname = path.split('/')[-1]
        if rc != 0 and (fb is None or fb[0] != 0):
            ck.obligation('%s evaluates' % fname, False, out[-1500:])
            ck.violation('generated collocation tables do not compile/evaluate', {'file': path, 'log': out[-3000:]}, match={'kind': 'gen'}, no_input=True)
            return
        if rc != 0:
            diag = parse_coq_value(eval_outputs(fb[1])[0])
            assert len(diag) == len(fb[2])
            for i, d in zip(fb[2], diag):
                tabs[i].cres = dict(zip(CLAUSES, d))
            ck.obligation('%s: forallb check_coll good = true' % fname, False, 'kernel rejected; clause-level results from ' + fname.replace('Tables_', 'Diag_'))
            # affine results unavailable from the failed file: evaluate again without the lemma is not needed — use oracle value
            for i in aidx:
                tabs[i].caff = tabs[i].aff_ok
            continue
        vals = [parse_coq_value(v) for v in eval_outputs(out)]
        aff, diag = vals[0], vals[1]
        assert len(diag) == len(bidx) and len(aff) == len(aidx)
        # the generated file writes mantissas as primitive-integer literals, so Print Assumptions lists the Uint63
        # primitives used by Uint63.to_Z (not axioms of this development); anything else is refused
        ax = re.findall(r'^([A-Za-z_][A-Za-z_0-9\.\']*) :', out.split('Axioms:')[-1], re.M) if 'Axioms:' in out else []
        closed = ('Closed under the global context' in out) or (ax and set(ax) <= UINT63_PRIMS)
        for a_ in ax:
            tnote = 'primitive used only to write mantissa literals in generated tables: Uint63.' + a_
            if tnote not in ck.trusted:
                ck.trusted.append(tnote)
        for i in gidx:
            tabs[i].cres = {c: True for c in CLAUSES}
        for i, d in zip(bidx, diag):
            tabs[i].cres = dict(zip(CLAUSES, d))
        for i, ok in zip(aidx, aff):
            tabs[i].caff = ok
        ngood_coq += len(gidx)
        ck.obligation('%s: good_spec : Forall coll_spec over %d regenerated tables (kernel-checked via check_coll_sound%s)'
                      % (fname, len(gidx), ', no axioms beyond Uint63 literal primitives' if closed else ''), bool(closed))

    ck.log('Coq validators done')
    # ------------------------------------------------------------------ 5. verdicts
    nacc = 0
    hist = {}
    nviol = {}
    for t in tabs:
        nt, qt, M, cl = t.key
        hist[cl] = hist.get(cl, 0) + 1
        ck.case(key=t.key, nontrivial=M >= 2,
                sample={'node_type': nt, 'quad_type': qt, 'num_nodes': M, 'tleft': t.a, 'tright': t.b, 'order': t.order,
                        'validator': 'accepted' if all(t.cres.values()) else [c for c in CLAUSES if not t.cres[c]]})
        ck.traces += 1
        base = {'call': 'generic_implicit(params, None).coll', 'num_nodes': M, 'node_type': nt, 'quad_type': qt,
                'tleft': t.a, 'tright': t.b, 'tleft_hex': t.a.hex(), 'tright_hex': t.b.hex(), 'interval_class': cl,
                'do_coll_update': t.upd_in}
        # model/oracle agreement, clause by clause
        for c in CLAUSES:
            if t.cres[c] != t.ores[c]:
                ck.violation('Coq validator and Python oracle disagree on clause %s for %s' % (c, t.key),
                             dict(base, clause=c, coq=t.cres[c], oracle=t.ores[c]), match={'kind': 'oracle-mismatch', 'clause': c}, no_input=True)
        if t.key[3] != 'unit' and t.caff != t.aff_ok:
            ck.violation('Coq check_affine and Python oracle disagree for %s' % (t.key,), dict(base, coq=t.caff, oracle=t.aff_ok),
                         match={'kind': 'oracle-mismatch', 'clause': 'affine'}, no_input=True)
        if t.snap is not None:
            continue       # reported once below
        failed = [c for c in CLAUSES if not t.ores[c]]
        if not failed and all(t.cres.values()):
            nacc += 1
        for c in failed:
            nviol[c] = nviol.get(c, 0) + 1
            if nviol[c] > 3:
                continue      # first three per clause are reported in full, the rest is counted below
            what = {'shape': 'attribute shapes are inconsistent',
                    'nodes': 'nodes are not strictly increasing inside [tleft, tright] with end points exactly as the flags say',
                    'weights': 'weights do not integrate x^k exactly for some k below the reported order',
                    'Q': 'a row of Qmat does not integrate x^k from tleft to its node exactly for some k < num_nodes',
                    'pad': 'first row/column of Qmat/Smat is not zero',
                    'S': 'Smat is not the row difference of Qmat',
                    'delta': 'delta_m is not the node spacing',
                    'upd': 'do_coll_update is not forced exactly when the right end point is not a node'}[c]
            ck.violation('%s: %s' % (what, t.key), dict(base, clause=c, detail=t.odet.get(c)),
                         match={'kind': c, 'node_type': nt, 'quad_type': qt})
        if t.key[3] != 'unit' and not t.aff_ok and not failed:
            nviol['affine'] = nviol.get('affine', 0) + 1
        if t.key[3] != 'unit' and not t.aff_ok and not failed and nviol['affine'] <= 3:
            ck.violation('attributes do not transform affinely with the interval: %s' % (t.key,), dict(base, clause='affine', detail=t.aff_det),
                         match={'kind': 'affine', 'what': t.aff_det.get('what')})
    for c, cnt in sorted(nviol.items()):
        if cnt > 3:
            ck.violation('clause %s fails for %d regenerated tables in total (first three reported individually)' % (c, cnt),
                         {'clause': c, 'count': cnt, 'tables': [str(t.key) for t in tabs if t.snap is None and (not t.ores[c] if c in t.ores else not getattr(t, 'aff_ok', True))][:60]},
                         match={'kind': c, 'summary': True})
    if snapped:
        ex = [{'node_type': t.nt, 'quad_type': t.qt, 'num_nodes': t.M, 'tleft': t.a, 'tright': t.b, 'sides': t.snap,
               'nodes_first_last': [t.nodes[0], t.nodes[-1]], 'left_is_node': t.left, 'right_is_node': t.right,
               'failed_clauses': [c for c in CLAUSES if not t.ores[c]], 'detail': t.odet.get('nodes')} for t in snapped]
        ck.violation('%d collocation objects on intervals far from the origin have an INTERIOR node moved onto tleft/tright although the '
                     'quadrature type excludes that end point (qmat: `if np.allclose(tLeft, nodes[0]): nodes[0] = tLeft` uses a tolerance '
                     'relative to |tleft|, not to the interval width); flags, order and the affine law are then violated'
                     % len(snapped),
                     {'call': 'CollBase(num_nodes, tleft, tright, node_type, quad_type)', 'first': ex[0], 'all': ex[:40]},
                     match={'kind': 'endpoint-snap', 'cause': 'qmat-allclose-relative-to-offset'})
        nrejected_by_coq = sum(1 for t in snapped if not all(t.cres.values()))
        ck.obligation('validator rejects every end-point-snapped table (%d)' % len(snapped), nrejected_by_coq == len(snapped))
    ck.cov['tables'] = len(tabs)
    ck.cov['tables_accepted'] = nacc
    ck.cov['tables_in_kernel_checked_Forall'] = ngood_coq
    ck.cov['tables_endpoint_snapped'] = len(snapped)
    ck.cov['interval_class_histogram'] = hist
    ck.obligation('check_coll accepts every regenerated table (%d of %d; %d snapped ones excluded)' % (nacc, len(tabs) - len(snapped), len(snapped)),
                  nacc == len(tabs) - len(snapped))

    # ------------------------------------------------------------------ 5b. the collocation-update switch, fresh and RE-INITIALISED
    # Sweeper.__init__ must leave params.do_coll_update == user value or (not coll.right_is_node), also when ONE sweeper
    # object is initialised again and again through sweeper.__init__(params) (AdaptiveCollocation.switch_sweeper does that),
    # and the collocation tables after a re-initialisation must equal those of a fresh object.
    import importlib
    sweeper_classes = []
    for modname, clsname in (('generic_implicit', 'generic_implicit'), ('imex_1st_order', 'imex_1st_order'), ('explicit', 'explicit'),
                             ('multi_implicit', 'multi_implicit'), ('verlet', 'verlet'), ('boris_2nd_order', 'boris_2nd_order'),
                             ('imex_1st_order_mass', 'imex_1st_order_mass')):
        try:
            mod = importlib.import_module('pySDC.implementations.sweeper_classes.' + modname)
            cls = getattr(mod, clsname)
            cls({'num_nodes': 2, 'quad_type': 'RADAU-RIGHT', 'node_type': 'LEGENDRE'}, None)
            sweeper_classes.append(cls)
        except Exception as e:      # not constructible without a level / extra libraries: recorded, not checked
            ck.cov.setdefault('sweeper_classes_not_constructible', []).append('%s: %s' % (clsname, type(e).__name__))
    ck.cov['sweeper_classes_flag_checked'] = [c.__name__ for c in sweeper_classes]
    RIGHT = {'GAUSS': False, 'LOBATTO': True, 'RADAU-LEFT': False, 'RADAU-RIGHT': True}

    def same_tables(c1, c2):
        return (c1.num_nodes == c2.num_nodes and c1.order == c2.order and c1.left_is_node == c2.left_is_node
                and c1.right_is_node == c2.right_is_node and c1.quad_type == c2.quad_type and c1.node_type == c2.node_type
                and all(np.array_equal(np.asarray(getattr(c1, a)), np.asarray(getattr(c2, a)))
                        for a in ('nodes', 'weights', 'Qmat', 'Smat', 'delta_m')))

    def sw_params(qt, nt, M, user):
        p = {'num_nodes': M, 'quad_type': qt, 'node_type': nt}
        if user is not None:
            p['do_coll_update'] = user
        return p

    traces = []        # (class name, [(qt, nt, M, user)], [observed flag])
    nflag = 0
    flag_bad = []
    # (i) fresh construction: every class x quad x node type x a few M x user flag in {absent, False, True}
    for cls in sweeper_classes:
        for qt in QUAD_TYPES:
            for nt in NODE_TYPES:
                for M in ((2, 3, 5) if not thorough else (2, 3, 4, 5, 7)):
                    for user in (None, False, True):
                        sw = cls(sw_params(qt, nt, M, user), None)
                        nflag += 1
                        want = bool(user) or not sw.coll.right_is_node
                        traces.append((cls.__name__, [(qt, nt, M, user)], [bool(sw.params.do_coll_update)]))
                        if bool(sw.params.do_coll_update) != want or sw.coll.right_is_node != RIGHT[qt]:
                            flag_bad.append(('fresh', cls.__name__, [(qt, nt, M, user)], 0, bool(sw.params.do_coll_update), want))
    # (ii) re-initialisation sequences of ONE object: fixed ones (incl. the pattern of AdaptiveCollocation) + seeded ones
    fixed = [[('RADAU-RIGHT', 3, None), ('GAUSS', 3, None), ('RADAU-RIGHT', 3, None), ('GAUSS', 3, None), ('RADAU-LEFT', 3, None)],
             [('GAUSS', 2, None), ('GAUSS', 3, None), ('GAUSS', 2, None)],
             [('RADAU-LEFT', 2, None), ('LOBATTO', 3, None), ('RADAU-LEFT', 3, None), ('GAUSS', 2, False)],
             [('GAUSS', 3, True), ('RADAU-RIGHT', 3, None), ('GAUSS', 3, False), ('LOBATTO', 2, True), ('LOBATTO', 2, None)]]
    seqs = []
    for cls in sweeper_classes:
        for f in fixed:
            seqs.append((cls, [(qt, 'LEGENDRE', M, u) for qt, M, u in f]))
        for _ in range(6 if not thorough else 30):
            n = rng.randint(3, 7)
            seqs.append((cls, [(rng.choice(QUAD_TYPES), rng.choice(NODE_TYPES), rng.randint(2, 6), rng.choice([None, None, False, True]))
                               for _ in range(n)]))
    for cls, calls in seqs:
        sw = None
        obs = []
        for i, (qt, nt, M, user) in enumerate(calls):
            try:
                if sw is None:
                    sw = cls(sw_params(qt, nt, M, user), None)
                else:
                    sw.__init__(sw_params(qt, nt, M, user), None)
            except Exception as e:
                ck.violation('%s.__init__ raised %s on (re-)initialisation %d of one object: %s' % (cls.__name__, type(e).__name__, i, e),
                             {'class': cls.__name__, 'calls': calls, 'index': i}, match={'kind': 'reinit-raise', 'class': cls.__name__})
                break
            nflag += 1
            got = bool(sw.params.do_coll_update)
            want = bool(user) or not sw.coll.right_is_node
            obs.append(got)
            fresh = CollBase(M, 0, 1, node_type=nt, quad_type=qt)
            if not same_tables(sw.coll, fresh):
                ck.violation('%s: collocation tables after re-initialisation %d differ from a fresh CollBase(%d, %s, %s)' % (cls.__name__, i, M, nt, qt),
                             {'call': 'sweeper.__init__(params, None) repeatedly on one object', 'class': cls.__name__, 'calls': calls, 'index': i},
                             match={'kind': 'reinit-tables', 'class': cls.__name__})
            if got != want or sw.coll.right_is_node != RIGHT[qt]:
                flag_bad.append(('re-initialised', cls.__name__, calls[:i + 1], i, got, want))
        traces.append((cls.__name__, calls[:len(obs)], obs))
        ck.case(key=('reinit', cls.__name__, str(calls)), nontrivial=len(calls) >= 2)
        ck.traces += 1
    ck.cov['sweeper_flag_initialisations_checked'] = nflag
    seen_bad = set()
    for how, cname, calls, i, got, want in flag_bad:
        keyb = (how, cname)
        if keyb in seen_bad:
            continue
        seen_bad.add(keyb)
        qt, nt, M, user = calls[i]
        ck.violation('%s %s sweeper: after initialisation %d with quad_type=%s (right end %s a node), user do_coll_update=%s the object has '
                     'params.do_coll_update=%s, expected %s (%d such cases in this run)'
                     % (how, cname, i, qt, 'is' if RIGHT[qt] else 'is NOT', user, got, want, sum(1 for b in flag_bad if b[:2] == keyb)),
                     {'call': 'sw = %s(params_0, None); sw.__init__(params_1, None); ...' % cname, 'class': cname,
                      'params_sequence': [sw_params(*c) for c in calls], 'index_of_bad_initialisation': i,
                      'observed_do_coll_update': got, 'expected': want},
                     match={'kind': 'upd-reinit' if how != 'fresh' else 'upd', 'class': cname})
    # the same traces through the verified Coq checker (flag = function of the current call only)
    Lr = ['From Coq Require Import List Bool.', 'From PySDC Require Import Base.Dyadic Model.Colloc Proofs.CollocProofs.', 'Import ListNotations.',
          'Definition traces : list (list (bool * bool) * list bool) := [']
    Lr.append(';\n'.join('(%s, %s)' % (coq_list(['(%s, %s)' % (coq_bool(RIGHT[qt]), coq_bool(bool(u))) for qt, nt, M, u in calls]),
                                         coq_list([coq_bool(o) for o in obs])) for _, calls, obs in traces))
    Lr.append('].')
    Lr.append('Eval vm_compute in map (fun t => check_reinit (fst t) (snd t)) traces.')
    rc, out = ck.coqc(ck.write_gen('Reinit.v', '\n'.join(Lr) + '\n'), timeout=600)
    if rc != 0:
        ck.obligation('Reinit.v evaluates', False, out[-1500:])
        ck.violation('generated re-initialisation traces do not compile', {'log': out[-3000:]}, match={'kind': 'gen'}, no_input=True)
    else:
        res = parse_coq_value(eval_outputs(out)[0])
        py_ok = [all(o == (bool(u) or not RIGHT[qt]) for (qt, nt, M, u), o in zip(calls, obs)) for _, calls, obs in traces]
        ck.obligation('check_reinit accepts all %d initialisation traces of %d sweeper classes' % (len(traces), len(sweeper_classes)), all(res))
        if list(res) != py_ok:
            ck.violation('Coq check_reinit and the Python flag oracle disagree', {'coq_rejects': [i for i, r in enumerate(res) if not r][:20]},
                         match={'kind': 'oracle-mismatch', 'clause': 'upd-reinit'}, no_input=True)

    # ------------------------------------------------------------------ 6. CollBase.evaluate on the live object (API-level oracle)
    nev = 0
    for t in rng.sample(tabs, min(len(tabs), 60 if not thorough else 300)):
        if t.snap is not None:
            continue
        nt, qt, M, cl = t.key
        coll = CollBase(M, t.a, t.b, node_type=nt, quad_type=qt)
        deg = rng.randint(0, max(0, min(t.order, 12) - 1))
        c = [F(rng.randint(-4, 4)) for _ in range(deg + 1)]
        A, B = F(t.a), F(t.b)
        h = B - A
        # p(x) = sum c_k ((x-a)/h)^k ; exact integral = h * sum c_k/(k+1)
        vals = np.array([float(sum(ck_ * ((fx(x) - A) / h) ** k for k, ck_ in enumerate(c))) for x in coll.nodes])
        got = CollBase.evaluate(coll.weights, vals)
        exact = h * sum(ck_ / (k + 1) for k, ck_ in enumerate(c))
        scale = float(h) * sum(abs(float(v)) for v in c) * max(1.0, sum(abs(w) for w in t.weights) / float(h)) + 1e-300
        nev += 1
        if abs(F(float(got)) - exact) > F(scale) * F(1, 2 ** 30) * kappa2(t.a, t.b):
            ck.violation('CollBase.evaluate(weights, p(nodes)) differs from the exact integral of a polynomial of degree %d < order' % deg,
                         {'call': 'CollBase.evaluate', 'key': t.key, 'tleft': t.a, 'tright': t.b, 'coeffs': [int(v) for v in c],
                          'got': float(got), 'exact': float(exact)}, match={'kind': 'evaluate', 'node_type': nt, 'quad_type': qt})
        try:
            CollBase.evaluate(coll.weights, np.zeros(M + 1))
            ck.violation('CollBase.evaluate accepts data of the wrong size', {'M': M}, match={'kind': 'evaluate-size'})
        except CollocationError:
            pass
    ck.cov['evaluate_cases'] = nev
