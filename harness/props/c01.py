"""C01 — converged SDC/MLSDC/PFASST returns the fine collocation solution.

Theorems (Props/C01.v): every fixed point of the sweep, for any lower-triangular preconditioner and any
problem satisfying the solver contract, solves the collocation problem and vice versa; zero residual
<=> collocation equation.  With C10 (coarse levels do not move the fine fixed point) and C03 (the
reported residual is the defect) the converged value is pinned by the error equation
(I - dt Q(x)A)(U - U_coll) = -r, whence |U - U_coll| <= ||(I - dt Q(x)A)^-1|| * restol.

Tie on every run:
  * exact: the REAL controller (1-3 levels, 1-4(8) steps, every predictor, both couplings, preconditioner
    names, initial guesses, 1-2 sweeps) runs under fractions.Fraction until every step meets restol; for
    each step the returned end value is compared with the collocation solution computed by an
    independent exact solve started from the previous step's returned end value; the bound constant
    is computed exactly; the chain u0(n+1) == uend(n) is checked exactly;
  * float: genuine problem classes (testequation0d, heat and advection FD with mesh) iterated to restol
    vs a numpy collocation solve.
"""
import logging
from fractions import Fraction as F

import numpy as np

from harness import exact as ex
from harness import exactrun as er
from harness.props.c02 import rfrac

LEVEL = 'proof'


def gen_cfg(rng, thorough):
    kind = rng.choice(['GI', 'GI', 'IMEX', 'IMEX', 'EXPL', 'MI'])
    nl = rng.choice([1, 2, 2, 3] if thorough else [1, 2, 2])
    dim = rng.choice([1, 2])
    nn = sorted([rng.choice([2, 3]) for _ in range(nl)], reverse=True)
    if nl > 1 and rng.random() < 0.25:
        nn[-1] = 1                      # a coarse level with a single collocation node
        if nl > 2 and rng.random() < 0.5:
            nn[-2] = 1
    quad = rng.choice(['RADAU-RIGHT', 'RADAU-RIGHT', 'LOBATTO', 'GAUSS', 'RADAU-LEFT'])
    if 1 in nn and quad in ('LOBATTO', 'RADAU-LEFT'):
        quad = 'RADAU-RIGHT'            # LOBATTO needs two nodes; a single left node carries no information
    lam = tuple(F(rng.randint(-6, -1), rng.choice([1, 2])) for _ in range(dim))
    c = tuple(rfrac(rng, -2, 2) for _ in range(dim))
    lamE = tuple(F(rng.randint(-2, 2), 4) for _ in range(dim)); zero = tuple(F(0) for _ in range(dim))
    levels = []
    for l in range(nl):
        lv = dict(num_nodes=nn[l], quad_type=quad, dim=dim, QI=rng.choice(['IE', 'LU', 'MIN-SR-S', 'MIN-SR-NS', 'IEpar', 'TRAP']))
        if kind == 'GI':
            lv.update(lam=lam, c=c)
        elif kind == 'EXPL':
            lv.update(lam=tuple(x / 2 for x in lam), c=c, QE=rng.choice(['EE', 'PIC']))
        elif kind == 'MI':
            lv.update(lam1=lam, c1=c, lam2=lamE, c2=c, Q1=lv['QI'], Q2=rng.choice(['IE', 'LU', 'MIN-SR-S']))
        else:
            lv.update(lamI=lam, cI=c, lamE=lamE, muE=zero, cE=c, QE=rng.choice(['EE', 'PIC']))
        levels.append(lv)
    P = rng.choice([1, 1, 2, 3, 4] if not thorough else [1, 2, 3, 4, 6, 8])
    cfg = dict(kind=kind, levels=levels, num_procs=P, maxiter=60, restol=F(1, 10 ** 7),
               residual_type=rng.choice(['full_abs', 'full_abs', 'full_rel']), dt=F(1, rng.choice([8, 10, 16])),
               mssdc_jac=rng.random() < 0.5,
               predict_type=(rng.choice([None, 'fine_only', 'pfasst_burnin']) if P > 1 else rng.choice([None, 'fine_only'])) if nl > 1 else None,
               nsweeps=rng.choice([1, 2]) if nl == 1 else [rng.choice([1, 2])] + [1] * (nl - 1),
               initial_guess=rng.choice(['spread', 'copy', 'zero']), do_coll_update=(quad == 'GAUSS') or rng.random() < 0.2)
    cfg['do_coll_update'] = cfg['do_coll_update'] or quad == 'RADAU-LEFT'
    if cfg['num_procs'] > 1 and nl > 1 and (quad in ('GAUSS', 'RADAU-LEFT') or cfg['do_coll_update']):
        # the controller (rightly) refuses PFASST unless uend = u_M: keep the configuration valid (single-level multi-step runs may
        # use any quadrature: the forward transfer then carries the QUADRATURE end value)
        cfg['do_coll_update'] = False
        if quad in ('GAUSS', 'RADAU-LEFT'):
            for lv in cfg['levels']:
                lv['quad_type'] = 'RADAU-RIGHT'
    # blocks that are completely filled, a partially filled LAST block (steps not divisible by num_procs) and fewer steps than
    # processes: the value returned by run() must be the end value of the last ACTIVE step (seeded C01-h)
    nsteps = rng.choice([P, 2 * P, P, 2 * P, P + 1, 2 * P - 1, P - 1]) if P > 1 else rng.choice([1, 2, 3])
    u0 = [F(rng.randint(1, 3)) * rng.choice([1, -1]) for _ in range(dim)]
    return cfg, u0, nsteps, (lam, c, lamE)


def exact_part(ck, rng, thorough):
    n = 3000 if thorough else 150
    worst_ratio = F(0)
    notconv = 0
    notconv_cfgs = []
    budget_hits = [0]
    for i in range(n):
        cfg, u0, nsteps, (lam, c, lamE) = gen_cfg(rng, thorough)
        try:
            C, uend, stats, log = er.run(cfg, u0, F(0), cfg['dt'] * nsteps, deep=True)
        except ZeroDivisionError:
            continue
        except er.RunBudgetExceeded:
            budget_hits[0] += 1
            continue
        kind = cfg['kind']
        L0 = C.MS[0].levels[0]
        M = L0.sweep.coll.num_nodes
        Q = [[L0.sweep.coll.Qmat[a, b] for b in range(M + 1)] for a in range(M + 1)]
        nodes = [F(x) for x in L0.sweep.coll.nodes]
        w = [F(x) for x in L0.sweep.coll.weights]
        dt, restol = cfg['dt'], cfg['restol']
        dim = len(u0)
        posts = sorted([e for e in log if e['cb'] == 'post_step'], key=lambda e: e['time'])
        pres = {e['time']: e for e in log if e['cb'] == 'pre_step'}
        key = (kind, len(cfg['levels']), cfg['num_procs'], tuple((l.get('QI'), l.get('QE'), l.get('Q2')) for l in cfg['levels']), cfg['predict_type'], cfg['mssdc_jac'],
               str(cfg['nsweeps']), cfg['initial_guess'], cfg['residual_type'], L0.sweep.coll.quad_type, cfg['do_coll_update'])
        meta = {k: str(v) for k, v in cfg.items() if k != 'hooks'}
        if len(posts) != nsteps:
            ck.violation('number of finished steps differs from the number requested', dict(meta, finished=len(posts), wanted=nsteps), match={'kind': 'step_count'})
            continue
        converged = all(e['levels'][0]['residual'] <= restol for e in posts)
        ck.case(key=key, nontrivial=converged, sample=meta)
        if not converged:
            notconv += 1
            notconv_cfgs.append(dict(meta, residuals=[float(e['levels'][0]['residual']) for e in posts]))
            continue
        prev_end = list(u0)
        for sidx, e in enumerate(posts):
            s0 = e['levels'][0]
            # chain: this step started from exactly the previous step's returned end value
            copy_mode = bool(L0.sweep.coll.right_is_node and not L0.sweep.params.do_coll_update)
            if s0['u'][0] != prev_end:
                ck.violation('step %d did not start from the previous step\'s end value' % sidx,
                             dict(meta, step=sidx, start=[str(v) for v in s0['u'][0]], prev_end=[str(v) for v in prev_end]),
                             match={'kind': 'chain', 'end_point': 'copy' if copy_mode else 'quadrature', 'multi_step': cfg['num_procs'] > 1,
                                    'levels': len(cfg['levels']),
                                    # tolerance-level inexactness (the known communication-order effect) vs a wrong value
                                    'within_tolerance': bool(max(abs(a - b) for a, b in zip(s0['u'][0], prev_end))
                                                             <= 10 * restol * max([F(1)] + [abs(v) for v in prev_end]))})
            for x in range(dim):
                lt = {'GI': lam[x], 'EXPL': lam[x] / 2, 'IMEX': lam[x] + lamE[x], 'MI': lam[x] + lamE[x]}[kind]
                ct = c[x] * (2 if kind in ('IMEX', 'MI') else 1)
                # collocation solution from the value the step ACTUALLY started from (the chain itself is checked above)
                start_x = s0['u'][0][x]
                Uc = er.collocation_scalar(Q, nodes, dt, e['time'], lt, ct, start_x)
                if L0.sweep.coll.right_is_node and not L0.sweep.params.do_coll_update:
                    end_c = Uc[-1]
                    kend = F(1)
                else:
                    end_c = start_x + dt * sum(w[m] * (lt * Uc[m] + ct * (e['time'] + dt * nodes[m])) for m in range(M))
                    kend = dt * sum(abs(w[m]) for m in range(M)) * abs(lt)
                K = er.inv_norm_inf(Q, M, dt, lt)
                scale = max(abs(v) for v in s0['u'][0]) if cfg['residual_type'].endswith('rel') else F(1)
                bound = K * kend * restol * scale
                err = abs(s0['uend'][x] - end_c)
                ck.traces += 1
                if bound > 0:
                    worst_ratio = max(worst_ratio, err / bound)
                if err > bound:
                    ck.violation('converged step returns a value farther from the collocation solution than ||(I-dtQA)^-1||*restol allows',
                                 dict(meta, step=sidx, component=x, error=float(err), bound=float(bound), K=float(K)),
                                 match={'kind': 'not_collocation', 'sweeper': kind, 'levels': len(cfg['levels']), 'finished_at_iteration_0': e['iter'] == 0,
                                        'initial_guess': cfg['initial_guess']})
            prev_end = list(s0['uend'])
        if list(uend.v) != prev_end:
            ck.violation('run() does not return the end value of the last step', meta, match={'kind': 'return_value'})
    ck.cov['exact_runs_not_converged_within_maxiter'] = notconv
    ck.cov['exact_runs_over_time_budget'] = budget_hits[0]
    # the generator draws step sizes inside the contraction range: on the pinned tree every run converges (0 of 1200 over 8 seeds);
    # more than a handful of runs that no longer reach restol within 60 iterations means the fixed point or the contraction changed
    if notconv > max(3, n // 40):
        ck.violation('%d of %d exact runs no longer reach restol within maxiter (none does on the pinned tree)' % (notconv, n),
                     {'not_converged': notconv, 'runs': n, 'first_configurations': notconv_cfgs[:3]}, match={'kind': 'convergence_lost'})
    if budget_hits[0] + notconv > n // 2:
        ck.violation('most exact runs no longer converge / finish in time (%d not converged, %d over the time budget of %d): the property cannot be established'
                     % (notconv, budget_hits[0], n), {'not_converged': notconv, 'over_budget': budget_hits[0], 'runs': n},
                     match={'kind': 'runs_do_not_converge'}, no_input=True)
    ck.cov['worst_error_over_bound'] = float(worst_ratio)


def float_part(ck, rng, thorough):
    from pySDC.implementations.controller_classes.controller_nonMPI import controller_nonMPI
    from pySDC.implementations.problem_classes.TestEquation_0D import testequation0d
    from pySDC.implementations.problem_classes.HeatEquation_ND_FD import heatNd_unforced
    from pySDC.implementations.problem_classes.AdvectionEquation_ND_FD import advectionNd
    from pySDC.implementations.sweeper_classes.generic_implicit import generic_implicit
    from pySDC.implementations.transfer_classes.TransferMesh import mesh_to_mesh
    from pySDC.implementations.hooks.log_solution import LogSolution
    from pySDC.helpers.stats_helper import get_sorted
    import scipy.sparse as sp
    worst = 0.0
    n = 400 if thorough else 40
    for i in range(n):
        which = rng.choice(['test', 'heat', 'advection'])
        nl = rng.choice([1, 2]) if which != 'test' else 1
        M = rng.choice([2, 3])
        P = rng.choice([1, 2, 3])
        dt = rng.choice([0.05, 0.1])
        restol = 1e-10
        if which == 'test':
            pcls, pp = testequation0d, {'lambdas': np.array([complex(rng.uniform(-3, -0.2), rng.uniform(-2, 2)) for _ in range(3)]), 'u0': 1.0}
        elif which == 'heat':
            pcls, pp = heatNd_unforced, {'nvars': [15, 7][:nl] if nl > 1 else 15, 'bc': 'dirichlet-zero', 'freq': 1, 'nu': rng.uniform(0.1, 1.0)}
        else:
            pcls, pp = advectionNd, {'nvars': [16, 8][:nl] if nl > 1 else 16, 'bc': 'periodic', 'freq': 2, 'c': rng.uniform(0.2, 1.0), 'order': 2, 'stencil_type': 'center'}
        desc = dict(problem_class=pcls, problem_params=pp, sweeper_class=generic_implicit,
                    sweeper_params={'num_nodes': M, 'quad_type': 'RADAU-RIGHT', 'QI': rng.choice(['IE', 'LU', 'MIN-SR-S']),
                                    'initial_guess': rng.choice(['spread', 'zero'])},
                    level_params={'dt': dt, 'restol': restol}, step_params={'maxiter': 80})
        if nl > 1:
            desc['space_transfer_class'] = mesh_to_mesh
            desc['space_transfer_params'] = {'iorder': 6, 'rorder': 2, 'periodic': which == 'advection'}
        try:
            C = controller_nonMPI(num_procs=P, controller_params={'logger_level': 90, 'hook_class': [LogSolution], 'mssdc_jac': rng.random() < 0.5},
                                  description=desc)
            L0 = C.MS[0].levels[0]
            prob = L0.prob
            u0 = prob.u_exact(0.0)
            uend, stats = C.run(u0=u0, t0=0.0, Tend=dt * P * 2)
        except Exception as e:
            ck.violation('float run raised %s: %s' % (type(e).__name__, e), {'problem': which}, match={'kind': 'float-run-raise', 'problem': which})
            continue
        res = [r for _, r in get_sorted(stats, type='residual_post_step', sortby='time')]
        if not res or max(res) > restol:
            ck.case(key=('float', which, nl, M, P), nontrivial=False)
            continue
        us = get_sorted(stats, type='u', sortby='time')
        if which == 'test':
            A = np.diag(pp['lambdas'])
        else:
            A = prob.A.toarray() if sp.issparse(prob.A) else np.asarray(prob.A)
        nvar = A.shape[0]
        Qm = L0.sweep.coll.Qmat[1:, 1:]
        big = np.eye(M * nvar) - dt * np.kron(Qm, A)
        cond = np.linalg.norm(np.linalg.inv(big), np.inf)
        prev = np.asarray(u0).ravel()
        ck.case(key=('float', which, nl, M, P, desc['sweeper_params']['QI']), nontrivial=True, sample={'problem': which, 'levels': nl, 'M': M, 'procs': P})
        for t, u in us:
            U = np.linalg.solve(big, np.tile(prev, M)).reshape(M, nvar)
            err = float(np.max(np.abs(np.asarray(u).ravel() - U[-1])))
            bound = cond * restol * 4 + 1e-11 * (1 + float(np.max(np.abs(U))))
            worst = max(worst, err / bound)
            ck.traces += 1
            if err > bound:
                ck.violation('float run: converged step value differs from the collocation solution by %.3e (bound %.3e)' % (err, bound),
                             {'problem': which, 'levels': nl, 'M': M, 'procs': P, 'time': float(t), 'error': err, 'bound': bound},
                             match={'kind': 'float_not_collocation', 'problem': which})
                break
            prev = np.asarray(u).ravel()
    ck.cov['float_worst_error_over_bound'] = worst


def block_part(ck, rng, thorough):
    """one iteration of the REAL controller on blocks of 2-3 time-parallel steps with 1-3 levels (Jacobi / Gauss-Seidel coupling,
    generic_implicit / IMEX sweepers, both prolongation modes) in exact arithmetic == the schedule Model/Block.pfasst_iteration
    evaluated by the kernel (ties the block model of C01_block_fixed_point_any_schedule to the controller)"""
    from harness import blockcase as bc
    cases = []
    for i in range(300 if thorough else 44):
        # every fourth case exercises a predictor (fine_only / pfasst_burnin) or two consecutive iterations instead of one iteration
        c = bc.make_block_case(rng, i, mode=(0 if i % 4 else (1 + (i // 4) % 3)))
        if c:
            cases.append(c)
            m = c[0]
            ck.case(key=('block', m['mode'], m['steps'], m['levels'], tuple(m['nodes']), tuple(m['nsweeps']), tuple(m['dims']), m['imex'], m['jacobi'], m['finter'], tuple(m['QI']), m['quad_type'], m['do_coll_update']),
                    sample=m)
    bc.eval_block_cases(ck, cases, chunk=4)


def run(ck):
    logging.disable(logging.CRITICAL)
    thorough = ck.tier == 'thorough'
    ck.rule = ('seeded configurations (sweeper kind, levels, steps per block, preconditioner per level, predictor, coupling, nsweeps, initial guess, '
               'residual type, quadrature type, end-point mode); non-trivial = every step reached restol (the property\'s premise)')
    ck.check_props(required=['C01_fixed_point_is_collocation', 'C01_collocation_is_fixed_point', 'C01_imex_fixed_point_is_collocation', 'C01_imex_collocation_is_fixed_point', 'C01_explicit_fixed_point_is_collocation', 'C01_explicit_collocation_is_fixed_point',
                             'C01_multi_implicit_fixed_point_is_collocation', 'C01_residual_zero_iff_collocation',
                             'C01_block_fixed_point_any_schedule', 'C01_controller_iteration_fixed_point', 'C01_controller_run_fixed_point', 'C01_controller_schedule_in_bounds'])
    exact_part(ck, ck.rng, thorough)
    block_part(ck, ck.rng, thorough)
    float_part(ck, ck.rng, thorough)
